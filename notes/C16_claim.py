# claim text for harness/manifest_gen.py (replaces the existing claim("C16", ...) call)
claim("C16",
      "Coq proof (no axioms, by induction over call sequences of any length) about ProvModel.v, a faithful executable model of "
      "MockProvider/MockFS in its four flavours.  For all call sequences: oid stability (id-style) / oid = path (path-style), append-only event "
      "log and cursor semantics, agreement of info/exists/hash/download/listdir, the error class of each failing precondition, the hash law for an "
      "arbitrary hash, event completeness per mutation, the connect identity check, and the structure of the object table (S_inv: no repeated key, "
      "a path key leads to a cell with that normalised path, id keys = cell numbers) in the three flavours other than path-style+case-insensitive.  "
      "Tree well-formedness (root is a live folder; every live object is filed under its own path and oid, has a live FOLDER as parent, is listed "
      "once) is proved for EVERY state reachable by a call sequence that satisfies the explicit decidable guard guard_op in those three flavours "
      "(C16_wf_reachable_guarded; invariant INV, one preservation lemma per call).  The guard excludes exactly: the path-style+case-insensitive "
      "flavour (finding C16-F4), a rename whose target lies strictly inside the renamed object's own subtree (C16-F5), removal of the root folder "
      "(delete of the root, '/' as rename target; new finding C16-F7); each part is shown necessary by a refutation with a witness replayed on the "
      "real mock.  Keys are unrestricted (a path string used as oid, C16-F6, is covered).  C16_rename_moves_subtree: after a successful guarded "
      "rename of o from old to p, for every relative path rel the object that was at old++rel is the object at p++rel (same cell, kind, contents; "
      "same oid for id-style, oid = new path for path-style), the old paths are free (unless only the case changed), every other live object "
      "except an empty folder that was at p is unchanged, and nothing else appears.  C16_listdir_exact_wf: listdir of a live folder = exactly the "
      "live objects whose parent path is the folder, each once.  The earlier bounded theorem (clean sequences of <= 3 calls, vm_compute) is kept "
      "as a special case.  Tie: every return value, exception class, event and tree vs the real MockProvider (4 flavours) and FileSystemProvider "
      "on a temp directory (synchronous API; inotify stream not compared); wf, listing and rename_moves_subtree predicates evaluated on the real "
      "MockProvider's own object table on every clean explored sequence.",
      "Trusted: Coq kernel (vm_compute only for refutation witnesses, the bounded theorem and non-vacuity Examples), extraction + driver, harness "
      "(reads MockFS._objects and MockProvider._events).  Not proved: that the guard is also sufficient for the path-style+case-insensitive "
      "flavour (it is not: C16-F4); nothing about FileSystemProvider beyond the differential; filesystem events partial.  The move loop of "
      "MockProvider.rename runs over a Python set: the model answers EUnspecified where the result would depend on the order, and the theorems "
      "are about the calls that succeed.",
      PURE_TECH, "DESIGN.md §6 C16")
