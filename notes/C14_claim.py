# text for harness/manifest_gen.py (the coordinator pastes this call; ENGINE_NOTE / PURE_TECH are defined there)
claim("C14",
      "Coq proof (19 theorems, no axioms) about EventModel.v (EventManager._process_event, SyncEntry.get_latest / unconditionally_get_latest, "
      "_last_gotten) on top of StateModel.v (SyncState.update, C11), for EVERY state satisfying the C11 index invariant, every provider "
      "environment and every event payload: id-less events are dropped and id-less folder deletions resolved by path; a walk event whose hash and "
      "path equal the stored entry changes nothing; one non-folder event of an id-stable provider changes exactly one entry (exact entry-level "
      "spec); the same event twice = once (up to the numeric change stamps) except TRASHED+exists, where the difference is removed by the re-read; "
      "events for different ids commute; after the re-read of the truth by id the state does not depend on which events for an id were delivered, "
      "how often, in which order or with which payload (priority excepted); a vanished object reads TRASHED whatever was delivered; the deletion "
      "of an id never seen yields nothing delete_synced could delete; every event (folders included) stamps its side newer than all earlier "
      "stamps and leaves the entry due for a re-read on both sides when no _last_gotten is ahead of the clock. Six full-strength statements are "
      "FALSE of the faithful model and kept as _refuted with witnesses replayed on the real code (duplicate creation event after a deletion; "
      "folder events vs stale child events; priority reset by a stale path; hash_conflict() of a vanished object reads the event's hash; a "
      "priority punt pushes _last_gotten ahead of the clock so the next event is not re-read; path-style ids: a late copy of a rename event "
      "re-files the entry of a file re-created at the old path). Ties on every run: (i) after EVERY operation of random event sequences "
      "(duplicates, late re-deliveries, id-less events, folder deletions by path, walk replays, root events, prior_oid renames, vanished ids, "
      "get_latest with stubbed provider answers, engine-like state writes; both id styles) the real EventManager/SyncState state incl. "
      "_last_gotten equals the extracted model's, and the statements are evaluated on the real behaviour; (ii) every clean-domain history is run "
      "twice on the real engine - prompt in-order delivery and mangled delivery (1-3 copies, late copies, single-event batches, finite delay and "
      "permutation between drains for id-stable sides, full walks through EventManager.need_walk, dropped path fields, id-less folder deletions) "
      "- and must give Monitor-accepted runs, equal final trees, equal tree-changing engine calls when the trees are still while the engine works "
      "(otherwise: no version transferred twice, no more calls of a kind than user operations), and a walk of a quiet engine must leave it quiet.",
      "Trusted: Coq kernel; extraction (ExtrOcamlBasic) + OCaml driver; StateModel/StateProofs (C11) and PathModel (C13); the harness (C11 clock and "
      "set-order recording, stubbed provider answers as model inputs, the event mangler installed on provider instances and its flush rule, the "
      "pairing of two engine runs, Monitor acceptor). NOT proved: the sync manager's decisions after the re-read (only that their inputs are "
      "equal), folder events beyond idempotence/stamps (children re-filing: correspondence only), path-style ids (refuted; correspondence + engine "
      "pairs with adjacent copies only), events delayed ACROSS a quiet point (open finding E-10: the mangler flushes at drains), event filtering, "
      "provider exceptions during intake. Open findings listed in known_findings.json: E-10, E-17.",
      "machine-checked proof (Coq) over a hand-written executable model + stepwise differential correspondence + paired real engine runs judged by the Coq monitor",
      "DESIGN.md §6 C14")
