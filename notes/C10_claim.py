# claim() entry for harness/manifest_gen.py (the coordinator pastes it there; this file is not imported)
claim("C10",
      "Coq proof (41 theorems, no axioms) over executable models: (a) the class order of exceptions.py (15 classes + any class derived "
      "from them by single inheritance) and notify_from_exception as an isinstance chain — every subclass of disconnected / out-of-space / "
      "file-name / namespace / root-missing / temporary maps to its kind, out-of-space is not shadowed by temporary, no branch is dead; "
      "(b) the except clauses of SyncManager._sync_one_entry / _validate_provider_roots / EventManager.do as handler tables inside C18's loop "
      "model — for EVERY exception class and every finite sequence of step results: each step ends in one of LoopModel's outcome classes, "
      "do() is called once per step (no fault ends a loop), what is notified / punted / committed / need_auth / reconnect / re-authenticate, "
      "k faulty steps wait min(max, min*mult^(k-1)), the first step that does something resets the backoff; (c) C17's scheduler with "
      "permanently failing entries — for every table, failing set and clock sequence a good entry that stays eligible is picked within "
      "budget+1 calls of change() (<= |change set| with default priorities), a punted entry is eligible again after its punt delay; "
      "(d) Monitor: a failed provider call is a stutter, so an accepted run with faults is converged, has lost no covered version and (one-sided/"
      "disjoint) equals the history at every quiet report. Full-strength statements false of the code stay as refutations: a fault inside "
      "SyncState.change() is not notified (finding E-15), root-missing/file-name are not reported by the event loop, an idle sync loop keeps "
      "its backoff. Ties on every run: fail-closed ast translator regenerating class order, chain and handler tables (GenNotify.v = model by "
      "reflexivity; do() and _reconnect_if_needed by ast equality); exhaustive class-order/chain differential; scripted steps over all 67 "
      "classes on the REAL managers through the REAL Runnable.run loop body vs the extracted machines; real SyncState change/punt/finished vs "
      "sched_run incl. the bound; engine runs on two MockProviders with faults injected into every engine-issued provider call (mutations, "
      "download, info_oid, info_path, listdir, hash/exists, events and between two events): every single call index x 6 kinds exhaustively per "
      "base run, random subsets 2-20 %, disconnect()/reconnect, expired tokens with re-authentication, out-of-space, permanent per-path "
      "failures (locked / invalid name) lifted later, faults during a start-up walk; oracles: nothing leaves Runnable.run, matching "
      "notification in the step of every reportable injected fault, healthy files in sync while the failing one is set aside, invalid name "
      "set aside (engine quiet), Monitor acceptance after the faults stop, stepwise machine correspondence on every recorded step.",
      "Trusted: Coq kernel; extraction (ExtrOcamlBasic) + OCaml driver; the translator's whitelist and Python try/except + isinstance "
      "semantics built into FaultModel.dispatch/isinst (single inheritance); the observation harness (in-process wrappers on provider / "
      "storage / manager instances, class-level observer on SyncEntry.punt, virtual clock, serial ids, debug_sig replacement); MockProvider "
      "incl. its connection state. NOT modelled: the sync algorithm itself (part (d) is about the acceptor; every explored run must be "
      "accepted, unexplored runs are not covered); OS timing of backoff sleeps; threads. Seeded fault domain excludes the provider calls "
      "SyncState makes on its own (change() fill-in, _update_kids) — findings E-15, E-8, E-14, replayed from corpus/C10 on every run.",
      "machine-checked proof (Coq) over hand-written models (reusing LoopModel, SchedModel, Monitor) + translator + differential "
      "correspondence + fault-injection runs of the real engine judged by the extracted acceptor",
      "DESIGN.md §6 C10")
