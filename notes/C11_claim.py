# replaces the claim("C11", ...) call of harness/manifest_gen.py (the coordinator pastes it; that file is not edited here)
claim("C11",
      "Coq proof (no axioms) about StateModel.v (entry table, per-side id and (path,id) indexes, change set, every intercepted write as an explicit "
      "setter with fuel, event application, split, move-a-side): clauses (i)-(iii) (IdxJ: every entry carrying an id is found under it and under "
      "(path,id); every slot leads to an entry carrying that id/path; one owner per id and side) are PRESERVED, from EVERY state satisfying them and "
      "for ALL arguments, tapes and fuel, by: id assignment (all of _change_oid), changed, priority, ignored, mark_changed, finished, discard, path "
      "assignment of ANY entry incl. folders with the recursion of _update_kids through the children's setters (C11_set_path_folder_preserves), "
      "SyncState.update_entry, SyncState.update (one provider event, all branches: prior_oid re-use / rename detection / merge by side move / stale "
      "path lookups / new entry), SyncState.split, SyncEntry.__setitem__ (both announcement orders); headline C11_idx_reachable: after EVERY "
      "operation of EVERY sequence over the whole modelled alphabet from the empty state in which each operation satisfies its guard (guardedb), "
      "(i)-(iii) hold. Hypotheses, all explicit: env_ok (the code as it is; the providers' per-character case fold satisfies PathLaws.fold_ok - true "
      "of the model's fold); result constructor Ok (assertion failures, RecursionError = out of fuel and unfitting tapes are explicit Err results); "
      "the guards, boolean functions of the state BEFORE the operation (decidable, C11_below_decidable): (a) a folder is not placed strictly below "
      "its own previous path (class of open finding F4, for which termination is refuted: kept), (b) for a side move onto a folder entry that "
      "already has a path, and for the merge branch of update: additionally the side is not oid_is_path when an id comes along (needed: "
      "C11_setitem_refuted, new open finding F5, witness replayed on the real SyncState), (c) not forget_oid (C11_forget_refuted; no caller in the "
      "engine). Measured in the quick run: 99.4% of 147 999 generated steps and 95.8% of 20 000 sequences satisfy the guards (bits printed by the "
      "extracted guard model, C11_guard_trace_decides); 0 claimed-clause failures inside the guarded domain. Clause (iv) at full strength stays "
      "refuted (F1). Tie: after EVERY operation of random event/assignment/split/finished/discard/move/update_entry sequences for both id styles the "
      "real indexes and entries equal the model's (now incl. moves of an id-less side with a path: catches seeded C11b); the four clauses are also "
      "evaluated on every state of the C06/C07 engine runs (harness/state_oracle.py).",
      "Trusted: Coq kernel, extraction + driver, harness, PathModel/PathLaws (C13) for is_subpath/join as component lists. The theorems quantify over "
      "ALL entries of the model's entry table (also ones no slot leads to); the Python oracle only over entries reachable through an id slot. Not "
      "proved: termination (refuted in general), clause (iv), anything about runs outside the guards; key-uniqueness of the association lists is not "
      "part of the invariant (hence the event guard also ranges over the entries the stale path lookup returns). Not modelled: CORRUPT/_saved_exists, "
      "size, mtime, storage, non-default prioritize, state after an exception.",
      PURE_TECH, "DESIGN.md §6 C11")
