# claim entry for harness/manifest_gen.py (paste after the C06 claim; ENGINE_NOTE / ENGINE_TECH are defined there)
claim("C07",
      "Coq proof (16 theorems, no axioms) about CrashModel.v, the commit discipline as a machine of individual writes (durable: storage rows "
      "with both sides' oid/path/hash/sync_path/sync_hash/exists/changed, stored cursors; volatile: in-memory entries, dirty marks, cursor "
      "position; two providers with the whole history of every object; engine steps decomposed, in the order of the code, into provider "
      "write / memory update / row commit / cursor store, each with its guard; crash = volatile part dropped, memory reloaded from the rows). "
      "(a) for EVERY sequence of guarded micro operations, user operations and crashes, hence at every write boundary: every stored sync mark "
      "is reflected by its own object and by the peer unless a user changed the object since, and every object whose events the stored cursor "
      "covers is accounted for by a stored row (C07_durable_never_ahead, by induction over the sequence); the model's plans never issue an "
      "operation whose guard fails and have the write order provider writes -> row commits / row commits -> cursor last. (b) from every state "
      "of every plan-driven run — all step sequences, all crash points ECrash m k — in which no user acts between a crash and the next quiet "
      "state, the recovery (restart, intake from the stored cursors, sync with adoption of an equal-content peer at the translated path) ends "
      "settled with equal views, no '.conflicted' name, one peer per object, origins untouched (C07_half_recorded_recoverable_partial); full "
      "strength (users acting during the recovery) and the recovery without the adoption rule are refuted with witnesses. (c) rows that fail to "
      "load are exactly the dropped ones, loading is total. Outcome: a crash is invisible in the observation trace, Monitor acceptance gives "
      "convergence to the spec tree, covered versions live, no '.conflicted', origin untouched. Tie on every run: each base run of a seeded "
      "clean-domain family (one-sided / disjoint, SqliteStorage on a file) is re-run once per storage write (death before it) and per "
      "engine-issued provider write (death after it); oracles: Monitor + C11 index + C08 storage==memory during recovery; the extracted "
      "na_row/na_obj (the functions of theorem (a)) on the decoded rows at every write boundary and, on the re-opened file, at the crash "
      "instant; the extracted shape_ok on the write order of every engine step; the model's recovery of the abstracted crash state vs the real "
      "recovery (provider writes per object, final views); an undecodable row injected at crash instants must be dropped by the restart.",
      ENGINE_NOTE + " C07 additionally trusts the abstraction of real rows/providers to the model's vocabulary (msgpack decoding, oid lookup, "
      "interning, object histories recorded by scanning the mock file system, a folder event counted as an event of its descendants, slots "
      "assembled from which side's user made an object). Not modelled: torn writes inside SQLite, process death inside a provider call, path "
      "collisions and parent-first ordering, users acting between the process death and the end of the recovery (refuted for the model; "
      "witnesses W1/W2 replayed with pinned outcome). The seeded domain is tightened by two classes found by this check and listed as known "
      "findings with deterministic witnesses: F-C07-1 (crash between the row commits after a folder rename, then an operation on a child; "
      "resumed runs exclude folder renames) and F-C07-2 (peer created at a path the origin has already left; a drain precedes the rename or "
      "delete of an object made since the last quiet point).",
      "machine-checked proof (Coq) of an executable model of the commit discipline (invariant over all write sequences and crash points) and of a "
      "trace acceptor + exhaustive crash-point enumeration of real engine runs judged by the extracted predicates",
      "DESIGN.md §3.2, §6 C07")
