# claim text for the algorithm layer (check id ALGO; serves C01 and C03).  harness/manifest_gen.py is not edited here: the
# coordinator pastes this call (or folds the two strings into the C01 / C03 claims).
claim("ALGO",
      "Coq development (no axioms; every theorem of PropAlgo.v is closed under the global context) about AlgoModel.v: the engine's own closed "
      "loop - EventManager.do/_process_event -> SyncState.update; SyncState.change (path-filling loop, ageing-0 threshold, sorted pick); "
      "SyncManager.pre_sync / sync / embrace_change / handle_path_change_or_creation / create_synced / upload_synced / handle_hash_diff / "
      "delete_synced / handle_rename / mkdir_synced / finished / punt / update_entry / get_latest - transcribed branch by branch over two ProvModel "
      "providers, one StateModel sync state, a virtual clock and per-side event cursors; every branch outside the fragment answers an explicit "
      "OutOfFragment code (28 codes). Fragments F1 (files in the root: create/write/delete), F2 (+rename), F3 (+mkdir, punting), each with a "
      "decidable domain predicate in_Fk over user histories. PROVED on F1, from EVERY world satisfying the coupling invariant Inv (state <-> both "
      "providers <-> pending events; owner/mirror clauses replace DESIGN's 'equal sync_hashes', which is false) and for ALL arguments: the "
      "initial world satisfies Inv for every clock reading (ALGO_inv_initial); a whole event-intake pass keeps Inv (ALGO_inv_intake); get_latest "
      "keeps it and makes both sides current-or-pending (ALGO_inv_get_latest, ALGO_inv_refresh_both); each state-changing leaf of sync() keeps it "
      "- clearing an unneeded change, finished, punt, download of a deleted file, create_synced, upload_synced, delete_synced - and create / "
      "upload / delete are shown to succeed, to leave the origin provider untouched and to leave hash = sync_hash (7 theorems); Inv + no pending "
      "event + empty change set => the two root-relative trees are equal (ALGO_quiescent_equal_under_inv). REFUTED at full strength, kept as a "
      "theorem with a vm_compute witness replayed on the real engine: a one-sided history of 4 operations that writes a content to a file twice "
      "ends quiescent with different contents (ALGO_quiescent_equal_full_refuted = open finding A-1, stale sync_hash; patch proposed in "
      "notes/ALGO_findings.md); the domain therefore requires a written content to be new for its file. NOT yet proved (tied only): the assembly "
      "of the leaf theorems into one theorem about sync_step, user operations, and hence the run-level statements (inv_reachable, quiescent_equal "
      "over runs, never_out_of_fragment, origin_untouched, echo_absorbed, progress bound, refinement of Monitor.v); F2/F3 invariants. "
      "Tie: seeded in-domain histories x random schedules (user ops, single intake / sync steps with random change-set order, drains) run on the "
      "REAL engine and on the extracted model; after EVERY action all entries (oid, path, hash, sync_path, sync_hash, exists, exact changed stamp, "
      "_last_gotten, temp file, ignore reason, priority), the change set, both provider object tables with cursors, and the engine-issued provider "
      "calls of the step are equal; in_Fk holds for every generated history; 0 OutOfFragment answers; executable invariant evaluated on every "
      "level-1 state. Quick: 480 runs / ~21 000 states; thorough: 26 000 runs; corpus of 11 cases incl. both A-1 witnesses.",
      "Trusted: Coq kernel, extraction (ExtrOcamlBasic) + OCaml driver, harness/engine.py (virtual clock, serial ids), the abstraction function "
      "of c01_algo.py, MockProvider as the world (ProvModel, tied by C16), StateModel (tied by C11), SchedModel (C17), PathModel (C13). The initial "
      "world is a constant of the model compared with the real state at the start of every run. Not modelled: threads, storage, real clocks "
      "(clock readings and set iteration orders are schedule inputs), exceptions escaping a step, providers other than id-stable case-sensitive "
      "unfiltered MockProviders, anything answering OutOfFragment (conflicts, path-style ids, filters, non-empty folder deletes, the split guard "
      "of bbf04b7/0292e7f). The proved theorems are about F1 only.",
      PURE_TECH, "DESIGN.md §1.2, §3.3, §4.3; notes/ALGO_design.md")
