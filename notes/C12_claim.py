# Proposed replacement of the claim("C12", ...) call in harness/manifest_gen.py (do not edit that file here).
# What is new: "move out = delete, move in = create" and "declined paths are left alone" are theorems about
# every accepted trace (MonitorBoundary.v, PropC12.v), no longer only convergence of the views.
claim("C12",
      "Coq proof (all traces, any length, any trees): every engine-issued provider mutation of an accepted trace addresses only paths "
      "inside the root of its side, the part of each provider tree outside the root is identical before and after it "
      "(C12_engine_confined), and no addressed path has a component the application's translate function declines "
      "(C12_declined_left_alone; guard DECLINED, the declined names are part of the run's configuration). "
      "For accepted one-sided runs (users act on one side s0; initial tree of s0 well-formed = unique paths, every parent a stored folder): "
      "the entries strictly below a root and all the others determine the tree (C12_view_and_outside_determine_tree), hence no engine "
      "action changes the acting side at all and after every observation its tree equals the initial tree with the user's ABSOLUTE "
      "operations applied, renames with one end outside the root included (C12_origin_tree_is_history, C12_origin_tree_observed); "
      "at every quiet report of a run that demands the absence of conflicted names the peer's view equals the root view of that tree "
      "(C12_boundary_moves_mirror). Spelled out for an applicable rename that is the last user operation before a quiet report "
      "(applicability = TreeProofs.rename_ok of the tree itself; C12_rename_applicable: source exists, not an ancestor of the target, "
      "target free, target's parent a folder): source strictly inside the root and target not => the peer's view has nothing at or "
      "below the source's relative path and is the previous root view everywhere else (C12_move_out_is_delete); source not strictly "
      "inside and target strictly inside => the peer's view has at the target's relative path and below exactly what the acting side "
      "had at the source and below, and is the previous root view everywhere else (C12_move_in_is_create). Non-vacuity: a concrete "
      "accepted one-sided trace with a file moved out and a folder with content moved in, both corollaries instantiated on it, and "
      "rejected variants (peer copy left behind: CONVERGE; declined path addressed: DECLINED; outside write: CONFINED). "
      "Translation into/out of the roots by the default translate: C13's theorems; nothing about an arbitrary translate function is "
      "proved beyond 'declined names are never addressed'. "
      "Tie: histories mixing objects inside the roots, in other folders, in prefix-sibling folders (/local2, /localx), at the account "
      "root, file/folder moves across the boundary, roots given by path or by oid, and a translate function declining a sub-folder, each "
      "run on the real engine as a one-sided run with origin = the acting side and (except the declining variant, whose ignore list "
      "doubles as the conflicted list) no_conflicted = true, i.e. exactly the hypotheses of the boundary theorems; every explored run "
      "must be accepted by the extracted acceptor. Not proved / not checked at run time: well-formedness of the initial tree is a "
      "hypothesis (true of every MockProvider tree; TreeProofs.wfb decides it); two-sided runs get confinement and DECLINED only; "
      "a boundary move whose effect is still in flight at the end of a run (no quiet report after it) is constrained only by "
      "confinement.",
      ENGINE_NOTE, ENGINE_TECH, "DESIGN.md §3.2, §6 C12")
