"""Shared machinery of every check: context, Coq gate, model process, evidence, verdicts."""
import hashlib
import json
import os
import random
import subprocess
import sys
import time

from . import build

VERIF = build.VERIF
EVIDENCE = os.path.join(VERIF, "evidence")
REPLAYS = os.path.join(VERIF, "replays")
KNOWN = os.path.join(VERIF, "known_findings.json")

ALLOWED_AXIOMS = {
    # standard-library axioms a proof may depend on; each one that actually occurs is
    # listed in the evidence (trusted_base) of the property that uses it.
    "Coq.Logic.FunctionalExtensionality.functional_extensionality_dep",
    "functional_extensionality_dep",
    "Coq.Logic.Classical_Prop.classic", "classic",
    "Coq.Logic.ProofIrrelevance.proof_irrelevance", "proof_irrelevance",
    "Coq.Logic.JMeq.JMeq_eq", "JMeq_eq",
    "Coq.Logic.Eqdep.Eq_rect_eq.eq_rect_eq", "eq_rect_eq", "Eqdep.Eq_rect_eq.eq_rect_eq",
}


# ---------------------------------------------------------------- S-expressions
def sx_dump(x):
    if isinstance(x, bool):
        return "1" if x else "0"
    if isinstance(x, int):
        if x < 0:
            raise ValueError("negative atom")
        return str(x)
    if isinstance(x, str):
        return "(" + " ".join(str(ord(c)) for c in x) + ")"
    if isinstance(x, (bytes, bytearray)):
        return "(" + " ".join(str(c) for c in x) + ")"
    if x is None:
        return "()"
    return "(" + " ".join(sx_dump(y) for y in x) + ")"


def sx_load(s):
    s = s.strip()
    pos = 0
    n = len(s)

    def term():
        nonlocal pos
        while pos < n and s[pos] == " ":
            pos += 1
        if s[pos] == "(":
            pos += 1
            items = []
            while True:
                while pos < n and s[pos] == " ":
                    pos += 1
                if s[pos] == ")":
                    pos += 1
                    return items
                items.append(term())
        st = pos
        while pos < n and s[pos].isdigit():
            pos += 1
        return int(s[st:pos])

    t = term()
    if pos != n:
        raise ValueError("trailing input in sx: %r" % s[:80])
    return t


def sx_to_str(x):
    return "".join(chr(c) for c in x)


MALFORMED = [999999, 999999]


class ModelProc:
    """The extracted Coq model as a line-protocol subprocess (coq/bin/<name>)."""

    def __init__(self, name):
        self.name = name
        exe = os.path.join(build.BIN, name)
        if not os.path.exists(exe):
            raise build.BuildError("model executable missing: " + exe)
        self.p = subprocess.Popen(["/bin/sh", "-c", "ulimit -s unlimited 2>/dev/null; exec " + exe],
                                  stdin=subprocess.PIPE, stdout=subprocess.PIPE, text=True, bufsize=1 << 20)
        self.calls = 0

    def call(self, x):
        self.p.stdin.write(sx_dump(x) + "\n")
        self.p.stdin.flush()
        line = self.p.stdout.readline()
        self.calls += 1
        if not line:
            raise RuntimeError("model %s died on input %s" % (self.name, sx_dump(x)[:200]))
        if line.startswith("!"):
            raise RuntimeError("model %s: %s on %s" % (self.name, line.strip(), sx_dump(x)[:200]))
        return sx_load(line)

    def batch(self, xs):
        """Pipelined: write everything from a thread, read the answers."""
        import threading
        xs = list(xs)

        def w():
            for x in xs:
                self.p.stdin.write(sx_dump(x) + "\n")
            self.p.stdin.flush()
        t = threading.Thread(target=w)
        t.start()
        out = []
        for x in xs:
            line = self.p.stdout.readline()
            if not line or line.startswith("!"):
                t.join()
                raise RuntimeError("model %s failed: %r on %s" % (self.name, line, sx_dump(x)[:200]))
            out.append(sx_load(line))
        t.join()
        self.calls += len(xs)
        return out

    def close(self):
        try:
            self.p.stdin.close()
            self.p.wait(timeout=5)
        except Exception:
            self.p.kill()


# model executables (coq/bin/<name>) each property's check runs; their Extract*.v closures are built with the
# property file.  A property not listed here falls back to building the whole development.
PROP_BINS = {
    "C01": ["monitor", "algo"], "C02": ["monitor"], "C03": ["monitor", "algo"], "C04": ["monitor"], "C12": ["monitor"],
    "C05": ["monitor", "resolver"], "C06": ["monitor", "cursor"],
    "C08": ["codec", "monitor"], "C09": ["store"], "C11": ["state", "stateguard"], "C13": ["path"], "C16": ["prov"], "C17": ["sched"],
    "C18": ["loop", "notify"], "C19": ["cache"], "C20": ["smart"], "C15": ["thread", "monitor"], "C14": ["event", "monitor"], "C10": ["fault", "monitor"], "C07": ["crash", "monitor"],
    "ALGO": ["algo"],
}


# ---------------------------------------------------------------- check context
class Ctx:
    def __init__(self, prop, tier, seed, replay=None):
        self.prop = prop
        self.tier = tier
        self.seed = seed
        self.replay = replay
        self.rng = random.Random(seed)
        self.t0 = time.time()
        self.violations = []      # (replay_path, note, no_input)
        self.known_hits = []
        self.coverage = {}
        self.assumptions = []
        self.notes = []
        self.known = load_known().get(prop, [])
        self.quick = tier == "quick"

    def sub_rng(self, label):
        return random.Random("%s/%s/%s" % (self.seed, self.prop, label))

    # ---- verdicts
    def violation(self, what, case, kind="counterexample", no_input=False, theorem=None):
        """Report a violation unless the failing case is a listed known finding."""
        cid = case_id(case)
        for k in self.known:
            if k.get("status", "open") == "open" and cid in k.get("case_ids", []):
                if k["id"] not in [h["id"] for h in self.known_hits]:
                    self.known_hits.append(k)
                return False
        os.makedirs(REPLAYS, exist_ok=True)
        path = os.path.join(REPLAYS, "%s-%s.json" % (self.prop, cid[:12]))
        with open(path, "w") as f:
            json.dump(dict(property=self.prop, what=what, kind=kind, case_id=cid, case=case, seed=self.seed,
                           tier=self.tier, theorem_or_correspondence=theorem,
                           no_failing_input_found=no_input), f, indent=1, default=repr)
        if len(self.violations) < 20:
            self.violations.append((path, what, no_input))
        return True

    def known_finding_seen(self, k):
        if k["id"] not in [h["id"] for h in self.known_hits]:
            self.known_hits.append(k)

    # ---- Coq gate
    def coq_gate(self, prop_file=None, allowed_axioms=(), bins=None):
        """lint + regeneration of every source-derived .v file + incremental build of what THIS property needs
        (dependency closure of its property file and of the model executables it runs) + forced kernel re-check
        of the property file."""
        prop_file = prop_file or ("Prop" + self.prop)
        bins = PROP_BINS.get(self.prop) if bins is None else bins
        cov = self.coverage
        bad = build.lint()
        if bad:
            self.violation("forbidden vernacular in the development: " + "; ".join(bad[:5]),
                           dict(kind="lint", items=bad), no_input=True, theorem="lint")
            return None
        try:
            if bins is None:
                build.ensure()          # unknown property: whole development
            else:
                build.ensure_scope([prop_file], bins=bins)
        except build.BuildError as e:
            self.violation("the Coq files this property depends on no longer build", dict(kind="build", log=str(e)[-4000:]),
                           no_input=True, theorem="make theories/%s.vo + model executables %s" % (prop_file, bins))
            return None
        g = build.prop_gate(prop_file)
        cov["checker_cmd"] = "setup: coq_makefile -f _CoqProject -o Makefile && make -j16 (full .vo build of the whole development); every run: regenerate source-derived .v files, make theories/%s.vo (+ Extract closures of %s), then forced kernel re-check: rm theories/%s.vo && make theories/%s.vo" % (prop_file, bins, prop_file, prop_file)
        cov["obligations"] = len(g["theorems"])
        ok_thms = []
        allowed = set(ALLOWED_AXIOMS) | set(allowed_axioms)
        used_axioms = set()
        for t in g["theorems"]:
            axs = g["assumptions"].get(t)
            if axs is None:
                continue
            if all(a in allowed for a in axs):
                ok_thms.append(t)
                used_axioms.update(axs)
        cov["discharged"] = len(ok_thms) if g["ok"] else 0
        cov["theorems"] = g["theorems"]
        cov["axioms_used"] = sorted(used_axioms)
        cov["coq_gate_wall_s"] = g.get("wall_s")
        if not g["ok"]:
            self.violation("property theorems no longer check: " + (g["error"] or "")[:400],
                           dict(kind="proof", file=prop_file + ".v", error=g["error"]), no_input=True,
                           theorem=prop_file + ".v")
            return None
        if cov["discharged"] != cov["obligations"] or not g["theorems"]:
            bad_t = [t for t in g["theorems"] if t not in ok_thms]
            self.violation("theorems depend on undeclared assumptions: %s" % bad_t,
                           dict(kind="assumptions", theorems=bad_t, assumptions=g["assumptions"]),
                           no_input=True, theorem=",".join(bad_t))
            return None
        return g

    # ---- evidence + exit
    def finish(self, trusted_base, extra_assumptions=()):
        cov = self.coverage
        cov.setdefault("obligations", 0)
        cov.setdefault("discharged", 0)
        cov.setdefault("checker_cmd", "coqc 8.16.1 via make")
        cov["trusted_base"] = list(trusted_base)
        cov.setdefault("evaluations", 0)
        cov.setdefault("distinct_nontrivial", 0)
        cov.setdefault("rule", "")
        cov.setdefault("samples", [])
        cov["known_findings_replayed"] = [k["id"] for k in self.known_hits]
        ev = dict(property_id=self.prop, tier=self.tier, seed=self.seed, level="proof", coverage=cov,
                  assumptions=list(self.assumptions) + list(extra_assumptions),
                  wall_s=round(time.time() - self.t0, 2), violations=len(self.violations))
        if not self.replay:      # a --replay run re-executes one stored case: it is not evidence of a tier run
            os.makedirs(EVIDENCE, exist_ok=True)
            tmp = os.path.join(EVIDENCE, self.prop + ".json.tmp")
            with open(tmp, "w") as f:
                json.dump(ev, f, indent=1, default=repr)
            os.replace(tmp, os.path.join(EVIDENCE, self.prop + ".json"))
        for k in self.known_hits:
            print("KNOWN-FINDING: property=%s %s" % (self.prop, k["what"]))
        for path, what, no_input in self.violations:
            print("# " + what[:300])
            print("VIOLATION property=%s replay=%s%s" % (self.prop, path, " no-failing-input-found" if no_input else ""))
        sys.stdout.flush()
        return 1 if self.violations else 0


def case_id(case):
    return hashlib.sha256(json.dumps(case, sort_keys=True, default=repr).encode()).hexdigest()


def load_known():
    if not os.path.exists(KNOWN):
        return {}
    data = json.load(open(KNOWN))
    out = {}
    for k in data.get("findings", []):
        for p in k["properties"]:
            out.setdefault(p, []).append(k)
    return out


class Distinct:
    """Counts distinct non-trivial cases by hashing their canonical form."""

    def __init__(self):
        self.seen = set()
        self.total = 0
        self.nontrivial = 0

    def add(self, case, nontrivial=True):
        self.total += 1
        if not nontrivial:
            return
        h = hashlib.blake2b(repr(case).encode(), digest_size=10).digest()
        if h not in self.seen:
            self.seen.add(h)
            self.nontrivial += 1


def shrink_list(ops, fails, max_rounds=200):
    """Delta-debugging on a list: smallest sublist (by greedy removal) on which fails() still holds."""
    ops = list(ops)
    rounds = 0
    chunk = max(1, len(ops) // 2)
    while chunk >= 1 and rounds < max_rounds:
        i = 0
        changed = False
        while i < len(ops) and rounds < max_rounds:
            cand = ops[:i] + ops[i + chunk:]
            rounds += 1
            try:
                bad = bool(cand) and fails(cand)
            except Exception:
                bad = False
            if bad:
                ops = cand
                changed = True
            else:
                i += chunk
        if not changed:
            chunk //= 2
    return ops
