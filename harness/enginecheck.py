"""Engine-level runs: history/schedule generators, the run recorder and the Monitor tie.

A *case* is a JSON-able dict:
  flavour   : Flavour.key()
  base      : list of user ops applied to side 0 and synchronised before the observed run starts
  schedule  : list of actions
                ["user", side, op]   op = ["create", path, content] | ["write", path, content] | ["mkdir", path]
                                        | ["rename", src, dst] | ["delete", path]      (absolute provider paths)
                ["intake", side] | ["sync"] | ["drain"]
  mode      : dict(origin=None|0|1, check_spec=bool, no_conflicted=bool)
  hash_mult : odd int permuting SyncEntry set order
The observed trace (user ops, engine provider mutations, step and quiet markers + both trees after
each) goes to the extracted Coq acceptor (Monitor.v); its verdict is the oracle.
"""
from . import engine as E
from . import framework as fw

STEP_BOUND_BASE = 20
STEP_BOUND_PER_OP = 15

GUARDS = {1: "TIE", 2: "CONFINED", 3: "OUTSIDE", 4: "OTHER_SIDE", 5: "ORIGIN", 6: "COVERED_STEP", 7: "CONVERGE",
          8: "SPEC", 9: "CONFLICTED", 10: "COVERED_QUIET", 11: "BOUND", 12: "ECHO", 13: "SPEC_OP", 14: "STEP_TREE",
          15: "DECLINED"}


class Interner:
    def __init__(self):
        self.names = {}
        self.contents = {}

    def name(self, s):
        if s not in self.names:
            self.names[s] = len(self.names) + 1
        return self.names[s]

    def content(self, b):
        b = bytes(b)
        if b not in self.contents:
            self.contents[b] = len(self.contents) + 1
        return self.contents[b]

    def path(self, p):
        return [self.name(c) for c in p.replace("\\", "/").split("/") if c]

    def tree(self, snap):
        out = []
        for path, node in sorted(snap.items()):
            comps = self.path(path)
            if not comps:
                continue
            out.append([comps, [] if node[0] == "D" else [self.content(node[1])]])
        return out

    def op(self, op):
        k = op[0]
        if k == "create":
            return [0, self.path(op[1]), self.content(op[2])]
        if k == "write":
            return [1, self.path(op[1]), self.content(op[2])]
        if k == "mkdir":
            return [2, self.path(op[1])]
        if k == "rename":
            return [3, self.path(op[1]), self.path(op[2])]
        if k == "delete":
            return [4, self.path(op[1])]
        raise ValueError(k)

    def conflicted(self, extra=()):
        return [i for s, i in self.names.items() if ".conflicted" in s or s in extra]

    def declined(self, word):
        """interned names the case's translate hook declines: it refuses a path containing "/" + word,
        i.e. a path with a component that starts with the word"""
        if not word:
            return []
        self.name(word)
        return [i for s, i in self.names.items() if s.startswith(word)]


def jsonable_case(case):
    def conv(x):
        if isinstance(x, (bytes, bytearray)):
            return {"b": bytes(x).decode("latin1")}
        if isinstance(x, (list, tuple)):
            return [conv(y) for y in x]
        if isinstance(x, dict):
            return {k: conv(v) for k, v in x.items()}
        return x
    return conv(case)


def unjson_case(x):
    if isinstance(x, dict) and set(x.keys()) == {"b"}:
        return x["b"].encode("latin1")
    if isinstance(x, list):
        return [unjson_case(y) for y in x]
    if isinstance(x, dict):
        return {k: unjson_case(v) for k, v in x.items()}
    return x


class RunResult:
    def __init__(self):
        self.request = None
        self.verdict = None          # [] accepted | [index, code]
        self.events = []             # readable form of the trace
        self.final_views = None
        self.rounds = []
        self.loop_errors = []
        self.engine_calls = 0
        self.stuck = False
        self.extra = {}


PSEUDO = {101: "INDEX_ORACLE", 102: "STORAGE_ORACLE", 103: "RELOAD_ORACLE", 104: "CURSOR_AHEAD", 105: "LOOP_DIED"}
GUARDS.update(PSEUDO)


class CursorWatch:
    """C06: records, per side, the cursor-relevant actions of the real event manager in the vocabulary of
    CursorModel.v (CNew, CApplyAt e, CStore c, CWalk, CRestart, CLoseCursor, CReset); the extracted acceptor
    judges them (a stored cursor must never be ahead of the applied events unless storage records that a walk is due)."""

    def __init__(self):
        self.acts = {0: [], 1: []}
        self.known_latest = {0: 0, 1: 0}
        self.marker_seen = {0: False, 1: False}
        self.saves = 0
        self.fallbacks = 0

    def sync_latest(self, side, prov):
        n = prov._latest_cursor + 1
        while self.known_latest[side] < n:
            self.acts[side].append([0])
            self.known_latest[side] += 1

    def restart(self, side, lose_cursor):
        if lose_cursor:
            self.acts[side].append([5])
        self.acts[side].append([4])

    def attach(self, eng):
        watch = self
        st = eng.cs.state
        for side in (0, 1):
            em = eng.cs.emgrs[side]
            prov = eng.world.provs[side]
            orig_pe = em._process_event

            def mk(side, orig_pe, prov):
                def pe(event, from_walk=False):
                    idx = event.new_cursor if (event is not None and event.new_cursor is not None) else prov._cursor
                    r = orig_pe(event, from_walk=from_walk)
                    if not from_walk:
                        watch.sync_latest(side, prov)
                        watch.acts[side].append([1, idx + 1])
                    return r
                return pe
            em._process_event = mk(side, orig_pe, prov)
            orig_walk = em._do_walk_if_needed

            def mkw(side, orig_walk, em):
                def walk():
                    before = em.need_walk and bool(em._root_oid)
                    r = orig_walk()
                    if before and not em.need_walk:
                        watch.acts[side].append([3])
                        watch.marker_seen[side] = True
                    return r
                return walk
            em._do_walk_if_needed = mkw(side, orig_walk, em)
        orig_upd = st.storage_update_data

        def upd(tag, data):
            if tag and "_cursor" in tag:
                side = 0 if eng.cs.emgrs[0]._cursor_tag == tag else 1
                em = eng.cs.emgrs[side]
                prov = eng.world.provs[side]
                watch.saves += 1
                watch.sync_latest(side, prov)
                val = data + 1 if isinstance(data, int) else 0
                # 'walked' marker as STORAGE has it right now (read from the real storage, not from memory):
                # if it was dropped since we last looked, the engine performed a cursor reset
                marker = None
                try:
                    marker = st._storage.read_all(em._walk_tag) if (st._storage is not None and em._walk_tag) else None
                except Exception:
                    marker = None
                if watch.marker_seen.get(side) and not marker:
                    watch.acts[side].append([6])
                    watch.fallbacks += 1
                watch.marker_seen[side] = bool(marker)
                watch.acts[side].append([2, val])
            return orig_upd(tag, data)
        st.storage_update_data = upd

    def judge(self):
        global _CURSOR_PROC
        if _CURSOR_PROC is None:
            _CURSOR_PROC = fw.ModelProc("cursor")
        return _CURSOR_PROC.call([self.acts[0], self.acts[1]])


_CURSOR_PROC = None


def run_case(case, monitor, storage_factory=None, hooks=None, extra_rounds=6, keep_engine=False, oracles=()):
    """Execute one case on the real engine and have the Coq monitor judge the observed trace.

    Extra schedule actions: ["restart", mode] (mode: intact | cursor_removed | cursor_rejected),
    ["crash", kind, k] (kind: storage_before | provider_after; the process dies there, then a new engine is
    started over the surviving storage and providers), ["faults", plan] / ["faults_off"].
    oracles: "index" (C11 on every state), "storage" (C08 after every step; entries still in the dirty set are skipped),
    "storage_strict" (the same, entries in the dirty set compared too: nothing may be left uncommitted at a step boundary), "cursor" (C06)."""
    fl = E.Flavour.from_key(case["flavour"])
    E.install(case.get("hash_mult", 1))
    E.reset_serials()
    world = E.World(fl)
    tstore = None
    storage = None
    if storage_factory == "sqlite-file":
        tstore = E.TempStorage()
        storage = tstore.open()
    elif storage_factory:
        storage = storage_factory()
    res = RunResult()
    it = Interner()
    hooks = hooks or {}
    H = dict(eng=None)
    pseudo = []        # (observation index, pseudo code, detail)
    cursor_watch = CursorWatch() if "cursor" in oracles else None
    index_violations = compare_storage = None
    if "index" in oracles:
        from .state_oracle import index_violations
    if "storage" in oracles or "storage_strict" in oracles:
        from .storage_oracle import compare_storage_with_memory as compare_storage
    prev = [None, None]
    obs = []

    def new_engine():
        eng = E.Engine(world, storage=storage, resolver=hooks.get("resolver"), smart=hooks.get("smart", False),
                       translate=hooks.get("translate"))
        eng.on_action = on_action
        if H.get("fault_plan"):
            eng.fault_plan = H["fault_plan"]
        if cursor_watch:
            cursor_watch.attach(eng)
        H["eng"] = eng
        return eng

    def emit(ev, readable):
        cur = [world.snapshot(0), world.snapshot(1)]
        w = [0 if cur[s] == prev[s] else it.tree(cur[s]) for s in (0, 1)]
        prev[0], prev[1] = cur
        obs.append([ev, w[0], w[1]])
        res.events.append(readable)

    def on_action(rec):
        if not H.get("recording"):
            return
        emit([1, rec["side"], [it.path(t) for t in rec["targets"]]],
             ("eng", rec["side"], rec["call"], [a if not isinstance(a, bytes) else a[:20] for a in rec["args"]],
              rec.get("error")))

    def check_oracles():
        eng = H["eng"]
        if index_violations is not None:
            bad = [b for b in index_violations(eng.cs.state) if not b.startswith("iv-extra")]
            if bad:
                pseudo.append((len(obs), 101, bad[:3]))
        if compare_storage is not None and storage is not None:
            bad = compare_storage(eng.cs.state, storage, eng.cs.state._tag, skip_dirty="storage_strict" not in oracles)
            if bad:
                pseudo.append((len(obs), 102, [repr(b)[:200] for b in bad[:3]]))


    def step(kind, side=None):
        eng = H["eng"]
        if kind == "intake":
            eng.intake(side)
        else:
            eng.sync()
        emit([2], (kind, side))
        if oracles:
            check_oracles()

    def drain(bound):
        if H.get("fresh_engine"):
            # a (re)started engine has not taken a single step yet: its `busy` reads the provider's change feed from
            # the new session's position, not from the stored cursor, until the first intake step — "reports nothing
            # left to do" only means something once every service loop has run once
            H["fresh_engine"] = False
            step("intake", 0)
            step("intake", 1)
            step("sync")
        for i in range(bound):
            if not H["eng"].busy():
                emit([3], ("quiet",))
                res.rounds.append(i)
                return True
            step("intake", 0)
            step("intake", 1)
            step("sync")
        if not H["eng"].busy():
            emit([3], ("quiet",))
            res.rounds.append(bound)
            return True
        return False

    def restart(mode):
        nonlocal storage
        eng = H["eng"]
        eng.stop()
        if storage is not None and tstore is not None:
            if mode in ("cursor_removed", "cursor_rejected"):
                allrows = storage.read_all()
                for tag, rows in allrows.items():
                    if "_cursor" in tag:
                        for eid in rows:
                            if mode == "cursor_removed":
                                storage.delete(tag, eid)
                            else:
                                storage.update(tag, "rejected-cursor", eid)
            storage.close()
            storage = tstore.open()
        if cursor_watch:
            for sd in (0, 1):
                cursor_watch.restart(sd, mode in ("cursor_removed", "cursor_rejected"))
        new_session()
        new_engine()
        H["fresh_engine"] = True
        res.extra["restarts"] = res.extra.get("restarts", 0) + 1

    def new_session():
        """a restarted process talks to the providers through a NEW session: the provider-side read position of the
        change feed starts at 'latest' (what the project's own restart tests emulate with current_cursor = None);
        only a cursor the engine stored itself can take it back to where the old process stopped"""
        for prov in world.provs:
            try:
                prov.current_cursor = None
            except Exception:
                pass

    def crash_recover():
        nonlocal storage
        H["eng"].kill()
        if storage is not None and tstore is not None:
            storage.close()
            storage = tstore.open()
        if cursor_watch:
            for sd in (0, 1):
                cursor_watch.restart(sd, False)
        if hooks.get("on_crash"):
            # C07: the surviving storage (re-opened from the file) and providers, before any new engine exists
            hooks["on_crash"](world, storage, res)
        new_session()
        new_engine()
        H["fresh_engine"] = True
        if hooks.get("after_restart"):
            hooks["after_restart"](H["eng"], world)

    try:
        eng = new_engine()
        # ---- base tree: applied on side 0 (and anything in case['base_other'] on side 1) and synchronised
        for op in case.get("base", []):
            world.user(0, op)
        for op in case.get("base_other", []):
            world.user(1, op)
        r = eng.drain(400)
        if r is None:
            res.stuck = True
            res.verdict = [0, 11]
            res.extra["where"] = "base tree did not synchronise"
            return res
        if hooks.get("after_base"):
            hooks["after_base"](eng, world)
        eng.trace.clear()
        H["recording"] = True
        prev[0], prev[1] = world.snapshot(0), world.snapshot(1)
        init = [it.tree(prev[0]), it.tree(prev[1])]
        n_user = 0
        crashed = False
        for act in case["schedule"]:
            k = act[0]
            try:
                if k == "user":
                    side, op = act[1], act[2]
                    world.user(side, op)
                    n_user += 1
                    emit([0, side, it.op(op)], ("user", side, op[0], op[1:]))
                elif k == "intake":
                    step("intake", act[1])
                elif k == "sync":
                    step("sync")
                elif k == "drain":
                    if not drain(400):
                        res.stuck = True
                        break
                elif k == "restart":
                    restart(act[1])
                elif k == "stop":
                    H["eng"].stop()
                elif k == "start":
                    restart(act[1])
                elif k == "crash":
                    H["eng"].crash_at = (act[1], (H["eng"].storage_writes if act[1] == "storage_before" else H["eng"].provider_writes) + act[2])
                elif k == "faults":
                    H["fault_plan"] = hooks["make_fault_plan"](act[1], H)
                    H["eng"].fault_plan = H["fault_plan"]
                elif k == "faults_off":
                    H["fault_plan"] = None
                    H["eng"].fault_plan = None
                    if hooks.get("on_faults_off"):
                        hooks["on_faults_off"](H["eng"], world)
                elif k == "hook":
                    hooks[act[1]](H["eng"], world, act[2:] if len(act) > 2 else [])
                else:
                    raise ValueError(k)
            except E.Token:
                # the process died inside that action: whatever reached the providers is observed as is
                crashed = True
                res.extra["crashed_at"] = list(H["eng"].crash_at)
                if H["eng"].trace and "result" not in H["eng"].trace[-1] and "error" not in H["eng"].trace[-1]:
                    pass
                emit([2], ("crash",))
                crash_recover()
                # C07 witnesses (additive): user operations made between the process death and the restart
                for side_, op_ in case.get("after_crash_user", []):
                    world.user(side_, op_)
                    n_user += 1
                    emit([0, side_, it.op(op_)], ("user", side_, op_[0], op_[1:]))
                # C07 (additive): engine steps of the new process before the fair rounds start (the order in which the
                # restarted managers first get to run is not fixed)
                for a_ in case.get("after_crash_steps", []):
                    try:
                        step(a_[0], a_[1] if len(a_) > 1 else None)
                    except E.Token:
                        pass
                if not case.get("resume_after_crash"):
                    break
                # C07 (additive): recover to quiescence first, then the rest of the schedule continues on the new engine
                if not drain(400):
                    res.stuck = True
                    break
        if not res.stuck:
            try:
                if not drain(400):
                    res.stuck = True
            except E.Token:
                crashed = True
                res.extra["crashed_at"] = list(H["eng"].crash_at)
                emit([2], ("crash",))
                crash_recover()
                if not drain(400):
                    res.stuck = True
        if not res.stuck:
            # no echo: further engine rounds after quiet must not write
            for _ in range(extra_rounds):
                step("intake", 0)
                step("intake", 1)
                step("sync")
            if H["eng"].busy():
                drain(50)
            else:
                emit([3], ("quiet",))
        eng = H["eng"]
        mode = case.get("mode", {})
        bound = case.get("step_bound") or 3 * (STEP_BOUND_BASE + STEP_BOUND_PER_OP * max(1, n_user))
        cfg = [it.path(fl.roots[0]), it.path(fl.roots[1]),
               [] if mode.get("origin") is None else [mode["origin"]],
               1 if mode.get("check_spec") else 0, 1 if mode.get("no_conflicted") else 0,
               it.conflicted(case.get("ignore_names", ())), bound, 1 if mode.get("cov_every_step") else 0,
               it.declined(case.get("decline"))]
        res.request = [0, cfg, init[0], init[1], obs]
        res.verdict = monitor.call(res.request)
        if res.stuck and res.verdict == []:
            res.verdict = [len(obs), 11]
        if pseudo and (res.verdict == [] or pseudo[0][0] <= res.verdict[0]):
            res.verdict = [pseudo[0][0], pseudo[0][1]]
            res.extra["oracle_detail"] = pseudo[0][2]
        res.final_views = [world.view(0), world.view(1)]
        res.loop_errors = list(eng.loop_errors)
        res.engine_calls = len(eng.trace)
        res.extra["notifications"] = list(eng.notifications)
        res.extra["resolver_calls"] = list(eng.resolver_calls)
        res.extra["crashed"] = crashed
        res.extra["storage_writes"] = eng.storage_writes
        res.extra["provider_writes"] = eng.provider_writes
        if cursor_watch:
            res.extra["cursor_saves"] = cursor_watch.saves
            res.extra["cursor_fallbacks"] = cursor_watch.fallbacks
            cv = cursor_watch.judge()
            if cv != []:
                res.extra["oracle_detail"] = dict(side=cv[0], action_index=cv[1], actions=cursor_watch.acts[cv[0]][max(0, cv[1] - 6):cv[1] + 1])
                if res.verdict == []:
                    res.verdict = [len(obs), 104]
        if keep_engine:
            res.extra["engine"] = eng
            res.extra["world"] = world
        return res
    finally:
        if not keep_engine:
            try:
                H["eng"].stop()
            except Exception:
                pass
            if storage is not None and hasattr(storage, "close"):
                try:
                    storage.close()
                except Exception:
                    pass
            if tstore is not None:
                tstore.close()


def describe(res):
    if res.verdict == []:
        return "accepted"
    i, code = res.verdict
    ev = res.events[i] if i < len(res.events) else "(end of run: engine still busy)"
    extra = (" detail %r" % (res.extra.get("oracle_detail"),)) if code > 100 else ""
    return "guard %s fails at observation %d %r%s" % (GUARDS.get(code, code), i, ev, extra)


# ------------------------------------------------------------------ generators (clean domain, DESIGN §4.3)
class Gen:
    """Seeded generator of histories in the claimed-clean domain:
       fresh paths between drains, folder rename/move/delete bracketed by drains."""

    def __init__(self, rng, flavour, sides, n_ops, owner=None):
        self.rng = rng
        self.fl = flavour
        self.sides = sides              # sides on which users act
        self.n_ops = n_ops
        self.counter = 0
        # per-side python model of the relative tree {relpath: 'D' | 'F'} (both sides see the same base)
        self.tree = {}
        self.touched = set()            # relative paths occupied or freed since the last drain
        self.owner = owner or {}        # top-level relpath -> side that may touch it (two-sided disjoint runs)
        self.owned = owner is not None
        self.sched = []
        self.base = []
        self.allow_empty = True

    def fresh(self, kind):
        self.counter += 1
        stem = self.rng.choice(["f", "doc", "x y", "N", "été", "a.b"])
        return "%s%d%s" % (stem, self.counter, "" if kind == "D" else self.rng.choice(["", ".txt", ".d"]))

    def content(self):
        self.counter += 1
        n = self.rng.choice([0, 3, 3, 8, 40, 1500, 3000]) if self.rng.random() < 0.3 else 6
        body = ("c%d-" % self.counter).encode()
        if n == 0:
            # the empty file is not a unique token: only where no two-sided conflict can involve it
            return b"" if (self.allow_empty and self.rng.random() < 0.5) else body
        return (body * (n // len(body) + 1))[:max(n, len(body))]

    def abs(self, side, rel):
        return self.fl.roots[side].rstrip("/") + rel

    def dirs(self, side=None):
        own = [p for p, k in self.tree.items() if k == "D" and self.may(side, p)]
        if self.owned and side is not None:
            return own or [""]
        return [""] + own

    def files(self, side=None):
        return [p for p, k in self.tree.items() if k == "F" and self.may(side, p)]

    @staticmethod
    def top(rel):
        return "/" + rel.strip("/").split("/")[0] if rel.strip("/") else ""

    def may(self, side, rel):
        if side is None or not self.owned:
            return True
        return self.owner.get(self.top(rel)) == side

    def claim(self, side, rel):
        if self.owned:
            self.owner.setdefault(self.top(rel), side)

    def make_base(self, n):
        for _ in range(n):
            d = self.rng.choice(self.dirs())
            if d.count("/") >= 2:
                d = ""
            if self.rng.random() < 0.35:
                rel = d + "/" + self.fresh("D")
                self.tree[rel] = "D"
                self.base.append(["mkdir", self.abs(0, rel)])
            else:
                rel = d + "/" + self.fresh("F")
                self.tree[rel] = "F"
                self.base.append(["create", self.abs(0, rel), self.content()])
        return self.base

    def engine_noise(self, p=0.5):
        while self.rng.random() < p:
            r = self.rng.random()
            if r < 0.33:
                self.sched.append(["intake", 0])
            elif r < 0.66:
                self.sched.append(["intake", 1])
            else:
                self.sched.append(["sync"])

    def drain(self):
        self.sched.append(["drain"])
        self.touched = set()

    def has_kids(self, rel):
        return any(p.startswith(rel + "/") for p in self.tree)

    def one_op(self, side):
        r = self.rng.random()
        t = self.tree
        if r < 0.28:
            d = self.rng.choice(self.dirs(side))
            rel = d + "/" + self.fresh("F")
            t[rel] = "F"
            self.claim(side, rel)
            self.touched.add(rel)
            self.sched.append(["user", side, ["create", self.abs(side, rel), self.content()]])
        elif r < 0.45 and self.files(side):
            rel = self.rng.choice(self.files(side))
            self.sched.append(["user", side, ["write", self.abs(side, rel), self.content()]])
        elif r < 0.57:
            d = self.rng.choice(self.dirs(side))
            if d.count("/") >= 3:
                d = ""
            rel = d + "/" + self.fresh("D")
            t[rel] = "D"
            self.claim(side, rel)
            self.touched.add(rel)
            self.sched.append(["user", side, ["mkdir", self.abs(side, rel)]])
        elif r < 0.72 and self.files(side):
            src = self.rng.choice(self.files(side))
            d = self.rng.choice(self.dirs(side))
            dst = d + "/" + self.fresh("F")
            del t[src]
            t[dst] = "F"
            self.claim(side, dst)
            self.touched.update([src, dst])
            self.sched.append(["user", side, ["rename", self.abs(side, src), self.abs(side, dst)]])
        elif r < 0.84 and self.files(side):
            rel = self.rng.choice(self.files(side))
            del t[rel]
            self.touched.add(rel)
            self.sched.append(["user", side, ["delete", self.abs(side, rel)]])
        elif r < 0.93:
            ds = [d for d in self.dirs(side) if d]
            if not ds:
                return self.one_op_simple(side)
            src = self.rng.choice(ds)
            cands = [d for d in self.dirs(side) if not (d + "/").startswith(src + "/") and d.count("/") < 2]
            d = self.rng.choice(cands or [""])
            dst = d + "/" + self.fresh("D")
            # folder rename/move: bracketed by drains
            self.drain()
            for p in list(t):
                if p == src or p.startswith(src + "/"):
                    t[dst + p[len(src):]] = t.pop(p)
            self.claim(side, dst)
            self.sched.append(["user", side, ["rename", self.abs(side, src), self.abs(side, dst)]])
            self.drain()
        else:
            ds = [d for d in self.dirs(side) if d and not self.has_kids(d)]
            if not ds:
                return self.one_op_simple(side)
            rel = self.rng.choice(ds)
            self.drain()
            del t[rel]
            self.sched.append(["user", side, ["delete", self.abs(side, rel)]])
            self.drain()

    def offline_op(self, side, creations_only=False):
        """a file-level operation that needs no drain (used while the engine is stopped)"""
        r = self.rng.random()
        t = self.tree
        if r < 0.4 or not self.files(side):
            return self.one_op_simple(side)
        if r < 0.65:
            rel = self.rng.choice(self.files(side))
            self.sched.append(["user", side, ["write", self.abs(side, rel), self.content()]])
        elif r < 0.75:
            d = self.rng.choice(self.dirs(side))
            rel = d + "/" + self.fresh("D")
            t[rel] = "D"
            self.claim(side, rel)
            self.sched.append(["user", side, ["mkdir", self.abs(side, rel)]])
        elif creations_only:
            return self.one_op_simple(side)
        elif r < 0.9:
            src = self.rng.choice(self.files(side))
            d = self.rng.choice(self.dirs(side))
            dst = d + "/" + self.fresh("F")
            del t[src]
            t[dst] = "F"
            self.claim(side, dst)
            self.sched.append(["user", side, ["rename", self.abs(side, src), self.abs(side, dst)]])
        else:
            rel = self.rng.choice(self.files(side))
            del t[rel]
            self.sched.append(["user", side, ["delete", self.abs(side, rel)]])

    def one_op_simple(self, side):
        d = self.rng.choice(self.dirs(side))
        rel = d + "/" + self.fresh("F")
        self.tree[rel] = "F"
        self.claim(side, rel)
        self.touched.add(rel)
        self.sched.append(["user", side, ["create", self.abs(side, rel), self.content()]])

    def history(self):
        for _ in range(self.n_ops):
            side = self.rng.choice(self.sides)
            self.one_op(side)
            self.engine_noise()
            if self.rng.random() < 0.12:
                self.drain()
        return self.sched


def gen_one_sided(rng, flavours=None):
    """C03 family: users act on one side only; any flavour whose acting side has stable ids."""
    side = rng.choice([0, 1])
    cands = [f for f in (flavours or E.ALL_FLAVOURS) if not f.oip[side]]
    fl = rng.choice(cands)
    g = Gen(rng, fl, [side], rng.randint(1, 12))
    base = g.make_base(rng.randint(0, 6))
    sched = g.history()
    return dict(flavour=fl.key(), base=base, schedule=sched, hash_mult=rng.choice([1, 3, 7, 11, 2654435761]),
                mode=dict(origin=side, check_spec=True, no_conflicted=True, cov_every_step=False))


def gen_disjoint(rng, flavours=None):
    """C04 family: both sides change, touching different top-level objects; both sides id-stable."""
    cands = [f for f in (flavours or E.ALL_FLAVOURS) if not f.oip[0] and not f.oip[1]]
    fl = rng.choice(cands)
    g = Gen(rng, fl, [0, 1], rng.randint(2, 12), owner={})
    # base: a few top-level folders, each owned by one side, with some content
    for i in range(rng.randint(2, 4)):
        rel = "/" + g.fresh("D")
        g.tree[rel] = "D"
        g.base.append(["mkdir", g.abs(0, rel)])
        g.owner[rel] = i % 2
        for _ in range(rng.randint(0, 3)):
            sub = rel + "/" + g.fresh("F")
            g.tree[sub] = "F"
            g.base.append(["create", g.abs(0, sub), g.content()])
    sched = g.history()
    return dict(flavour=fl.key(), base=g.base, schedule=sched, hash_mult=rng.choice([1, 3, 7, 11, 2654435761]),
                mode=dict(origin=None, check_spec=True, no_conflicted=True, cov_every_step=False))
