"""C20: stepwise correspondence of the GATE model (SmartModel.v part (a)) with the real code on the same entry tables.

A table case is built inside a REAL SmartCloudSync (real SmartSyncState, SmartSyncManager, two MockProviders with
real objects where the recipe says the object is live), the real state is abstracted into the model's input, ONE real
operation runs, the real state is abstracted again and compared with the model's output:
  filter     SmartSyncState._changeset (the pending set offered to the sync step; auto-matched entries get requested)
             then SmartSyncManager.pre_sync on every entry (which offered entries are finished without a transfer)
  request    SmartCloudSync.smart_sync_oid / smart_sync_path with _sync_one_entry replaced by a recorder
             (order = parents first; state = request registered, stale local side cleared, remote side changed)
  unrequest  SmartCloudSync.smart_unsync_oid / smart_unsync_path, same recorder; local provider deletes observed
  list       SmartCloudSync.smart_listdir_path vs g_listdir on (local listing, remote entries of the folder)
The Python predicates at the end mirror the Coq theorems about the gate (search oracle on the real behaviour).
"""
import io

from . import engine as E
from . import enginecheck as EC
from .families_c20 import _new_engine

LOCAL, REMOTE = 0, 1
EX_NAMES = ["UNKNOWN", "EXISTS", "TRASHED", "LIKELY_TRASHED", "MISSING"]


# ------------------------------------------------------------------ recipes
def gen_table(rng):
    """a random table recipe + one operation"""
    auto = rng.choice([["none"], ["ext", ".txt"], ["dir", "/auto"]])
    dirs = ["", "/d1", "/d1/e2", "/auto", "/d3"]
    n = rng.randint(1, 8)
    ents = []
    used = set()
    # folders first (so that files can live in them); each folder of the pool may or may not be an entry
    for d in dirs[1:]:
        if rng.random() < 0.6:
            ents.append(_ent(rng, d, True))
            used.add(d)
    for i in range(n):
        d = rng.choice(dirs)
        rel = "%s/f%d%s" % (d, i, rng.choice(["", ".txt", ".txt", ".d"]))
        if rel in used:
            continue
        used.add(rel)
        ents.append(_ent(rng, rel, False))
    if rng.random() < 0.15 and ents:
        # a second entry at the path of an existing one (the older one discarded: delete + re-create)
        src = rng.choice(ents)
        dup = _ent(rng, src["rel"], src["isdir"])
        src["ignored"] = "discarded"
        ents.append(dup)
    kind = rng.random()
    files = [i for i, e in enumerate(ents)]
    if kind < 0.4 or not files:
        op = ["filter"]
    elif kind < 0.6:
        op = ["request", rng.choice(files), rng.choice(["oid", "path_l", "path_r"])]
    elif kind < 0.8:
        cands = [i for i in files if ents[i]["in_req"]] or files
        op = ["unrequest", rng.choice(cands if rng.random() < 0.8 else files), rng.choice(["oid", "path_l", "path_r"])]
    else:
        op = ["list", rng.choice([d for d in dirs if d == "" or d in used] or [""])]
    return dict(kind="table", auto=auto, ents=ents, op=op)


def _ent(rng, rel, isdir):
    lobj = rng.choice([None, None, "live", "live", "dead"])
    e = dict(rel=rel, isdir=isdir,
             robj=rng.choice(["live", "live", "none"]),
             lobj=lobj,
             lstale=rng.random() < 0.3,                      # the local hash in the table is not the provider's
             lchanged=rng.random() < 0.35 and lobj is not None,
             lexists=rng.choice(["EXISTS", "EXISTS", "UNKNOWN", "TRASHED", "MISSING", "LIKELY_TRASHED"]) if lobj else "UNKNOWN",
             lsync_hash=rng.choice(["same", "same", "other", None]) if lobj else None,
             # (a remote-only entry may carry a stale local sync_path: never produced by clear(), but the gate must not care)
             lsync_path=rng.choice(["same", "same", "other", None]) if lobj else rng.choice([None, None, None, "other"]),
             rchanged=rng.random() < 0.6,
             rexists=rng.choice(["EXISTS", "EXISTS", "EXISTS", "UNKNOWN", "TRASHED", "MISSING"]),
             rsync_hash=rng.choice(["same", None]),
             rsync_path=rng.choice(["same", None]),
             rsize=rng.choice([0, 3]), rmtime=rng.choice([0, 5, 5]),
             latest=rng.random() < 0.6,
             ignored=rng.choice(["none"] * 8 + ["discarded", "conflict"]),
             in_cs=rng.random() < 0.75, in_req=rng.random() < 0.3, in_exc=False)
    if not e["in_req"] and rng.random() < 0.25:
        e["in_exc"] = True
    if rng.random() < 0.04:
        e["in_req"] = e["in_exc"] = True           # never produced by the code; the model must still agree
    if not isdir and rng.random() < 0.06:
        e["rnopath"] = True                        # the event carried no path and nothing has filled it in yet (S-1, repaired)
    return e


# ------------------------------------------------------------------ the real table
class RealTable:
    def __init__(self, case):
        from cloudsync.types import FILE, DIRECTORY
        from cloudsync.sync.state import Exists, IgnoreReason
        self.case = case
        fl = E.Flavour()
        E.install()
        E.reset_serials()
        self.world = world = E.World(fl)
        self.eng = eng = _new_engine(world)
        self.cs = cs = eng.cs
        self.st = st = cs.state
        self.it = EC.Interner()
        self.oids = {}
        self.hashes = {}
        self.ents = []
        self.DIRECTORY = DIRECTORY
        self.Exists = Exists
        self.sync_calls = []
        pred = _auto_fn(case["auto"])
        if case["auto"][0] != "none":
            # several registered predicates mean "any of them": the case's predicate alone, before, or after a
            # predicate that never matches
            k = len(case["ents"]) % 3
            if k == 1:
                cs.register_auto_sync_callback(lambda p: False)
            cs.register_auto_sync_callback(lambda p: pred(p))
            if k == 2:
                cs.register_auto_sync_callback(lambda p: False)
        for i, r in enumerate(case["ents"]):
            rabs, labs = "/remote" + r["rel"], "/local" + r["rel"]
            otype = DIRECTORY if r["isdir"] else FILE
            content = ("c%d" % i).encode()
            roid, rhash = "r%d" % i, b"rh%d" % i
            if r["robj"] == "live" and world.raw[1]["info_path"](rabs) is None:
                roid, rhash = self._make(1, rabs, r["isdir"], content)
            st.update(REMOTE, otype, roid, path=None if r.get("rnopath") else rabs, hash=rhash, exists=True)
            ent = st.lookup_oid(REMOTE, roid)
            lhash = None
            if r["lobj"]:
                if r["lobj"] == "live" and world.raw[0]["info_path"](labs) is None:
                    loid, lhash = self._make(0, labs, r["isdir"], content)
                else:
                    loid, lhash = "l%d" % i, b"lh%d" % i
                    r = dict(r, lobj="dead")
                ent[LOCAL].oid = loid
                ent[LOCAL].path = labs
                if r["lstale"] and not r["isdir"]:
                    lhash = b"stale%d" % i
            self._set_side(ent[LOCAL], r["lchanged"], r["lexists"], lhash, r["lsync_hash"], r["lsync_path"], labs, 0, 0, i)
            self._set_side(ent[REMOTE], r["rchanged"], r["rexists"], rhash, r["rsync_hash"], r["rsync_path"], rabs,
                           r["rsize"], r["rmtime"], i)
            ent[LOCAL]._otype = otype
            mx = max(ent[LOCAL]._changed or 0, ent[REMOTE]._changed or 0)
            ent[LOCAL]._last_gotten = ent[REMOTE]._last_gotten = mx if r["latest"] else 0
            ent._ignored = {"none": IgnoreReason.NONE, "discarded": IgnoreReason.DISCARDED, "conflict": IgnoreReason.CONFLICT}[r["ignored"]]
            self.ents.append(ent)
        st._changeset_storage = set(e for e, r in zip(self.ents, case["ents"]) if r["in_cs"])
        st.requestset = set(e for e, r in zip(self.ents, case["ents"]) if r["in_req"])
        st.excludeset = set(e for e, r in zip(self.ents, case["ents"]) if r["in_exc"])
        eng.trace.clear()
        self.key = {id(e): i for i, e in enumerate(self.ents)}
        cs._sync_one_entry = self._record_sync

    def _record_sync(self, ent):
        self.sync_calls.append(self.key.get(id(ent), 999))
        return True

    def _make(self, side, path, isdir, content):
        p = self.world.provs[side]
        parent = p.dirname(path)
        if self.world.raw[side]["info_path"](parent) is None:
            p.mkdirs(parent)
        if isdir:
            oid = self.world.raw[side]["mkdir"](path)
            return oid, None
        info = self.world.raw[side]["create"](path, io.BytesIO(content))
        return info.oid, info.hash

    def _set_side(self, s, changed, exists, h, sync_hash, sync_path, path, size, mtime, i):
        s._changed = (10.0 + i) if changed else 0
        s._exists = getattr(self.Exists, exists)
        s._hash = h
        s._sync_hash = {"same": h, "other": b"old%d" % i, None: None}[sync_hash]
        s._sync_path = {"same": path if s._path else None, "other": path + ".moved", None: None}[sync_path]
        s._size = size or None
        s._mtime = float(mtime) if mtime else None

    # ---- abstraction of the real state into the model's vocabulary
    def oid(self, o):
        if o not in self.oids:
            self.oids[o] = len(self.oids) + 1
        return self.oids[o]

    def hash(self, h):
        if h not in self.hashes:
            self.hashes[h] = len(self.hashes) + 1
        return self.hashes[h]

    def side(self, s, remote):
        ex = EX_NAMES.index(s.exists.name) if s.exists.name in EX_NAMES else 5
        opt = lambda f, v: [] if v is None else [f(v)]
        return [opt(self.oid, s.oid), opt(self.it.path, s.path), 1 if s.changed else 0, ex,
                opt(self.hash, s.hash), opt(self.hash, s.sync_hash), opt(self.it.path, s.sync_path),
                (1 if s.size else 0) if remote else 0, (1 if s.mtime else 0) if remote else 0]

    def ent(self, i):
        e = self.ents[i]
        # is_latest() <=> max(changed) <= _last_gotten on both sides <=> each side's stamp is "fresh"
        seen = min(e[LOCAL]._last_gotten, e[REMOTE]._last_gotten)
        lfresh = (e[LOCAL].changed or 0) <= seen
        rfresh = (e[REMOTE].changed or 0) <= seen
        assert (lfresh and rfresh) == bool(e.is_latest())
        return [i, self.side(e[LOCAL], False), self.side(e[REMOTE], True), 1 if e[REMOTE].otype == self.DIRECTORY else 0,
                1 if lfresh else 0, 1 if rfresh else 0, 1 if e.is_discarded else 0, 1 if e.is_conflicted else 0]

    def state(self):
        st = self.st
        keys = lambda s: sorted(self.key[id(e)] for e in s if id(e) in self.key)
        return [[self.ent(i) for i in range(len(self.ents))], keys(st._changeset_storage), keys(st.requestset), keys(st.excludeset)]

    def world_sx(self):
        lp, lo, lh, ro = [], [], [], []
        prov = self.world.provs[0]
        for o in prov._mock_fs.fs_objects():
            if o.exists and o.path is not None:
                lp.append(self.it.path(o.path))
                lo.append(self.oid(o.oid))
                if o.type == o.FILE:
                    lh.append([self.oid(o.oid), self.hash(o.hash())])
        rprov = self.world.provs[1]
        for o in rprov._mock_fs.fs_objects():
            if o.exists and o.path is not None:
                info = rprov.info_oid(o.oid)
                ro.append([self.oid(o.oid), self.it.path(info.path), [] if info.hash is None else [self.hash(info.hash)],
                           1 if o.type == o.DIR else 0, 1 if info.size else 0, 1 if info.mtime else 0])
        return [lp, lo, lh, ro]

    def auto_sx(self):
        a = self.case["auto"]
        if a[0] == "none":
            return [0]
        if a[0] == "ext":
            return [1, sorted(i for s, i in self.it.names.items() if s.endswith(a[1]))]
        return [2, self.it.path("/remote" + a[1])]

    def close(self):
        try:
            self.eng.stop()
        except Exception:
            pass


def _auto_fn(auto):
    """the callback on ABSOLUTE remote paths (what the engine passes)"""
    if auto[0] == "none":
        return lambda p: False
    if auto[0] == "ext":
        return lambda p: p.endswith(auto[1])
    return lambda p: p.startswith("/remote" + auto[1] + "/")


def canon_state(sx):
    ents, cs, rq, ec = sx
    return [ents, sorted(cs), sorted(rq), sorted(ec)]


# ------------------------------------------------------------------ one case: real vs model
def run_table(case, model):
    """-> (ok, what, detail, stats)"""
    t = RealTable(case)
    stats = dict(op=case["op"][0])
    try:
        before = t.state()
        w = t.world_sx()
        op = case["op"]
        if op[0] == "filter":
            real_out = sorted(t.key[id(e)] for e in t.st._changeset if id(e) in t.key)
            after = t.state()
            auto = t.auto_sx()          # after the run: every name is interned
            m_out, m_state, m_pre, m_reach = model.call([0, auto, w, before])
            stats["offered"] = len(real_out)
            stats["auto_requested"] = len(after[2]) - len(before[2])
            if sorted(m_out) != real_out:
                return False, "filter: offered set differs", dict(real=real_out, model=sorted(m_out)), stats
            if canon_state(m_state) != canon_state(after):
                return False, "filter: state after differs", dict(real=canon_state(after), model=canon_state(m_state)), stats
            # the gate, entry by entry, on the state the filter left
            real_pre, reach = [], []
            law = None
            for i, e in enumerate(t.ents):
                remote_only_file = (e[LOCAL].oid is None and e[REMOTE].otype != t.DIRECTORY)
                requested = e in t.st.requestset
                matched = bool(e[REMOTE].path) and _auto_fn(case["auto"])(e[REMOTE].path)
                fin = bool(t.cs.smgr.pre_sync(e))
                real_pre.append([i, 1 if fin else 0])
                if i in real_out and not fin:
                    reach.append(i)
                    if remote_only_file and not requested and not matched:
                        law = ("unrequested_never_downloaded", i)      # the theorem's statement fails on the real code
            stats["reaches_sync"] = len(reach)
            stats["finished_without_transfer"] = sum(1 for i, f in real_pre if f and i in real_out)
            if law:
                return False, "law %s fails on the real gate" % law[0], dict(entry=law[1]), stats
            if sorted(m_pre) != sorted(real_pre):
                return False, "pre_sync differs", dict(real=real_pre, model=m_pre), stats
            # reaches_sync of the model is about the ORIGINAL state (filter + gate); same thing on the real side
            if sorted(m_reach) != sorted(reach):
                return False, "reaches-sync set differs", dict(real=reach, model=m_reach), stats
            return True, None, None, stats
        if op[0] in ("request", "unrequest"):
            i, how = op[1], op[2]
            e = t.ents[i]
            r = case["ents"][i]
            raised = None
            try:
                if op[0] == "request":
                    if how == "oid":
                        t.cs.smart_sync_oid(e[REMOTE].oid)
                    else:
                        side = 0 if how == "path_l" else 1
                        t.cs.smart_sync_path(("/local" if side == 0 else "/remote") + r["rel"], side)
                else:
                    if how == "oid":
                        t.cs.smart_unsync_oid(e[REMOTE].oid)
                    else:
                        side = 0 if how == "path_l" else 1
                        t.cs.smart_unsync_path(("/local" if side == 0 else "/remote") + r["rel"], side)
            except Exception as ex:
                raised = type(ex).__name__
            after = t.state()
            stats["raised"] = raised
            # by path the real call addresses every non-discarded entry at the path; the model is per entry
            at_path = [k for k, x in enumerate(t.ents) if case["ents"][k]["rel"] == r["rel"]
                       and case["ents"][k]["ignored"] == "none"]
            if how != "oid" and (at_path != [i] or r.get("rnopath")):
                stats["skipped"] = "path addresses %d entries" % len(at_path)
                return True, None, None, stats
            if op[0] == "request":
                m_state, m_plan = model.call([2, w, before, i, 1 if how == "oid" else 0, 0])
                live_remote = e[REMOTE].oid is not None and t.world.provs[1].exists_oid(e[REMOTE].oid)
                if how == "oid" and live_remote and raised is not None:
                    return False, ("law request_by_id_never_raises fails on the real code: smart_sync_oid of an object the remote "
                                   "provider has raised %s" % raised), dict(entry=i), stats
                # the laws on the real answers first (a failing input of a law is a counterexample, not just a difference)
                is_dir = e[REMOTE].otype == t.DIRECTORY
                was_req, was_exc = case["ents"][i]["in_req"], case["ents"][i]["in_exc"]
                if is_dir:
                    if (e in t.st.requestset) != was_req or (e in t.st.excludeset) != was_exc:
                        return False, "law request_of_folder_registers_nothing fails on the real code", dict(entry=i), stats
                elif e not in t.st.requestset or e in t.st.excludeset:
                    return False, "law request_registers fails on the real code", dict(entry=i), stats
                if m_plan == []:
                    if raised != "AttributeError":
                        return False, "request: model says the call raises, real: %r" % raised, None, stats
                else:
                    if raised is not None:
                        return False, "request raised %s, model: plan %r" % (raised, m_plan), None, stats
                    if m_plan[0] != t.sync_calls:
                        return False, "request: order of sync calls differs", dict(real=t.sync_calls, model=m_plan[0]), stats
                    stats["parents_first"] = len(t.sync_calls) - 1
                if canon_state(m_state) != canon_state(after):
                    return False, "request: state after differs", dict(real=canon_state(after), model=canon_state(m_state)), stats
                return True, None, None, stats
            m_state, m_acts = model.call([5, w, before, i, 0 if how == "oid" else 1])
            real_acts = [[0, k] for k in t.sync_calls]
            bad_remote = [rec for rec in t.eng.trace if rec["side"] == 1]
            for rec in t.eng.trace:
                if rec["side"] == 0 and rec["call"] == "delete" and "error" not in rec:
                    real_acts.append([1, t.it.path(rec["targets"][0])])
            stats["pushed"] = len(t.sync_calls)
            stats["local_deletes"] = len(real_acts) - len(t.sync_calls)
            if bad_remote:
                return False, "law unrequest_never_deletes_remote: un-request touched the remote provider", dict(calls=bad_remote), stats
            if m_acts != real_acts:
                return False, "unrequest: actions differ", dict(real=real_acts, model=m_acts), stats
            if canon_state(m_state) != canon_state(after):
                return False, "unrequest: state after differs", dict(real=canon_state(after), model=canon_state(m_state)), stats
            return True, None, None, stats
        if op[0] == "list":
            d = op[1]
            from cloudsync.types import DIRECTORY
            labs, rabs = "/local" + d if d else "/local", "/remote" + d if d else "/remote"
            locals_ = []
            try:
                for x in t.world.provs[0].listdir_path(labs):
                    locals_.append([t.it.name(x.name), 1 if x.otype == DIRECTORY else 0, 1 if x.size else 0, 1 if x.mtime else 0])
            except Exception:
                pass
            rents = []
            for e in t.st.smart_listdir_path(REMOTE, rabs):
                if t.cs.translate(LOCAL, e[REMOTE].path):
                    rents.append([t.it.name(t.world.provs[1].basename(e[REMOTE].path)), t.ent(t.key[id(e)])])
            real = sorted([t.it.name(x.name), 1 if x.otype == DIRECTORY else 0, 1 if x.is_synced else 0]
                          for x in t.cs.smart_listdir_path(labs))
            m = sorted(model.call([6, t.it.path("/local"), t.it.path("/remote"), locals_, rents]))
            stats["listed"] = len(real)
            stats["not_synced"] = sum(1 for x in real if not x[2])
            if m != real:
                return False, "listing differs", dict(real=real, model=m, locals=locals_, rents=[r[0] for r in rents]), stats
            # the law on the real listing: every local object with size or mtime is reported synced (unless a same-named
            # entry is mid-rename), nothing is reported synced without a local object
            lnames = {x[0] for x in locals_}
            for x in real:
                if x[2] and x[0] not in lnames:
                    return False, "law listing: synced without a local object", dict(item=x), stats
                if not x[2] and x[0] in lnames:
                    return False, "law listing: a local object reported as not synced", dict(item=x), stats
            return True, None, None, stats
        raise ValueError(op)
    finally:
        t.close()
