"""Second tie (DESIGN 2.4) for the decision predicates of cloudsync/sync/state.py and the backoff step of
cloudsync/runnable.py.  `entrypred_gate(ctx)` is called by the Coq gate of C03 and C04 (and may be called by any
check); `python -m harness.entrypred` runs it standalone (exit 0/1, no evidence written).

  (i)   the translator (harness/entry_translator.py) is run on the CURRENT source; a rejection is reported;
  (ii)  coq/theories/PropEntryPred.v (generated = model equalities + the laws, stated about the generated
        definitions) is re-checked by the Coq kernel (build.prop_gate);
  (iii) truth table: boundary and random field assignments are written into REAL SideState / SyncEntry objects (a real
        SyncState over two MockProviders; the underscore fields are written directly, the predicates only read them);
        every predicate is evaluated on the real object and compared with the extracted hand model (coq/bin/entrypred)
        as the CLASS of the value returned (True / False / None / other falsy / other truthy); the answer of the real
        provider's path comparison (SyncEntry.paths_match) is handed to the model as its abstract boolean;
  (iv)  the laws of PropEntryPred.v are evaluated on the real results (Python mirrors of the Coq statements): a law
        that fails gives a concrete failing input (shrunk towards the all-default entry);
  (v)   the same for Runnable: __increment_backoff and one pass of the try/except around do() with exact Fractions.

Verdicts: a law failing on the real code -> ctx.violation(what, concrete input); otherwise a rejected translation,
a broken proof or a model/implementation difference -> ctx.violation(..., no_input=True, theorem=<equality theorem>)."""
import ast
import os
import re
import sys
import time
from fractions import Fraction as F

from . import build, framework as fw

LIMB = 1 << 30

# ------------------------------------------------------------------ vocabulary of field values (python literals)
CHANGED = ["None", "False", "0", "0.0", "1", "1.5", "2.5", "1000.25", "-1.0"]
OID = ["None", "''", "'o1'"]
HASH = ["None", "b''", "b'h1'", "b'h2'"]
PATH = ["None", "''", "'/a'", "'/a/'", "'/A'", "'/b'"]
EXISTS = ["unknown", "exists", "trashed", "missing", "likely-trashed", "corrupt"]
SAVED = [None] + EXISTS
LAST_GOTTEN = ["0", "0.0", "1", "1.5", "2.5", "1000.25", "3"]
IGNORED = ["none", "discarded", "conflict", "temp rename", "irrelevant"]
SIDE_FIELDS = [("force", [False, True]), ("changed", CHANGED), ("oid", OID), ("hash", HASH), ("sync_hash", HASH),
               ("path", PATH), ("sync_path", PATH), ("exists", EXISTS), ("saved", SAVED), ("last_gotten", LAST_GOTTEN)]
GONE = ("trashed", "likely-trashed", "missing")
DELETED = ("trashed", "missing")


def side(**kw):
    d = dict(force=False, changed="None", oid="None", hash="None", sync_hash="None", path="None", sync_path="None",
             exists="unknown", saved=None, last_gotten="0")
    d.update(kw)
    return d


def entry(l, r, ignored="none"):
    return dict(ignored=ignored, sides=[dict(l), dict(r)])


SIDE0 = side()
SYNCED = side(oid="'o1'", hash="b'h1'", sync_hash="b'h1'", path="'/a'", sync_path="'/a'", exists="exists")
NEW = side(changed="1.5", oid="'o1'", hash="b'h2'", path="'/a'", exists="exists")
GONE_SIDE = side(changed="1.5", oid="'o1'", hash="b'h1'", sync_hash="b'h1'", path="'/a'", sync_path="'/a'", exists="trashed")
RENAMED = side(changed="2.5", oid="'o1'", hash="b'h1'", sync_hash="b'h1'", path="'/b'", sync_path="'/a'", exists="exists")
MODIFIED = side(changed="2.5", oid="'o1'", hash="b'h2'", sync_hash="b'h1'", path="'/a'", sync_path="'/a'", exists="exists")
CORRUPTED = side(changed="1.5", oid="'o1'", hash="b'h1'", sync_hash="b'h1'", path="'/a'", sync_path="'/a'", exists="corrupt",
                 saved="exists")
FORCED_NEW = side(force=True, path="'/a'", exists="exists")
BASES = [
    ("empty", entry(SIDE0, SIDE0)),
    ("synced", entry(SYNCED, SYNCED)),
    ("creation", entry(NEW, SIDE0)),
    ("creation_remote", entry(SIDE0, NEW)),
    ("deletion", entry(GONE_SIDE, SYNCED)),
    ("rename", entry(RENAMED, SYNCED)),
    ("modify", entry(MODIFIED, SYNCED)),
    ("both_modified", entry(MODIFIED, dict(MODIFIED, hash="b'h1'", sync_hash="b'h2'"))),
    ("corrupt", entry(CORRUPTED, SYNCED)),
    ("recreated_other_deleted", entry(NEW, GONE_SIDE)),
    ("discarded", entry(GONE_SIDE, dict(GONE_SIDE, exists="missing"), ignored="discarded")),
]
# the witnesses of the refuted full-strength statements of EntryPredLaws.v, replayed on the real code:
# (name, entry, [paths-match overrides are not possible on real objects: the paths are chosen so that the real
# provider gives the answer the Coq witness uses], python check on the real results)
WITNESSES = [
    ("needs_sync_false_full", entry(dict(SYNCED, changed="2.5"), SIDE0),
     lambda c, R: not T(R["side_needs_sync"][0]) and bool(val(c["sides"][0]["changed"])) and bool(val(c["sides"][0]["oid"]))),
    ("finished_side_quiet_full", entry(side(force=True, changed="0", oid="'o1'", path="'/a'", sync_path="'/a'", exists="exists"), SIDE0),
     lambda c, R: T(R["side_needs_sync"][0]) and not val(c["sides"][0]["changed"])),
    ("side_needs_sync_bool_full", entry(SIDE0, SIDE0), lambda c, R: R["side_needs_sync"][0] == 2),
    ("deletion_needs_sync_full", entry(dict(GONE_SIDE, oid="None"), SYNCED),
     lambda c, R: T(R["is_deletion"][0]) and not T(R["side_needs_sync"][0])),
    ("creation_both_sides_exclusive_full", entry(FORCED_NEW, FORCED_NEW), lambda c, R: T(R["is_creation"][0]) and T(R["is_creation"][1])),
    ("creation_rename_exclusive_full", entry(dict(NEW, sync_path="'/b'"), SIDE0), lambda c, R: T(R["is_creation"][0]) and T(R["is_rename"][0])),
    ("deletion_rename_exclusive_full", entry(dict(GONE_SIDE, path="'/b'"), SYNCED), lambda c, R: T(R["is_deletion"][0]) and T(R["is_rename"][0])),
    ("creation_other_deletion_exclusive_full", entry(NEW, GONE_SIDE), lambda c, R: T(R["is_creation"][0]) and T(R["is_deletion"][1])),
    ("hash_conflict_sides_differ_full", entry(NEW, NEW), lambda c, R: T(R["hash_conflict"]) and c["sides"][0]["hash"] == c["sides"][1]["hash"]),
    ("trash_iff_no_id_full", entry(side(oid="''"), SIDE0), lambda c, R: R["is_trash"] == 0 and not val(c["sides"][0]["oid"])),
]


_VAL = {}


def val(tok):
    """the Python value of a vocabulary token (memoised: the vocabulary is small; the values are immutable)"""
    try:
        return _VAL[tok]
    except KeyError:
        v = _VAL[tok] = ast.literal_eval(tok)
        return v


def T(c):
    """truthiness of a result class"""
    return c in (1, 4)


def cls_of(v):
    if v is True:
        return 1
    if v is False:
        return 0
    if v is None:
        return 2
    return 4 if v else 3


# ------------------------------------------------------------------ wire encoding (LoopModel.un_q)
def big(n):
    out = []
    while n:
        out.append(n % LIMB)
        n //= LIMB
    return out


def unbig(l):
    n = 0
    for d in reversed(l):
        n = n * LIMB + d
    return n


def qx(q):
    q = F(q)
    return [1 if q < 0 else 0, big(abs(q.numerator)), big(q.denominator)]


def unq(x):
    s, n, d = x
    v = F(unbig(n), unbig(d))
    return -v if s else v


def strv(v):
    return 0 if v is None else (1 if v == "" else 2)


def side_sx(sd):
    ch = val(sd["changed"])
    chx = [] if ch is None else ([0] if ch is False else [1, qx(ch)])
    h, sh = val(sd["hash"]), val(sd["sync_hash"])
    return [1 if sd["force"] else 0, chx, strv(val(sd["oid"])),
            [] if h is None else [list(h)], [] if sh is None else [list(sh)],
            strv(val(sd["path"])), strv(val(sd["sync_path"])), EXISTS.index(sd["exists"]),
            [] if sd["saved"] is None else [EXISTS.index(sd["saved"])], qx(val(sd["last_gotten"]))]


def entry_request(case, pm):
    return [0, [IGNORED.index(case["ignored"]), side_sx(case["sides"][0]), side_sx(case["sides"][1]),
                1 if pm[0] else 0, 1 if pm[1] else 0]]


# ------------------------------------------------------------------ the real objects
_env = {}


def setup():
    if _env:
        return _env
    from . import envfix
    envfix.install()
    import cloudsync.sync.state as S
    from cloudsync.providers.mock import MockProvider
    from cloudsync.types import FILE, IgnoreReason
    from cloudsync.runnable import Runnable
    pa = MockProvider(False, False)      # LOCAL: case-insensitive
    pb = MockProvider(False, True)       # REMOTE: case-sensitive
    st = S.SyncState((pa, pb))
    _env.update(S=S, FILE=FILE, IgnoreReason=IgnoreReason, state=st, Runnable=Runnable,
                Exists={e.value: e for e in S.Exists})
    return _env


def build_entry(case):
    env = setup()
    ent = env["S"].SyncEntry(env["state"], env["FILE"])
    ent._ignored = env["IgnoreReason"](case["ignored"])
    for i in (0, 1):
        sd, c = ent[i], case["sides"][i]
        sd._force_sync = c["force"]
        sd._changed = val(c["changed"])
        sd._oid = val(c["oid"])
        sd._hash = val(c["hash"])
        sd._sync_hash = val(c["sync_hash"])
        sd._path = val(c["path"])
        sd._sync_path = val(c["sync_path"])
        sd._exists = env["Exists"][c["exists"]]
        sd._saved_exists = None if c["saved"] is None else env["Exists"][c["saved"]]
        sd._last_gotten = val(c["last_gotten"])
    return ent


# (name, sided, callable) in the order of EntryPredModel.all_preds
PRED_ORDER = [
    ("is_corrupt", True, lambda e, s: e[s].is_corrupt),
    ("corrupt_exists", True, lambda e, s: e[s].corrupt_exists),
    ("corrupt_gone", True, lambda e, s: e[s].corrupt_gone),
    ("paths_match", True, lambda e, s: e.paths_match(s)),
    ("paths_differ", True, lambda e, s: e.paths_differ(s)),
    ("side_needs_sync", True, lambda e, s: e[s].needs_sync()),
    ("hash_conflict", False, lambda e: e.hash_conflict()),
    ("is_path_change", True, lambda e, s: e.is_path_change(s)),
    ("is_deletion", True, lambda e, s: e.is_deletion(s)),
    ("is_creation", True, lambda e, s: e.is_creation(s)),
    ("is_rename", True, lambda e, s: e.is_rename(s)),
    ("needs_sync", False, lambda e: e.needs_sync()),
    ("is_discarded", False, lambda e: e.is_discarded),
    ("is_irrelevant", False, lambda e: e.is_irrelevant),
    ("is_conflicted", False, lambda e: e.is_conflicted),
    ("is_trash", False, lambda e: e.is_trash),
    ("is_temp_rename", False, lambda e: e.is_temp_rename),
    ("is_latest", False, lambda e: e.is_latest()),
    ("is_latest_side", True, lambda e, s: e.is_latest_side(s)),
]
# generated definition / equality theorem of each predicate
EQ_THEOREM = {n: "EP_gen_%s_eq" % n for n, _, _ in PRED_ORDER}
N_OUT = sum(2 if s else 1 for _, s, _ in PRED_ORDER)


def _call(f, *a):
    try:
        return cls_of(f(*a))
    except Exception as e:             # never a normal-looking class
        return "raised " + type(e).__name__


def eval_real(case):
    """-> (results {name: class | (classL, classR)}, pm (boolL, boolR), flat list in model order)"""
    ent = build_entry(case)
    R, flat = {}, []
    for name, sided, f in PRED_ORDER:
        if sided:
            R[name] = (_call(f, ent, 0), _call(f, ent, 1))
            flat += list(R[name])
        else:
            R[name] = _call(f, ent)
            flat.append(R[name])
    pm = (R["paths_match"][0] == 1, R["paths_match"][1] == 1)
    return R, pm, flat


# ------------------------------------------------------------------ the laws of PropEntryPred.v on real results
def laws(case, R, pm):
    """-> (names of the laws (theorem names without EP_) that fail on the real results, number of law instances evaluated)"""
    bad = []
    sd = case["sides"]
    ch = [bool(val(x["changed"])) for x in sd]
    oid = [bool(val(x["oid"])) for x in sd]
    path = [bool(val(x["path"])) for x in sd]
    spath = [bool(val(x["sync_path"])) for x in sd]
    hsh = [bool(val(x["hash"])) for x in sd]
    hch = [val(x["hash"]) != val(x["sync_hash"]) for x in sd]
    ex = [x["exists"] for x in sd]
    sv = [x["saved"] for x in sd]
    force = [x["force"] for x in sd]
    ns, cr, de, rn, pc = R["side_needs_sync"], R["is_creation"], R["is_deletion"], R["is_rename"], R["is_path_change"]
    flat = [x for n, sided, _ in PRED_ORDER for x in (R[n] if sided else (R[n],))]
    if any(isinstance(x, str) for x in flat):
        return ["predicate_raised"], 1
    n_eval = [0]

    def fail(name, ok):
        n_eval[0] += 1
        if not ok:
            bad.append(name)
    for s in (0, 1):
        o = 1 - s
        want_ns = force[s] or (ch[s] and oid[s] and (hch[s] or not pm[s] or ex[s] in GONE))
        fail("side_needs_sync_iff", T(ns[s]) == want_ns)
        fail("finished_side_quiet", not (not ch[s] and not force[s]) or not T(ns[s]))
        fail("forced_needs_sync", not force[s] or ns[s] == 1)
        fail("side_needs_sync_truthy_is_True", not T(ns[s]) or ns[s] == 1)
        cg_o = ex[o] == "corrupt" and sv[o] in GONE
        want_cr = path[s] and ex[s] == "exists" and T(ns[s]) and (not oid[o] or ex[o] in DELETED or cg_o)
        fail("is_creation_iff", T(cr[s]) == want_cr)
        fail("is_creation_bool", cr[s] in (0, 1))
        fail("creation_needs_sync", not T(cr[s]) or (T(ns[s]) and T(R["needs_sync"])))
        fail("is_deletion_iff", T(de[s]) == (ex[o] == "exists" and ex[s] in DELETED and ch[s]))
        fail("is_deletion_truthy_is_stamp", not T(de[s]) or de[s] == 4)
        fail("deletion_with_id_needs_sync", not (T(de[s]) and oid[s]) or T(ns[s]))
        fail("creation_deletion_exclusive", not (T(cr[s]) and T(de[s])))
        fail("deletion_both_sides_exclusive", not (T(de[s]) and T(de[o])))
        fail("creation_both_sides_forced", not (T(cr[s]) and T(cr[o])) or (force[s] and force[o]))
        fail("is_rename_iff", T(rn[s]) == (T(pc[s]) and path[s]))
        fail("is_path_change_iff", T(pc[s]) == (spath[s] and not pm[s]))
        fail("path_change_needs_sync", not (T(pc[s]) and ch[s] and oid[s]) or T(ns[s]))
        fail("hash_conflict_needs_sync", not (T(R["hash_conflict"]) and ch[s] and oid[s]) or T(ns[s]))
        fail("trash_needs_sync_only_forced", R["is_trash"] != 1 or T(ns[s]) == force[s])
        fail("corrupt_gone_is_corrupt", not T(R["corrupt_gone"][s]) or (R["is_corrupt"][s] == 1 and R["corrupt_exists"][s] == 0))
        fail("corrupt_alone_quiet", not (ex[s] == "corrupt" and not force[s] and not hch[s] and pm[s]) or not T(ns[s]))
        mc = max(F(val(sd[0]["changed"]) or 0), F(val(sd[1]["changed"]) or 0))
        fail("is_latest_side_iff", T(R["is_latest_side"][s]) == (mc <= F(val(sd[s]["last_gotten"]))))
    fail("needs_sync_iff", T(R["needs_sync"]) == (T(ns[0]) or T(ns[1])))
    fail("hash_conflict_iff", T(R["hash_conflict"]) == (hsh[0] and hsh[1] and path[0] and path[1] and hch[0] and hch[1]))
    fail("hash_conflict_bool", R["hash_conflict"] in (0, 1))
    ig = case["ignored"]
    fail("is_discarded_iff", (R["is_discarded"] == 1) == (ig in ("discarded", "irrelevant")))
    fail("ignore_flags_bool", all(R[n] in (0, 1) for n in ("is_discarded", "is_irrelevant", "is_conflicted", "is_temp_rename")))
    fail("irrelevant_is_discarded", R["is_irrelevant"] != 1 or R["is_discarded"] == 1)
    fail("ignore_flags_exclusive", sum(1 for n in ("is_discarded", "is_conflicted", "is_temp_rename") if R[n] == 1) <= 1)
    fail("is_trash_iff", (R["is_trash"] == 1) == (val(sd[0]["oid"]) is None and val(sd[1]["oid"]) is None))
    fail("is_latest_iff", T(R["is_latest"]) == (T(R["is_latest_side"][0]) and T(R["is_latest_side"][1])))
    return sorted(set(bad)), n_eval[0]


def shrink(case, law):
    """reset fields to their defaults while the same law still fails on the real code"""
    cur = dict(ignored=case["ignored"], sides=[dict(case["sides"][0]), dict(case["sides"][1])])

    def still(c):
        R, pm, _ = eval_real(c)
        return law in laws(c, R, pm)[0]
    if cur["ignored"] != "none":
        c2 = dict(cur, ignored="none")
        if still(c2):
            cur = c2
    for i in (0, 1):
        for k, dv in SIDE0.items():
            if cur["sides"][i][k] != dv:
                c2 = dict(cur, sides=[dict(cur["sides"][0]), dict(cur["sides"][1])])
                c2["sides"][i][k] = dv
                if still(c2):
                    cur = c2
    return cur


# ------------------------------------------------------------------ generators
def random_side(rng):
    return {k: rng.choice(vs) for k, vs in SIDE_FIELDS}


def mutate(rng, base, k):
    c = dict(ignored=base["ignored"], sides=[dict(base["sides"][0]), dict(base["sides"][1])])
    for _ in range(k):
        if rng.random() < 0.08:
            c["ignored"] = rng.choice(IGNORED)
        else:
            f, vs = rng.choice(SIDE_FIELDS)
            c["sides"][rng.randrange(2)][f] = rng.choice(vs)
    return c


def boundary_cases(quick):
    """every base; every single-field variation of every base; the decision core of one side exhaustively
    (force x changed x oid x exists) against three other sides; thorough: every pair of field variations"""
    for name, b in BASES:
        yield "base", b
    for name, b, _ in WITNESSES:
        yield "witness", b
    for name, b in BASES:
        for ig in IGNORED:
            if ig != b["ignored"]:
                yield "one_field", dict(b, ignored=ig)
        for i in (0, 1):
            for f, vs in SIDE_FIELDS:
                for v in vs:
                    if b["sides"][i][f] != v:
                        c = dict(b, sides=[dict(b["sides"][0]), dict(b["sides"][1])])
                        c["sides"][i][f] = v
                        yield "one_field", c
    others = [SIDE0, SYNCED, GONE_SIDE] if quick else [SIDE0, SYNCED, GONE_SIDE, NEW, CORRUPTED, dict(SYNCED, oid="''")]
    for o in others:
        for i in (0, 1):
            for fo in (False, True):
                for ch in ("None", "False", "0", "1.5"):
                    for oi in OID:
                        for ex in EXISTS:
                            for h in ("b'h1'", "b'h2'"):
                                x = dict(SYNCED, force=fo, changed=ch, oid=oi, exists=ex, hash=h)
                                yield "decision_core", entry(x, o) if i == 0 else entry(o, x)
    if not quick:
        for name, b in BASES:
            slots = [(i, f, v) for i in (0, 1) for f, vs in SIDE_FIELDS for v in vs if b["sides"][i][f] != v]
            for a in range(len(slots)):
                for bb in range(a + 1, len(slots)):
                    (i1, f1, v1), (i2, f2, v2) = slots[a], slots[bb]
                    if (i1, f1) == (i2, f2):
                        continue
                    c = dict(b, sides=[dict(b["sides"][0]), dict(b["sides"][1])])
                    c["sides"][i1][f1] = v1
                    c["sides"][i2][f2] = v2
                    yield "two_fields", c


def random_cases(rng, n):
    for _ in range(n):
        r = rng.random()
        if r < 0.55:
            _, b = rng.choice(BASES)
            yield "mutated_base", mutate(rng, b, rng.choice((2, 2, 3, 3, 4, 6)))
        else:
            yield "random", dict(ignored=rng.choice(IGNORED) if rng.random() < 0.3 else "none",
                                 sides=[random_side(rng), random_side(rng)])


# ------------------------------------------------------------------ backoff
OUTCOMES = ["did", "noop", "backoff", "exc", "base"]


class _Base(BaseException):
    pass


def real_after_do(p, b, outcome):
    """one pass of the real Runnable.run loop body: -> (in_backoff after the try/except, the sleep requested)"""
    env = setup()

    class One(env["Runnable"]):
        def __init__(self):
            self.min_backoff, self.max_backoff, self.mult_backoff = p[0], p[1], p[2]
            self.in_backoff = b
            self.calls = 0
            self.sleeps = []
            self.after = None

        def interruptable_sleep(self, secs):
            self.sleeps.append(F(secs))

        def do(self):
            self.calls += 1
            if self.calls > 1:
                self.nothing_happened()
                return
            if outcome == "noop":
                self.nothing_happened()
            elif outcome == "backoff":
                self.backoff()
            elif outcome == "exc":
                raise ValueError("x")
            elif outcome == "base":
                raise _Base()

    r = One()

    def until():
        if r.after is None:
            r.after = F(r.in_backoff)
        return len(r.sleeps) >= 1
    r.run(until=until, sleep=p[3])
    return r.after, (r.sleeps[0] if r.sleeps else None)


def real_increment(p, b):
    env = setup()

    class Inc(env["Runnable"]):
        def do(self):
            pass
    r = Inc()
    r.min_backoff, r.max_backoff, r.mult_backoff, r.in_backoff = p[0], p[1], p[2], b
    r._Runnable__increment_backoff()
    return F(r.in_backoff)


def backoff_laws(p, b, inc):
    mn, mx, mult = p[0], p[1], p[2]
    bad = []
    if mn <= mx and not (mn <= inc <= mx):
        bad.append("backoff_range")
    if 0 < mn <= mx and b == 0 and inc != mn:
        bad.append("backoff_first")
    if mult >= 1 and 0 < mn <= mx and mn <= b <= mx and inc != min(mx, b * mult):
        bad.append("backoff_step")
    return bad


def gen_backoff_case(rng):
    vals = [F(0), F(1, 100), F(1, 50), F(1, 3), F(1, 2), F(1), F(3, 2), F(2), F(5), F(7, 3), F(10), F(-1), F(1, 1000)]
    if rng.random() < 0.7:           # the hypotheses of the laws hold: 0 < min <= max, mult >= 1
        mn = rng.choice([v for v in vals if v > 0])
        mx = mn * rng.choice([1, 2, 10, 100, F(3, 2)])
        mult = rng.choice([F(1), F(3, 2), F(2), F(3), F(10)])
        b = rng.choice([F(0), mn, mx, mn * mult, (mn + mx) / 2, mx * 2, mn / 2, rng.choice(vals)])
    else:
        mn, mx, mult, b = rng.choice(vals), rng.choice(vals), rng.choice(vals), rng.choice(vals)
    return (mn, mx, mult, rng.choice([F(1, 1000), F(1, 100), F(0), F(1)])), b


def frs(q):
    q = F(q)
    return "%d/%d" % (q.numerator, q.denominator)


# ------------------------------------------------------------------ the gate
def _failing_lemma(log):
    """name of the lemma whose proof broke, from a coqc error log"""
    m = re.search(r'File "\./theories/(\w+)\.v", line (\d+)', log)
    if not m:
        return None, None
    fn, ln = m.group(1), int(m.group(2))
    try:
        lines = open(os.path.join(build.THEORIES, fn + ".v"), encoding="utf-8").read().split("\n")[:ln]
    except OSError:
        return fn, None
    for l in reversed(lines):
        mm = re.match(r"\s*(?:Lemma|Theorem|Corollary|Example|Definition)\s+([A-Za-z0-9_']+)", l)
        if mm:
            return fn, mm.group(1)
    return fn, None


def entrypred_gate(ctx, n_random=None):
    """-> dict(ok, ...); fills ctx.coverage["streams"]["entry_predicates"]; reports through ctx.violation"""
    from . import entry_translator as ET
    t_start = time.time()
    stats = dict(translator={}, gate={}, entries=0, predicate_values_compared=0, law_evaluations=0, kinds={},
                 truthy_counts={}, class_counts={}, mismatches=0, law_failures=0, refutation_witnesses_replayed=0,
                 backoff=dict(cases=0, increments=0, loop_passes=0, law_evaluations=0, mismatches=0, law_failures=0))
    proof_breaks = []          # (what, theorem)
    # ---- (i) translators on the current source
    for target, fn, what in (("GenEntryPred.v", ET.translate_current, "cloudsync/sync/state.py decision predicates"),
                             ("GenBackoff.v", ET.translate_backoff_current, "cloudsync/runnable.py backoff step")):
        try:
            txt = fn()
            base = os.path.join(build.GEN_BASELINE, target)
            same = os.path.exists(base) and open(base, encoding="utf-8").read() == txt
            stats["translator"][target] = "ok, " + ("identical to the translation of the pinned source" if same
                                                    else "differs from the translation of the pinned source")
        except ET.TranslateError as e:
            stats["translator"][target] = "rejected: " + str(e)[:300]
            proof_breaks.append(("translator rejects the current source of %s: %s" % (what, e),
                                 "translator: %s -> %s" % (what, target)))
    # ---- model executable (depends on the hand model only), then (ii) the property file
    model = None
    try:
        build.ensure_scope([], bins=["entrypred"])
        model = fw.ModelProc("entrypred")
    except (build.BuildError, Exception) as e:
        proof_breaks.append(("the hand model EntryPredModel.v / its executable no longer builds: %s" % str(e)[-600:],
                             "make ExtractEntrypred.vo + coq/bin/entrypred"))
    g = None
    t0 = time.time()
    try:
        build.ensure_scope(["PropEntryPred"], bins=[])
        g = build.prop_gate("PropEntryPred")
        if not g["ok"]:
            fn_, lem = _failing_lemma(g["error"] or "")
            proof_breaks.append(("PropEntryPred.v no longer checks: " + (g["error"] or "")[-500:],
                                 lem or "PropEntryPred.v"))
        else:
            open_ = [t for t in g["theorems"] if g["assumptions"].get(t)]
            if open_ or not g["theorems"]:
                proof_breaks.append(("theorems of PropEntryPred.v depend on assumptions: %s" % open_, ",".join(open_) or "PropEntryPred.v"))
    except build.BuildError as e:
        fn_, lem = _failing_lemma(str(e))
        thm = lem and ("EP_" + lem if lem.startswith("gen_") else lem)
        proof_breaks.append(("the generated definitions no longer satisfy the proofs (%s.v%s): %s"
                             % (fn_ or "?", ", " + lem if lem else "", str(e)[-500:]),
                             "%s (%s.v)" % (thm, fn_) if thm else "make theories/PropEntryPred.vo"))
    stats["gate"] = dict(ok=bool(g and g["ok"] and not proof_breaks), theorems=len(g["theorems"]) if g else 0,
                         closed=len(g["closed"]) if g else 0, wall_s=round(time.time() - t0, 2))
    # ---- (iii) + (iv) truth table
    law_fail = {}              # law -> first failing case
    mismatch = {}              # predicate -> (case, model class, real class)
    samples = []
    dist = fw.Distinct()
    if model is not None:
        rng = ctx.sub_rng("entry_predicates")
        n_random = n_random if n_random is not None else (6000 if ctx.quick else 120000)
        names_flat = []
        for name, sided, _ in PRED_ORDER:
            names_flat += [name + "[0]", name + "[1]"] if sided else [name]

        def run_batch(batch):
            impl = [eval_real(c) for _, c in batch]
            outs = model.batch([entry_request(c, pm) for (_, c), (_, pm, _) in zip(batch, impl)])
            for (kind, c), (R, pm, flat), out in zip(batch, impl, outs):
                stats["entries"] += 1
                stats["kinds"][kind] = stats["kinds"].get(kind, 0) + 1
                if out == fw.MALFORMED or len(out) != N_OUT:
                    mismatch.setdefault("(request)", (c, out, flat))
                    stats["mismatches"] += 1
                    continue
                for nm, a, b in zip(names_flat, out, flat):
                    stats["predicate_values_compared"] += 1
                    base = nm.split("[")[0]
                    if T(b) if not isinstance(b, str) else False:
                        stats["truthy_counts"][base] = stats["truthy_counts"].get(base, 0) + 1
                    if b in (2, 3, 4):
                        key = base + ":" + {2: "None", 3: "falsy-nonbool", 4: "truthy-nonbool"}[b]
                        stats["class_counts"][key] = stats["class_counts"].get(key, 0) + 1
                    if a != b:
                        stats["mismatches"] += 1
                        mismatch.setdefault(base, (c, a, b))
                bad, n_ev = laws(c, R, pm)
                stats["law_evaluations"] += n_ev
                for law in bad:
                    stats["law_failures"] += 1
                    law_fail.setdefault(law, c)
                dist.add((c["ignored"], sorted(c["sides"][0].items(), key=str), sorted(c["sides"][1].items(), key=str)),
                         nontrivial=any(T(x) for x in flat if not isinstance(x, str)))
                if len(samples) < 3 and kind == "random":
                    samples.append(dict(case=c, paths_match=list(pm), classes=dict(zip(names_flat, flat))))
        batch = []
        for kc in boundary_cases(ctx.quick):
            batch.append(kc)
            if len(batch) >= 2000:
                run_batch(batch)
                batch = []
        for kc in random_cases(rng, n_random):
            batch.append(kc)
            if len(batch) >= 2000:
                run_batch(batch)
                batch = []
        if batch:
            run_batch(batch)
        # the refutation witnesses, replayed on the real code
        for name, c, check in WITNESSES:
            R, pm, _ = eval_real(c)
            stats["refutation_witnesses_replayed"] += 1
            if not check(c, R):
                mismatch.setdefault("witness:" + name, (c, "the Coq witness of %s_refuted" % name, "not reproduced by the real code"))
                stats["mismatches"] += 1
        # ---- (v) backoff
        bk = stats["backoff"]
        rngb = ctx.sub_rng("backoff")
        nb = 400 if ctx.quick else 6000
        cases = [gen_backoff_case(rngb) for _ in range(nb)]
        reqs, impl = [], []
        for p, b in cases:
            inc = real_increment(p, b)
            o = rngb.choice(OUTCOMES)
            aft, slp = real_after_do(p, b, o)
            impl.append((inc, o, aft, slp))
            reqs.append([1, [qx(p[0]), qx(p[1]), qx(p[2]), qx(p[3])], qx(b), 3])
            reqs.append([1, [qx(p[0]), qx(p[1]), qx(p[2]), qx(p[3])], qx(b), OUTCOMES.index(o)])
        outs = model.batch(reqs)
        for i, ((p, b), (inc, o, aft, slp)) in enumerate(zip(cases, impl)):
            bk["cases"] += 1
            bk["increments"] += 1
            bk["loop_passes"] += 1
            m_inc = unq(outs[2 * i][0])
            m_aft, m_slp = unq(outs[2 * i + 1][0]), unq(outs[2 * i + 1][1])
            jc = dict(kind="backoff", min_backoff=frs(p[0]), max_backoff=frs(p[1]), mult_backoff=frs(p[2]), sleep=frs(p[3]),
                      in_backoff=frs(b), outcome=o)
            if m_inc != inc:
                bk["mismatches"] += 1
                mismatch.setdefault("__increment_backoff", (jc, frs(m_inc), frs(inc)))
            if m_aft != aft or m_slp != slp:
                bk["mismatches"] += 1
                mismatch.setdefault("run:after_do", (jc, [frs(m_aft), frs(m_slp)], [frs(aft) if aft is not None else None,
                                                                                   frs(slp) if slp is not None else None]))
            bk["law_evaluations"] += 3
            for law in backoff_laws(p, b, inc):
                bk["law_failures"] += 1
                law_fail.setdefault(law, dict(jc, real_in_backoff_after=frs(inc)))
            bk["law_evaluations"] += 1
            if o in ("backoff", "exc", "base") and aft != inc:
                bk["law_failures"] += 1
                law_fail.setdefault("backoff_every_failure_increments", dict(jc, real_in_backoff_after_do=frs(aft), real_increment=frs(inc)))
            if o == "noop" and aft != b:
                bk["law_failures"] += 1
                law_fail.setdefault("backoff_kept_when_nothing_happened", dict(jc, real_in_backoff_after_do=frs(aft)))
            if o == "did" and b >= 0 and aft != 0:
                bk["law_failures"] += 1
                law_fail.setdefault("backoff_cleared_on_success", dict(jc, real_in_backoff_after_do=frs(aft)))
        model.close()
        stats["model_calls"] = model.calls
    # ---- verdicts
    reported = 0
    breaks_txt = "; ".join("%s [%s]" % (w[:200], th) for w, th in proof_breaks)
    if law_fail:
        for law in sorted(law_fail)[:4]:
            c = law_fail[law]
            if "sides" in c:
                c = shrink(c, law)
                R, pm, flat = eval_real(c)
                case = dict(kind="entry-predicate-law", law="EP_" + law, entry=c, real_paths_match=list(pm),
                            real_result_classes={k: (list(v) if isinstance(v, tuple) else v) for k, v in R.items()},
                            class_legend="0 False, 1 True, 2 None, 3 other falsy, 4 other truthy")
                what = ("law EP_%s (PropEntryPred.v) fails on the real cloudsync.sync.state predicates for the entry %s"
                        % (law, _short(c)))
            else:
                case = dict(kind="backoff-law", law="EP_" + law, case=c)
                what = "law EP_%s (PropEntryPred.v) fails on the real Runnable: %s" % (law, c)
            if breaks_txt:
                what += "; and: " + breaks_txt
            if ctx.violation(what, case):
                reported += 1
    else:
        for w, th in proof_breaks[:3]:
            if ctx.violation(w, dict(kind="entrypred-proof", theorem=th, what=w[:2000]), no_input=True, theorem=th):
                reported += 1
        for pred in sorted(mismatch)[:3]:
            c, a, b = mismatch[pred]
            th = EQ_THEOREM.get(pred, {"__increment_backoff": "EP_gen_increment_backoff_eq",
                                       "run:after_do": "EP_gen_after_do_eq / EP_gen_sleep_of_eq"}.get(pred, "PropEntryPred.v"))
            if ctx.violation("model and implementation differ on %s: model %s, real %s; no law of PropEntryPred.v fails on the "
                             "explored inputs" % (pred, a, b), dict(kind="entrypred-correspondence", predicate=pred, case=c,
                                                                   model=a, real=b),
                             no_input=True, theorem="%s + correspondence EntryPredModel.run vs the real predicate" % th):
                reported += 1
    stats["wall_s"] = round(time.time() - t_start, 2)
    stats["distinct_nontrivial"] = dist.nontrivial
    stats["rule"] = ("an entry is non-trivial when at least one predicate is truthy on it; distinct = distinct field assignments; "
                     "classes: True / False / None / other falsy / other truthy")
    stats["samples"] = samples
    cov = ctx.coverage
    cov.setdefault("streams", {})["entry_predicates"] = stats
    if g and g["ok"]:
        # the theorems of PropEntryPred.v count as obligations of the check that runs this gate
        cov["obligations"] = cov.get("obligations", 0) + len(g["theorems"])
        cov["discharged"] = cov.get("discharged", 0) + len(g["closed"])
        cov["theorems"] = list(cov.get("theorems", [])) + g["theorems"]
    ok = not (law_fail or proof_breaks or mismatch)
    return dict(ok=ok, reported=reported, law_failures=sorted(law_fail), proof_breaks=proof_breaks,
                mismatches=sorted(mismatch), stats=stats)


def _short(c):
    def sd(x):
        return "{" + ", ".join("%s=%s" % (k, v) for k, v in x.items() if SIDE0[k] != v) + "}"
    return "ignored=%s LOCAL=%s REMOTE=%s" % (c["ignored"], sd(c["sides"][0]), sd(c["sides"][1]))


TRUSTED = [
    "translator harness/entry_translator.py (typed whitelist over the ast; `and`/`or`/`not` on value classes, Exists/"
    "IgnoreReason equality, unrolling of loops over (LOCAL, REMOTE), name-mangled Runnable attributes are built into it)",
    "EntryPredModel's value classes: changed in {None, False, number}, oid/path/sync_path in {None, '', non-empty str}, "
    "hash/sync_hash Optional[bytes], force_sync a bool; NaN, other types and subclasses overriding __eq__/__bool__ are not modelled",
    "SyncEntry.paths_match is an input of the model (the real provider's answer); is_related_to is not covered",
]


def main(argv):
    import argparse
    ap = argparse.ArgumentParser(prog="python -m harness.entrypred")
    ap.add_argument("--tier", default=os.environ.get("VERIF_TIER", "quick"), choices=["quick", "thorough"])
    a = ap.parse_args(argv)
    repo = os.environ.get("CLOUDSYNC_REPO") or "/repo"
    if repo in sys.path:
        sys.path.remove(repo)
    sys.path.insert(0, repo)
    try:
        seed = int(os.environ.get("VERIF_SEED", "20260923"))
    except ValueError:
        seed = 20260923
    ctx = fw.Ctx("ENTRYPRED", a.tier, seed)
    bad = build.lint()
    if bad:
        print("forbidden vernacular: " + "; ".join(bad[:5]))
        return 1
    res = entrypred_gate(ctx)
    st = res["stats"]
    print("entrypred: translator %s" % st["translator"])
    print("entrypred: gate %s" % st["gate"])
    print("entrypred: %d entries (%s), %d predicate values compared, %d law evaluations, %d mismatches, %d law failures; "
          "backoff %s; wall %.1f s" % (st["entries"], st["kinds"], st["predicate_values_compared"], st["law_evaluations"],
                                      st["mismatches"], st["law_failures"], st["backoff"], st["wall_s"]))
    for path, what, no_input in ctx.violations:
        print("# " + what[:400])
        print("VIOLATION property=ENTRYPRED replay=%s%s" % (path, " no-failing-input-found" if no_input else ""))
    sys.stdout.flush()
    return 1 if (ctx.violations or not res["ok"]) else 0


if __name__ == "__main__":
    sys.exit(main(sys.argv[1:]))
