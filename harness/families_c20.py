"""C20 (on-demand sync): case generators, the runner over the REAL SmartCloudSync, and the Python mirror of the
Coq specification (SmartModel.smart_spec) used to look for a concrete failing input.

A *case* is a JSON-able dict:
  flavour   : engine.Flavour.key()  (both sides id-stable: users act on both)
  auto      : ["none"] | ["ext", ".txt"] | ["dir", "/relfolder"]      the registered auto-sync predicate
  schedule  : list of actions
        ["user", side, op]           op = ["create", abs, bytes] | ["write", abs, bytes] | ["mkdir", abs] | ["delete", abs]
        ["hook", "request", how, rel]     how = "path_l" | "path_r" | "oid"   (rel = root-relative path "/d/a.txt")
        ["hook", "unrequest", how, rel]
        ["hook", "list", rel_dir]
        ["intake", side] | ["sync"] | ["drain"]
  hash_mult : odd int permuting SyncEntry set order
Hook actions are dispatched as hooks[name](eng, world, args) (the convention of enginecheck.run_case).

The runner records an observation trace (user operations, request/un-request brackets, every engine-issued provider
mutation with its kind and path, step and quiet markers — each with both trees observed after it).  Oracles:
  * between quiescent points ONLY the monitor guard (SmartModel.mon_accept, extracted) judges the trace;
  * at every quiescent point both real trees and the real merged listing of every folder are compared with
    smart_spec (extracted) run over the actions performed so far.
"""
from . import engine as E
from . import enginecheck as EC

LOCAL, REMOTE = 0, 1

# ------------------------------------------------------------------ auto-sync predicates
def auto_fn(auto):
    """the predicate on ROOT-RELATIVE remote paths ('/d/a.txt')"""
    kind = auto[0]
    if kind == "none":
        return lambda rel: False
    if kind == "ext":
        return lambda rel: rel.endswith(auto[1])
    if kind == "dir":
        return lambda rel: rel.startswith(auto[1] + "/")
    raise ValueError(kind)


def parent(rel):
    return rel.rsplit("/", 1)[0]


# ------------------------------------------------------------------ Python mirror of smart_spec (search oracle)
class PySpec:
    """Mirror of SmartModel.sstep: (remote tree, local tree, requested, excluded, locally born) with every action
    followed by quiescence.  step() returns False when the action is outside the specification's domain."""

    def __init__(self, auto):
        self.auto = auto_fn(auto)
        self.R, self.L = {}, {}
        self.Q, self.X, self.born = set(), set(), set()

    def _isdir(self, t, p):
        return p == "" or t.get(p) == ("D",)

    def _kids(self, t, p):
        return any(q.startswith(p + "/") for q in t)

    def step(self, a):
        k = a[0]
        R, L = self.R, self.L
        if k in ("rcreate", "rmkdir"):
            p = a[1]
            if p in R or p in L or not self._isdir(R, parent(p)):
                return False
            if k == "rmkdir":
                R[p] = L[p] = ("D",)
            else:
                R[p] = ("F", a[2])
                if self.auto(p):
                    self.Q.add(p)
                    L[p] = R[p]
            return True
        if k == "redit":
            p = a[1]
            if p not in R or R[p][0] != "F":
                return False
            R[p] = ("F", a[2])
            if p in L:
                L[p] = R[p]
            return True
        if k == "rdelete":
            p = a[1]
            if p not in R or (R[p][0] == "D" and self._kids(R, p)):
                return False
            del R[p]
            L.pop(p, None)
            self.Q.discard(p)
            self.X.discard(p)
            self.born.discard(p)
            return True
        if k in ("lcreate", "lmkdir"):
            p = a[1]
            if p in R or p in L or not self._isdir(L, parent(p)):
                return False
            if k == "lmkdir":
                R[p] = L[p] = ("D",)
            else:
                R[p] = L[p] = ("F", a[2])
                self.born.add(p)
            return True
        if k == "ledit":
            p = a[1]
            if p not in L or L[p][0] != "F":
                return False
            R[p] = L[p] = ("F", a[2])
            return True
        if k == "request":
            p = a[1]
            if p in R and R[p][0] == "F":
                self.Q.add(p)
                self.X.discard(p)
                L[p] = R[p]
            return True
        if k == "unrequest":
            p = a[1]
            if p in self.Q and p in R and R[p][0] == "F":
                self.Q.discard(p)
                self.X.add(p)
                L.pop(p, None)
                self.born.discard(p)
            return True
        if k == "editunrequest":
            p = a[1]
            return self.step(("ledit", p, a[2])) and self.step(("unrequest", p))
        raise ValueError(k)

    def listing(self, d):
        """{name: (kind, synced)} for the direct children of folder d"""
        out = {}
        for t, synced in ((self.R, False), (self.L, True)):
            for p, n in t.items():
                if parent(p) == d:
                    if synced or p not in self.L:
                        out[p[len(d) + 1:]] = (n[0], synced)
        return out

    def laws(self):
        """the six laws as predicates on the current state -> list of violated law names"""
        bad = []
        R, L = self.R, self.L
        if {p for p, n in R.items() if n[0] == "D"} != {p for p, n in L.items() if n[0] == "D"}:
            bad.append("folders_always_mirrored")
        if any(R.get(p) != n for p, n in L.items()):
            bad.append("local_creations_uploaded")
        for p, n in R.items():
            if n[0] == "F" and p in L and not (p in self.Q or p in self.born):
                bad.append("never_download_unrequested")
            if n[0] == "F" and p in self.Q and L.get(p) != n:
                bad.append("requested_kept_in_sync")
        return bad


# ------------------------------------------------------------------ the runner over the real SmartCloudSync
KIND = {"create": 0, "upload": 1, "mkdir": 2, "delete": 3, "rename": 4}
MON_CODES = {1: "TIE", 2: "DOWNLOAD_UNREQUESTED", 3: "REMOTE_DELETE", 4: "REMOTE_DELETE_IN_UNREQUEST", 5: "BRACKET",
             6: "OTHER_SIDE", 7: "STEP_TREE",
             # pseudo codes produced by the harness (quiescent-point comparison with smart_spec)
             101: "SPEC_TREES", 102: "SPEC_LISTING", 103: "SPEC_DOMAIN", 104: "STUCK", 105: "LAW", 106: "LISTING_RAISED"}


class SmartResult:
    def __init__(self):
        self.verdict = None       # [] | [observation index, code]
        self.events = []
        self.rounds = []
        self.engine_calls = 0
        self.extra = {}
        self.stuck = False
        self.mon_request = None
        self.spec_request = None
        self.detail = None


def _views(world):
    return world.view(0), world.view(1)


def real_listing(eng, world, rel_dir):
    """{name: (kind, synced)} as SmartCloudSync.smart_listdir_path reports the folder"""
    from cloudsync.types import DIRECTORY
    out = {}
    root = world.fl.roots[0].rstrip("/")
    for info in eng.cs.smart_listdir_path(root + rel_dir if rel_dir else (root or "/")):
        out[info.name] = ("D" if info.otype == DIRECTORY else "F", bool(info.is_synced))
    return out


def default_hooks(state):
    """request / unrequest / list as hook functions hooks[name](eng, world, args); `state` carries the recorder"""
    def rel_abs(world, side, rel):
        return world.fl.roots[side].rstrip("/") + rel

    def remote_oid(world, rel):
        info = world.raw[1]["info_path"](rel_abs(world, 1, rel))
        if info is not None:
            state["oids"][rel] = info.oid
            return info.oid
        return state["oids"].get(rel)          # a stale id (object deleted) if we ever saw one

    def call(fn):
        try:
            return "ok", fn()
        except Exception as e:   # CloudFileNotFoundError, TypeError (un-request by id of an entry that is not requested), ...
            return type(e).__name__, None

    def request(eng, world, args):
        how, rel = args
        state["emit"]([4, state["it"].path(rel)], ("request", how, rel))
        if how == "oid":
            oid = remote_oid(world, rel)
            out = ("NoOid", None) if oid is None else call(lambda: eng.cs.smart_sync_oid(oid))
        else:
            side = 0 if how == "path_l" else 1
            out = call(lambda: eng.cs.smart_sync_path(rel_abs(world, side, rel), side))
        ok = out[0] == "ok"
        if not ok and out[0] not in ("CloudFileNotFoundError", "NoOid"):
            # the call raised something else (e.g. AttributeError: request by id of an entry whose path is not known
            # yet): whether a request was left behind is not determined by the call's outcome; the request set says
            ents = eng.cs.state.lookup_path(1, rel_abs(world, 1, rel))
            if how == "oid":
                ents = [e for e in [eng.cs.state.lookup_oid(1, remote_oid(world, rel))] if e]
            if any(e in eng.cs.state.requestset for e in ents):
                out = ("raised-but-registered:" + out[0], None)
                ok = True
        state["emit"]([5, 1 if ok else 0], ("request-end", out[0]))
        return "ok" if ok else out[0]

    def unrequest(eng, world, args):
        how, rel = args
        state["emit"]([6, state["it"].path(rel)], ("unrequest", how, rel))
        if how == "oid":
            oid = remote_oid(world, rel)
            out = ("NoOid", None) if oid is None else call(lambda: eng.cs.smart_unsync_oid(oid))
        else:
            side = 0 if how == "path_l" else 1
            out = call(lambda: eng.cs.smart_unsync_path(rel_abs(world, side, rel), side))
            if out[0] == "ok" and not out[1]:
                out = ("NotRequested", None)
        ok = out[0] == "ok"
        state["emit"]([7, 1 if ok else 0], ("unrequest-end", out[0]))
        return out[0]

    def listing(eng, world, args):
        try:
            return "ok", real_listing(eng, world, args[0])
        except Exception as e:
            return type(e).__name__, None

    return dict(request=request, unrequest=unrequest, list=listing)


def spec_action(it, act):
    k = act[0]
    P = it.path
    if k == "rcreate":
        return [0, P(act[1]), it.content(act[2])]
    if k == "rmkdir":
        return [1, P(act[1])]
    if k == "redit":
        return [2, P(act[1]), it.content(act[2])]
    if k == "rdelete":
        return [3, P(act[1])]
    if k == "lcreate":
        return [4, P(act[1]), it.content(act[2])]
    if k == "lmkdir":
        return [5, P(act[1])]
    if k == "ledit":
        return [6, P(act[1]), it.content(act[2])]
    if k == "request":
        return [7, P(act[1])]
    if k == "unrequest":
        return [8, P(act[1])]
    if k == "editunrequest":
        return [9, P(act[1]), it.content(act[2])]
    raise ValueError(k)


def auto_sx(it, auto):
    if auto[0] == "none":
        return [0]
    if auto[0] == "ext":
        return [1, sorted(i for s, i in it.names.items() if s.endswith(auto[1]))]
    return [2, it.path(auto[1])]


def _new_engine(world):
    """SyncManager makes a temp dir per engine: put it on the RAM disk when there is one (the disk is shared)"""
    import os
    import tempfile
    saved = tempfile.tempdir
    if os.path.isdir("/dev/shm") and os.access("/dev/shm", os.W_OK):
        tempfile.tempdir = "/dev/shm"
    try:
        return E.Engine(world, smart=True)
    finally:
        tempfile.tempdir = saved


def run_smart_case(case, model, py_only=False, keep_engine=False):
    """Execute one case on the real SmartCloudSync; verdict from the extracted monitor + spec (or from the Python
    mirror only when py_only: used while shrinking)."""
    fl = E.Flavour.from_key(case["flavour"])
    E.install(case.get("hash_mult", 1))
    E.reset_serials()
    world = E.World(fl)
    res = SmartResult()
    it = EC.Interner()
    pred = auto_fn(case["auto"])
    obs = []
    prev = [None, None]
    state = dict(it=it, oids={})
    spec_acts = []        # (spec action tuple) in the order performed; ("report", k) markers at quiescent points
    quiets = []           # (obs index, viewL, viewR, {dir: listing} | exception name)
    py = PySpec(case["auto"])
    first_bad = []
    eng = _new_engine(world)
    try:
        rprov = world.provs[1]
        rroot = fl.roots[1]

        def callback(remote_path):
            rel = rprov.is_subpath(rroot, remote_path, strict=True)
            return bool(rel) and pred(rel)
        if case["auto"][0] != "none":
            # the application may register several predicates: a path is auto-synced when ANY of them matches.  The
            # case's predicate is registered alone, before, or after a predicate that never matches (same meaning).
            k = (case.get("hash_mult", 1) + len(case.get("schedule", []))) % 3
            if k == 1:
                eng.cs.register_auto_sync_callback(lambda p: False)
            eng.cs.register_auto_sync_callback(callback)
            if k == 2:
                eng.cs.register_auto_sync_callback(lambda p: False)

        def emit(ev, readable):
            cur = [world.snapshot(0), world.snapshot(1)]
            w = [0 if cur[s] == prev[s] else it.tree(cur[s]) for s in (0, 1)]
            prev[0], prev[1] = cur
            obs.append([ev, w[0], w[1]])
            res.events.append(readable)
        state["emit"] = emit

        def on_action(rec):
            if "error" in rec:
                res.extra["failed_engine_calls"] = res.extra.get("failed_engine_calls", 0) + 1
                return
            emit([1, rec["side"], KIND[rec["call"]], [it.path(t) for t in rec["targets"]]],
                 ("eng", rec["side"], rec["call"], [a if not isinstance(a, bytes) else a[:20] for a in rec["args"]]))
        hooks = default_hooks(state)

        def step(kind, side=None):
            if kind == "intake":
                eng.intake(side)
            else:
                eng.sync()
            emit([2], (kind, side))

        def at_quiet():
            emit([3], ("quiet",))
            vl, vr = _views(world)
            dirs = [""] + sorted(p for p, n in list(vl.items()) + list(vr.items()) if n[0] == "D")
            lst = {}
            for d in dict.fromkeys(dirs):
                out = hooks["list"](eng, world, [d])
                lst[d] = out[1] if out[0] == "ok" else out[0]
            quiets.append((len(obs) - 1, vl, vr, lst))
            if any(n[0] == "F" and q not in vl for q, n in vr.items()):
                res.extra["remote_only_quiets"] = res.extra.get("remote_only_quiets", 0) + 1
            spec_acts.append(("report",))
            # Python mirror: first difference (search oracle; the extracted spec decides)
            if not first_bad:
                if py is not None and not state.get("py_out"):
                    if vl != py.L or vr != py.R:
                        first_bad.append((len(obs) - 1, 101, dict(real_local=_show(vl), spec_local=_show(py.L),
                                                                 real_remote=_show(vr), spec_remote=_show(py.R))))
                    else:
                        for d, got in lst.items():
                            if got != py.listing(d):
                                first_bad.append((len(obs) - 1, 102 if isinstance(got, dict) else 106,
                                                  dict(folder=d, real=got, spec=py.listing(d))))
                                break
                        bad = py.laws()
                        if bad and not first_bad:
                            first_bad.append((len(obs) - 1, 105, bad))

        def drain(bound=300):
            for i in range(bound):
                if not eng.busy():
                    res.rounds.append(i)
                    at_quiet()
                    return True
                step("intake", 0)
                step("intake", 1)
                step("sync")
            if not eng.busy():
                res.rounds.append(bound)
                at_quiet()
                return True
            return False

        def feed(act):
            spec_acts.append(act)
            if not state.get("py_out") and not py.step(act):
                state["py_out"] = True
                first_bad.append((len(obs) - 1, 103, list(act[:2])))

        r = eng.drain(300)
        if r is None:
            res.stuck = True
            res.verdict = [0, 104]
            return res
        eng.trace.clear()
        eng.on_action = on_action
        prev[0], prev[1] = world.snapshot(0), world.snapshot(1)
        init = [it.tree(prev[0]), it.tree(prev[1])]
        roots = [fl.roots[0].rstrip("/"), fl.roots[1].rstrip("/")]
        sched = case["schedule"]
        outcomes = {}
        for i, act in enumerate(sched):
            k = act[0]
            if k == "user":
                side, op = act[1], act[2]
                out = world.user(side, op)
                emit([0, side, it.op(op)], ("user", side, op[0], op[1:2], out))
                rel = op[1][len(roots[side]):]
                if out == "ok":
                    name = {("create", 1): "rcreate", ("mkdir", 1): "rmkdir", ("write", 1): "redit", ("delete", 1): "rdelete",
                            ("create", 0): "lcreate", ("mkdir", 0): "lmkdir", ("write", 0): "ledit"}[(op[0], side)]
                    nxt = sched[i + 1] if i + 1 < len(sched) else None
                    if name == "ledit" and nxt and nxt[0] == "hook" and nxt[1] == "unrequest" and nxt[3] == rel:
                        state["pending_edit"] = (rel, op[2])      # fed as one compound action if the un-request succeeds
                    else:
                        feed((name, rel) + ((op[2],) if len(op) > 2 else ()))
                outcomes["user:" + out] = outcomes.get("user:" + out, 0) + 1
            elif k == "intake":
                step("intake", act[1])
            elif k == "sync":
                step("sync")
            elif k == "drain":
                if not drain():
                    res.stuck = True
                    break
            elif k == "hook":
                out = hooks[act[1]](eng, world, act[2:])
                if act[1] == "list":
                    out = out[0]
                outcomes[act[1] + ":" + out] = outcomes.get(act[1] + ":" + out, 0) + 1
                pe = state.pop("pending_edit", None)
                if act[1] == "request" and out == "ok":
                    feed(("request", act[3]))
                elif act[1] == "unrequest":
                    if pe and out == "ok":
                        feed(("editunrequest", pe[0], pe[1]))
                    else:
                        if pe:
                            feed(("ledit", pe[0], pe[1]))
                        if out == "ok":
                            feed(("unrequest", act[3]))
            else:
                raise ValueError(k)
        if not res.stuck and not drain():
            res.stuck = True
        if not res.stuck:
            for _ in range(3):            # further rounds after quiet must change nothing
                step("intake", 0)
                step("intake", 1)
                step("sync")
            if eng.busy():
                if not drain(50):
                    res.stuck = True
            else:
                at_quiet()
        res.engine_calls = len(eng.trace)
        res.extra["outcomes"] = outcomes
        res.extra["loop_errors"] = list(eng.loop_errors)
        res.extra["quiets"] = len(quiets)
        res.extra["spec_actions"] = sum(1 for a in spec_acts if a[0] != "report")
        res.extra["notifications"] = len(eng.notifications)
        cfg = [it.path(fl.roots[0]), it.path(fl.roots[1])]
        sx_acts = [[10] if a[0] == "report" else spec_action(it, a) for a in spec_acts]
        auto = auto_sx(it, case["auto"])
        res.mon_request = [4, auto, cfg, init[0], init[1], obs]
        res.spec_request = [3, auto, sx_acts]
        verdict = []
        if not py_only and model is not None:
            verdict = model.call(res.mon_request)
            if verdict == []:
                reports = model.call(res.spec_request)
                verdict, res.detail = compare_reports(it, reports, quiets)
        if verdict == [] and first_bad:
            verdict = [first_bad[0][0], first_bad[0][1]]
            res.detail = first_bad[0][2]
            if not py_only and model is not None:
                res.extra["py_only_difference"] = True      # the mirror and the extracted spec disagree
        if res.stuck and verdict == []:
            verdict = [len(obs), 104]
        res.verdict = verdict
        if keep_engine:
            res.extra["engine"], res.extra["world"] = eng, world
        return res
    finally:
        if not keep_engine:
            try:
                eng.stop()
            except Exception:
                pass


def _show(view):
    return {p: (n[0] if n[0] == "D" else n[1][:12].decode("latin1")) for p, n in sorted(view.items())}


def compare_reports(it, reports, quiets):
    """extracted smart_spec reports vs the real trees / listings at each quiescent point"""
    if reports == [999999, 999999]:
        return [0, 103], "spec request malformed"
    names = {i: s for s, i in it.names.items()}
    contents = {i: b for b, i in it.contents.items()}

    def tree(t):
        out = {}
        for comps, node in t:
            out["/" + "/".join(names[c] for c in comps)] = ("D",) if node == [] else ("F", contents[node[0]])
        return out
    if len(reports) >= 1 and reports[0] == [0]:
        # out of the domain at action index reports[1]
        return [quiets[0][0] if quiets else 0, 103], dict(action_index=reports[1])
    for (idx, vl, vr, lst), rep in zip(quiets, reports):
        r, l, listing = rep
        if tree(l) != vl or tree(r) != vr:
            return [idx, 101], dict(real_local=_show(vl), spec_local=_show(tree(l)), real_remote=_show(vr), spec_remote=_show(tree(r)))
        spec_l = {}
        for d, items in listing:
            dn = "" if not d else "/" + "/".join(names[c] for c in d)
            spec_l[dn] = {names[n]: ("D" if k == 1 else "F", bool(s)) for n, k, s in items}
        for d, got in lst.items():
            if got != spec_l.get(d, {}):
                return [idx, 102 if isinstance(got, dict) else 106], dict(folder=d, real=got, spec=spec_l.get(d))
    if len(reports) != len(quiets):
        return [0, 103], "report count %d vs %d quiescent points" % (len(reports), len(quiets))
    return [], None


def describe(res):
    if res.verdict == []:
        return "accepted"
    i, code = res.verdict
    ev = res.events[i] if i < len(res.events) else "(end of run)"
    return "%s at observation %d %r: %r" % (MON_CODES.get(code, code), i, ev, res.detail)


# ------------------------------------------------------------------ generators (claimed-clean domain, DESIGN §4.3)
SMART_FLAVOURS = [f for f in E.ALL_FLAVOURS if not f.filt and not f.oip[0] and not f.oip[1]]
AUTOS = [["none"], ["ext", ".txt"], ["dir", "/auto"]]


class SmartGen:
    """Seeded generator: fresh paths between drains, a file is acted on from one side only between two drains,
    folder deletion bracketed by drains; request / un-request (of files and folders, by path or id, of objects the engine
    may not know yet or know without a path) and listing anywhere."""

    def __init__(self, rng, drained):
        self.rng = rng
        self.drained = drained          # a drain after every action (sequential spec semantics, every outcome compared)
        self.fl = rng.choice(SMART_FLAVOURS)
        self.auto = rng.choice(AUTOS)
        self.m = PySpec(self.auto)      # the generator's picture of the world (assumes the spec; only guides choices)
        self.sched = []
        self.counter = 0
        self.touched = {}               # rel -> side that acted on it since the last drain
        self.dead = set()               # paths freed since the last drain
        self.known = set()
        if self.auto[0] == "dir":
            self.user(1, "mkdir", "/auto")
            self.drain()

    def abs(self, side, rel):
        return self.fl.roots[side].rstrip("/") + rel

    def fresh(self, kind):
        self.counter += 1
        stem = self.rng.choice(["f", "doc", "x y", "N", "été", "a.b"])
        return "%s%d%s" % (stem, self.counter, "" if kind == "D" else self.rng.choice(["", ".txt", ".txt", ".d"]))

    def content(self):
        self.counter += 1
        n = self.rng.choice([3, 8, 40, 1500]) if self.rng.random() < 0.25 else 6
        body = ("c%d-" % self.counter).encode()
        return (body * (n // len(body) + 1))[:max(n, len(body))]

    def drain(self):
        self.sched.append(["drain"])
        self.touched = {}
        self.dead = set()
        self.known = set(self.m.R)      # remote objects the engine has certainly seen (with their paths)

    def noise(self, p=0.55):
        if self.drained:
            self.drain()
            return
        while self.rng.random() < p:
            r = self.rng.random()
            self.sched.append(["intake", 0] if r < 0.33 else ["intake", 1] if r < 0.66 else ["sync"])
        if self.rng.random() < 0.15:
            self.drain()

    def user(self, side, kind, rel, content=None):
        op = [kind, self.abs(side, rel)] + ([content] if content is not None else [])
        self.sched.append(["user", side, op])
        name = {("create", 1): "rcreate", ("mkdir", 1): "rmkdir", ("write", 1): "redit", ("delete", 1): "rdelete",
                ("create", 0): "lcreate", ("mkdir", 0): "lmkdir", ("write", 0): "ledit"}[(kind, side)]
        self.m.step((name, rel) + ((content,) if content is not None else ()))
        self.touched[rel] = side

    def dirs(self, t):
        return [""] + [p for p, n in t.items() if n[0] == "D" and p.count("/") < 3]

    def files(self, t):
        return [p for p, n in t.items() if n[0] == "F"]

    def free_for(self, rel, side):
        return self.touched.get(rel, side) == side and rel not in self.dead

    def how(self, rel=None):
        return self.rng.choice(["path_l", "path_r", "oid"])

    def one(self):
        rng, m = self.rng, self.m
        r = rng.random()
        rf = [p for p in self.files(m.R)]
        lf = [p for p in self.files(m.L)]
        remote_only = [p for p in rf if p not in m.L]
        if r < 0.05 and not self.drained:                               # a file below folders that are not mirrored yet, requested
            d = rng.choice(self.dirs(m.R))                              # once the engine knows its path (parents first)
            if d.count("/") < 2:
                top = d + "/" + self.fresh("D")
                self.user(1, "mkdir", top)
                if rng.random() < 0.6:
                    top = top + "/" + self.fresh("D")
                    self.user(1, "mkdir", top)
                f = top + "/" + self.fresh("F")
                self.user(1, "create", f, self.content())
                self.sched += [["intake", 1], ["sync"]] + ([["sync"]] if rng.random() < 0.3 else [])
                if rng.random() < 0.85:
                    self.sched.append(["hook", "request", rng.choice(["path_l", "path_r", "oid"]), f])
                    m.step(("request", f))
        elif r < 0.16:                                                  # remote create
            d = rng.choice(self.dirs(m.R))
            self.user(1, "create", d + "/" + self.fresh("F"), self.content())
        elif r < 0.22:                                                  # remote mkdir
            d = rng.choice(self.dirs(m.R))
            self.user(1, "mkdir", d + "/" + self.fresh("D"))
        elif r < 0.32 and rf:                                           # remote edit
            c = [p for p in rf if self.free_for(p, 1)]
            if c:
                self.user(1, "write", rng.choice(c), self.content())
        elif r < 0.40 and rf:                                           # remote delete (file)
            c = [p for p in rf if p not in self.touched and p not in self.dead]
            if c:
                p = rng.choice(c)
                self.user(1, "delete", p)
                self.dead.add(p)
        elif r < 0.43:                                                  # remote delete (empty folder), bracketed
            c = [p for p, n in m.R.items() if n[0] == "D" and not m._kids(m.R, p) and p != "/auto"]
            if c:
                p = rng.choice(c)
                self.drain()
                self.user(1, "delete", p)
                self.drain()
        elif r < 0.53:                                                  # local create
            d = rng.choice(self.dirs(m.L))
            self.user(0, "create", d + "/" + self.fresh("F"), self.content())
        elif r < 0.57:                                                  # local mkdir
            d = rng.choice(self.dirs(m.L))
            self.user(0, "mkdir", d + "/" + self.fresh("D"))
        elif r < 0.66 and lf:                                           # local edit
            c = [p for p in lf if self.free_for(p, 0)]
            if c:
                self.user(0, "write", rng.choice(c), self.content())
        elif r < 0.80 and rf:                                           # request
            seen = [p for p in remote_only if p in self.known] if not self.drained else remote_only
            pool = seen if (seen and rng.random() < 0.75) else (remote_only if (remote_only and rng.random() < 0.6) else rf)
            p = rng.choice(pool)
            if p not in self.dead:
                self.sched.append(["hook", "request", self.how(p), p])
                if self.drained or p in self.known:
                    m.step(("request", p))          # otherwise the engine may not know the object yet: expect NotFound
        elif r < 0.90 and rf:                                           # un-request (mostly of requested files)
            q = [p for p in m.Q if p in m.R]
            p = rng.choice(sorted(q)) if (q and rng.random() < 0.85) else rng.choice(rf)
            if p not in self.dead:
                if p in m.L and self.free_for(p, 0) and rng.random() < 0.4:
                    self.user(0, "write", p, self.content())            # newer local edit, not yet uploaded
                self.sched.append(["hook", "unrequest", self.how(p), p])
                m.step(("unrequest", p))
        elif r < 0.96:                                                  # listing
            self.sched.append(["hook", "list", rng.choice(self.dirs(m.L))])
        elif rng.random() < 0.6:                                        # request / un-request of a FOLDER (registers nothing)
            ds = [d for d in self.dirs(m.R) if d]
            if ds:
                d = rng.choice(ds)
                self.sched.append(["hook", "request", self.how(d), d])
                if rng.random() < 0.7:
                    self.noise()
                    self.sched.append(["hook", "unrequest", self.how(d), d])
        else:                                                           # request / un-request of something unknown
            self.sched.append(["hook", rng.choice(["request", "unrequest"]), self.how(), "/nothing%d" % self.counter])

    def case(self, n):
        for _ in range(n):
            self.one()
            self.noise()
        return dict(flavour=self.fl.key(), auto=self.auto, schedule=self.sched,
                    hash_mult=self.rng.choice([1, 3, 7, 11, 2654435761]))


def smart_drained(rng):
    return SmartGen(rng, True).case(rng.randint(2, 14))


def smart_interleaved(rng):
    return SmartGen(rng, False).case(rng.randint(2, 16))


# ------------------------------------------------------------------ Stream B: deterministic (independent of VERIF_SEED)
WILD_VERSION = "c20-wild-2"


def smart_wild(i):
    """fixed-seed sample of the generator (until the repairs fc0a567 / 2277c0d its 206 failing cases were the listed findings
    S-1 / S-2; Stream A was then restricted to files and to ids of objects with a known path)"""
    import random
    rng = random.Random("%s/%d" % (WILD_VERSION, i))
    return SmartGen(rng, rng.random() < 0.3).case(rng.randint(2, 14))


smart_wild.by_index = True

SLOTS = [[], [["intake", 1]], [["intake", 1], ["sync"]], [["intake", 0], ["intake", 1], ["sync"]],
         [["intake", 1], ["sync"], ["sync"]], [["drain"]]]
HOWS = ["path_l", "path_r", "oid"]


def _det_scenarios():
    """(name, builder(how, slot_a, slot_b) -> schedule) — boundary shapes of the property"""
    def U(side, kind, rel, c=None):
        root = "/remote" if side else "/local"
        return ["user", side, [kind, root + rel] + ([c] if c is not None else [])]
    R = lambda how, rel: ["hook", "request", how, rel]
    X = lambda how, rel: ["hook", "unrequest", how, rel]
    Ls = lambda d: ["hook", "list", d]
    D = ["drain"]
    sc = []
    sc.append(("parents_first", lambda h, a, b:
               [U(1, "mkdir", "/a"), U(1, "mkdir", "/a/b"), U(1, "create", "/a/b/f.txt", b"one")] + a + [R(h, "/a/b/f.txt")] + b
               + [D, U(1, "write", "/a/b/f.txt", b"two")] + a + [D]))
    sc.append(("both_directions", lambda h, a, b:
               [U(1, "create", "/f", b"r1"), D, R(h, "/f")] + a + [U(1, "write", "/f", b"r2")] + b + [D, U(0, "write", "/f", b"l3")]
               + a + [D, Ls("")]))
    sc.append(("edit_then_unrequest", lambda h, a, b:
               [U(1, "create", "/f", b"r1"), D, R(h, "/f"), D, U(0, "write", "/f", b"newer"), X(h, "/f")] + a + [Ls("")] + b
               + [D, U(1, "write", "/f", b"later")] + a + [D]))
    sc.append(("auto_then_unrequest", lambda h, a, b:
               [U(1, "mkdir", "/auto"), D, U(1, "create", "/auto/x.txt", b"a1")] + a + [D, X(h, "/auto/x.txt")] + b
               + [U(1, "write", "/auto/x.txt", b"a2")] + a + [D, R(h, "/auto/x.txt"), D]))
    sc.append(("local_creations", lambda h, a, b:
               [U(0, "mkdir", "/d"), U(0, "create", "/d/l.txt", b"L")] + a + [U(1, "create", "/g.txt", b"G")] + b
               + [D, Ls(""), Ls("/d"), R(h, "/d/l.txt"), D, X(h, "/d/l.txt"), D, Ls("/d")]))
    sc.append(("remote_delete_of_requested", lambda h, a, b:
               [U(1, "create", "/f", b"r1"), D, R(h, "/f"), D, U(1, "delete", "/f")] + a + [D, U(1, "create", "/f", b"again")] + b
               + [D, Ls(""), R(h, "/f"), D]))
    sc.append(("unknown_and_unrequested", lambda h, a, b:
               [U(1, "create", "/f", b"r1")] + a + [R(h, "/nothing"), X(h, "/nothing"), X(h, "/f")] + b + [D, R(h, "/f"), R(h, "/f"), D,
                X(h, "/f"), X(h, "/f"), D]))
    sc.append(("request_racing_remote_edit", lambda h, a, b:
               [U(1, "create", "/f", b"r1"), D, U(1, "write", "/f", b"r2")] + a + [R(h, "/f")] + b + [D]))
    sc.append(("unrequest_racing_remote_edit", lambda h, a, b:
               [U(1, "create", "/f", b"r1"), D, R(h, "/f"), D, U(1, "write", "/f", b"r2")] + a + [X(h, "/f")] + b + [D]))
    return sc


def smart_det_count():
    return len(_det_scenarios()) * len(AUTOS) * len(HOWS) * len(SLOTS) * len(SLOTS)


def smart_det(i):
    """the i-th case of the exhaustive product scenario x predicate x request flavour x two engine-step slots"""
    sc = _det_scenarios()
    i, b = divmod(i, len(SLOTS))
    i, a = divmod(i, len(SLOTS))
    i, h = divmod(i, len(HOWS))
    i, au = divmod(i, len(AUTOS))
    name, build = sc[i % len(sc)]
    fl = E.Flavour()
    return dict(flavour=fl.key(), auto=AUTOS[au], schedule=build(HOWS[h], [list(x) for x in SLOTS[a]], [list(x) for x in SLOTS[b]]),
                hash_mult=1, scenario=name)


smart_det.by_index = True
