"""Executable statement of property C11 on a REAL cloudsync SyncState.

    from harness.state_oracle import index_violations
    bad = index_violations(cs.state)        # [] when the four clauses hold

Reads _oids, _paths, _changeset_storage and the entries; calls no method of the state that
mutates anything and no provider.  Mirrors StateProofs.Idx (coq/theories/StateProofs.v):
  (i)   every live entry is found under its id, and under (path, id), on each side;
  (ii)  every id slot / (path, id) slot leads to an entry that still carries that id / path;
  (iii) per side at most one live entry owns an id;
  (iv)  the pending-changes set is exactly the set of live entries that have a change flag
        together with an id on some side (discarded entries excepted).
"live" = reachable through an id slot on either side and neither discarded nor conflicted
(SyncState.get_all()).  Each violation is one short string starting with the clause tag."""


def _discarded(e):
    return e._ignored.value in ("discarded", "irrelevant")


def _conflicted(e):
    return e._ignored.value == "conflict"


def _name(e):
    return "ent#%s" % getattr(e, "_serial", hex(id(e))[-5:])


def index_violations(state, clauses=("i", "ii", "iii", "iv")):
    bad = []
    oids, paths, cs = state._oids, state._paths, state._changeset_storage
    reach = []
    seen = set()
    for sd in (0, 1):
        for e in oids[sd].values():
            if id(e) not in seen:
                seen.add(id(e))
                reach.append(e)
    live = [e for e in reach if not _discarded(e) and not _conflicted(e)]
    if "i" in clauses:
        for e in live:
            for sd in (0, 1):
                x = e[sd]
                if x._oid is not None:
                    if oids[sd].get(x._oid) is not e:
                        bad.append("i-oid: %s side %d oid %r not indexed to it" % (_name(e), sd, x._oid))
                    if x._path:
                        if paths[sd].get(x._path, {}).get(x._oid) is not e:
                            bad.append("i-path: %s side %d (%r, %r) not indexed to it" % (_name(e), sd, x._path, x._oid))
    if "ii" in clauses:
        for sd in (0, 1):
            for o, e in oids[sd].items():
                if e[sd]._oid != o:
                    bad.append("ii-oid: side %d slot %r -> %s which carries %r" % (sd, o, _name(e), e[sd]._oid))
            for p, d in paths[sd].items():
                for o, e in d.items():
                    if e[sd]._path != p or e[sd]._oid != o:
                        bad.append("ii-path: side %d slot (%r, %r) -> %s which carries (%r, %r)"
                                   % (sd, p, o, _name(e), e[sd]._path, e[sd]._oid))
    if "iii" in clauses:
        for sd in (0, 1):
            owner = {}
            for e in live:
                o = e[sd]._oid
                if o is None:
                    continue
                if o in owner and owner[o] is not e:
                    bad.append("iii: side %d oid %r owned by %s and %s" % (sd, o, _name(owner[o]), _name(e)))
                owner[o] = e
    if "iv" in clauses:
        def flagged(e):
            return any(e[sd]._changed and e[sd]._oid for sd in (0, 1))
        for e in cs:
            if _discarded(e):
                continue
            if not flagged(e):
                bad.append("iv-extra: %s in the change set without (change flag and id) on any side" % _name(e))
            elif id(e) not in seen:
                bad.append("iv-forgotten: %s in the change set but not reachable through any id slot" % _name(e))
        for e in reach:
            if not _discarded(e) and flagged(e) and e not in cs:
                bad.append("iv-missing: %s has a change flag with an id but is not in the change set" % _name(e))
    return bad
