"""Stream B generator 2 — FROZEN (version below).  The *exhaustive tiny scope* of DESIGN §4.3: every ordered pair
and every ordered triple of DISTINCT members of a fixed operation alphabet over one small nested base tree, on every
id-style combination, under a fixed systematic schedule set.  ENUMERATED, not random: `case(index)` is a pure
function of the index.  Case ids listed in known_findings.json depend on every line of this file: do not edit it;
add a new version instead.

Base tree (created on side 0 under its root and synchronised before the observed run starts):
    d/            folder            d/f = b"f0"    d/k = b"k0"
    e/            empty folder
    g  = b"g0"    top-level file
    h/            folder            h/x = b"x0"

Main alphabet A (12 operations; performed by the *acting side* s on the objects d, f, k, g, e).  Paths are resolved
DYNAMICALLY against a small symbolic state (where folder d is now, what f is called now, where k and g are now,
whether e still exists), so "write f" after "rename f" + "move d into e" writes e/d/r:
     0 rnf   rename f inside d            <d>/f -> <d>/r
     1 wrf   write f                      <d>/<f> := b"f1"
     2 rnd   rename folder d in place     <parent>/<dname> -> <parent>/n
     3 mvd   move folder d into e         <d> -> /e/<dname>
     4 crt   create a new file in d       <d>/c = b"c0"
     5 mkd   mkdir in d                   <d>/m
     6 dlk   delete k                     (wherever k is now)
     7 mvk   move k out of d to the top   <d>/k -> /k
     8 mvg   move g into d                /g -> <d>/g
     9 wrg   write g                      (wherever g is now) := b"g1"
    10 dlg   delete g                     (wherever g is now)
    11 rme   rmdir e                      /e   (refused by the provider when d is inside it)
An operation whose target no longer exists (delete k, then move k) is still issued at the target's last path: the
provider refuses or skips it and the run goes on (the monitor's tree model does the same: guard TIE).

Other-side alphabet H (5 operations, two-sided variant only; performed by side 1-s on the top-level object h):
     0 wrx   write h/x := b"x1"      1 rnx   rename h/x -> h/y      2 rnh   rename h -> j
     3 dlx   delete h/x              4 crz   create h/z = b"z0"

Histories
    one-sided pair    (a, b)        a != b in A                         12*11    = 132
    two-sided pair    (a, u)        a in A by side s, u in H by 1-s     12*5     = 60
    one-sided triple  (a, b, c)     pairwise distinct in A              12*11*10 = 1320
    two-sided triple  (a, u, b)     a != b in A by s, u in H by 1-s     132*5    = 660
  (two-sided: the SECOND operation is performed by the other side on a different top-level object.)
  Lists are in lexicographic order of the alphabet numbers, positions read left to right.

Flavours (8): oid_is_path in [(F,F), (F,T), (T,F), (T,T)] with case mode (True, True), then the same four with case
mode (False, False); unfiltered events, roots by path, roots /local and /remote.
Acting side s in (0, 1).

Schedules (4), o1..on the user operations, p(i) the side that performed o_i:
    S0  o1 .. on back to back                                             (engine sees everything at once)
    S1  between o_i and o_i+1:  intake p(i), sync                         (the engine has begun to act on o_i)
    S2  after every o_i:        intake 0, intake 1  (no sync)             (the engine knows o_i, has not acted)
    S3  between o_i and o_i+1:  intake p(i), sync, sync, intake 1-p(i), sync
                                                                          (further along, echo of its own action taken in)
  run_case drains to quiet after the last schedule action and then checks for echo; no explicit drain is emitted.
  (A 'sync step only, nothing taken in' schedule is the same run as S0: with no event taken in the engine is idle.)

ENUMERATION ORDER.  A block is a history list L; inside a block
      index_in_block = ((h * 8 + flavour) * 2 + side) * 4 + schedule        (schedule varies fastest, history slowest)
  case(index)  ALL       : block one-sided pairs  [0, 8448)        block two-sided pairs  [8448, 12288)
                           block one-sided triples [12288, 96768)  block two-sided triples [96768, 139008)
  one(index)   ONE-SIDED : pairs [0, 8448), triples [8448, 92928)
  two(index)   TWO-SIDED : pairs [0, 3840), triples [3840, 46080)
  so every pair case precedes every triple case: N_PAIRS (= 12288), N_PAIRS_ONE (= 8448), N_PAIRS_TWO (= 3840).
  Tier sizes (first N indices of an enumeration) are chosen in harness/streamb.py (PLAN), not here.

Case format = streamb_gen.wild:  dict(flavour, base, schedule, hash_mult, mode)
    one-sided mode  origin=s,    check_spec=True, no_conflicted=True, cov_every_step=False
    two-sided mode  origin=None, check_spec=True, no_conflicted=True, cov_every_step=False
    hash_mult = [1, 3, 7, 11][(h + flavour + side) % 4]   (permutes SyncEntry set order; part of the case)
"""

VERSION = "streamB-v2-nest"

ROOTS = ["/local", "/remote"]

FLAVOUR_KEYS = [[list(o), list(c), False, "path", list(ROOTS)]
                for c in [(True, True), (False, False)]
                for o in [(False, False), (False, True), (True, False), (True, True)]]

A_NAMES = ["rnf", "wrf", "rnd", "mvd", "crt", "mkd", "dlk", "mvk", "mvg", "wrg", "dlg", "rme"]
H_NAMES = ["wrx", "rnx", "rnh", "dlx", "crz"]
SCHEDULES = ["S0", "S1", "S2", "S3"]

NA, NH, NF, NS = len(A_NAMES), len(H_NAMES), len(FLAVOUR_KEYS), len(SCHEDULES)
PER_HISTORY = NF * 2 * NS          # 64 cases per history

# histories: tuples of ("A", i) / ("H", i)
PAIRS_ONE = [(("A", a), ("A", b)) for a in range(NA) for b in range(NA) if a != b]
PAIRS_TWO = [(("A", a), ("H", u)) for a in range(NA) for u in range(NH)]
TRIPLES_ONE = [(("A", a), ("A", b), ("A", c)) for a in range(NA) for b in range(NA) for c in range(NA)
               if a != b and a != c and b != c]
TRIPLES_TWO = [(("A", a), ("H", u), ("A", b)) for a in range(NA) for u in range(NH) for b in range(NA) if a != b]

N_PAIRS_ONE = len(PAIRS_ONE) * PER_HISTORY        # 8448
N_PAIRS_TWO = len(PAIRS_TWO) * PER_HISTORY        # 3840
N_PAIRS = N_PAIRS_ONE + N_PAIRS_TWO               # 12288
N_TRIPLES_ONE = len(TRIPLES_ONE) * PER_HISTORY    # 84480
N_TRIPLES_TWO = len(TRIPLES_TWO) * PER_HISTORY    # 42240
N_ONE = N_PAIRS_ONE + N_TRIPLES_ONE               # 92928
N_TWO = N_PAIRS_TWO + N_TRIPLES_TWO               # 46080
N_ALL = N_ONE + N_TWO                             # 139008

BLOCKS_ALL = [("one", PAIRS_ONE), ("two", PAIRS_TWO), ("one", TRIPLES_ONE), ("two", TRIPLES_TWO)]
BLOCKS_ONE = [("one", PAIRS_ONE), ("one", TRIPLES_ONE)]
BLOCKS_TWO = [("two", PAIRS_TWO), ("two", TRIPLES_TWO)]


def base_ops():
    r = ROOTS[0]
    return [["mkdir", r + "/d"], ["create", r + "/d/f", b"f0"], ["create", r + "/d/k", b"k0"], ["mkdir", r + "/e"],
            ["create", r + "/g", b"g0"], ["mkdir", r + "/h"], ["create", r + "/h/x", b"x0"]]


class _State:
    """where the objects of the base tree are now (relative paths), assuming every issued operation that CAN succeed
    did succeed"""

    def __init__(self):
        self.dparent = ""        # "" or "/e"
        self.dname = "d"         # "d" or "n"
        self.f = "f"             # name of f inside d
        self.k = "in"            # "in" (d/k) | "top" (/k) | "gone" (last path kept in klast)
        self.klast = None
        self.g = "top"           # "top" (/g) | "in" (d/g) | "gone"
        self.glast = None
        self.e = True
        self.hname = "h"
        self.x = "x"

    def d(self):
        return self.dparent + "/" + self.dname

    def kpath(self):
        if self.k == "in":
            return self.d() + "/k"
        if self.k == "top":
            return "/k"
        return self.klast

    def gpath(self):
        if self.g == "top":
            return "/g"
        if self.g == "in":
            return self.d() + "/g"
        return self.glast

    def op_a(self, i):
        """relative-path form of main-alphabet operation i in the current state; advances the state"""
        n = A_NAMES[i]
        d = self.d()
        if n == "rnf":
            src, self.f = d + "/" + self.f, "r"
            return ["rename", src, d + "/r"]
        if n == "wrf":
            return ["write", d + "/" + self.f, b"f1"]
        if n == "rnd":
            self.dname = "n"
            return ["rename", d, self.d()]
        if n == "mvd":
            if self.e and self.dparent == "":
                self.dparent = "/e"
                return ["rename", d, self.d()]
            return ["rename", d, "/e/" + self.dname]      # e is gone (refused) or d is already there (no change)
        if n == "crt":
            return ["create", d + "/c", b"c0"]
        if n == "mkd":
            return ["mkdir", d + "/m"]
        if n == "dlk":
            p = self.kpath()
            if self.k != "gone":
                self.klast, self.k = p, "gone"
            return ["delete", p]
        if n == "mvk":
            p = self.kpath()
            if self.k == "in":
                self.k = "top"
            return ["rename", p, "/k"]
        if n == "mvg":
            p = self.gpath()
            if self.g == "top":
                self.g = "in"
            return ["rename", p, d + "/g"]
        if n == "wrg":
            return ["write", self.gpath(), b"g1"]
        if n == "dlg":
            p = self.gpath()
            if self.g != "gone":
                self.glast, self.g = p, "gone"
            return ["delete", p]
        if n == "rme":
            if self.dparent != "/e":
                self.e = False
            return ["delete", "/e"]
        raise ValueError(n)

    def op_h(self, i):
        n = H_NAMES[i]
        h = "/" + self.hname
        if n == "wrx":
            return ["write", h + "/" + self.x, b"x1"]
        if n == "rnx":
            src, self.x = h + "/" + self.x, "y"
            return ["rename", src, h + "/y"]
        if n == "rnh":
            self.hname = "j"
            return ["rename", h, "/j"]
        if n == "dlx":
            return ["delete", h + "/" + self.x]
        if n == "crz":
            return ["create", h + "/z", b"z0"]
        raise ValueError(n)


def _abs(side, op):
    r = ROOTS[side]
    if op[0] == "rename":
        return [op[0], r + op[1], r + op[2]]
    return [op[0], r + op[1]] + list(op[2:])


def history_ops(hist, side):
    """[(performing side, op with absolute paths)] for a history on acting side `side`"""
    st = _State()
    out = []
    for alpha, i in hist:
        if alpha == "A":
            out.append((side, _abs(side, st.op_a(i))))
        else:
            out.append((1 - side, _abs(1 - side, st.op_h(i))))
    return out


def schedule(ops, s):
    """ops: [(side, op)], s: index into SCHEDULES"""
    sched = []
    n = len(ops)
    for j, (p, op) in enumerate(ops):
        sched.append(["user", p, op])
        last = j == n - 1
        if s == 1 and not last:
            sched += [["intake", p], ["sync"]]
        elif s == 2:
            sched += [["intake", 0], ["intake", 1]]
        elif s == 3 and not last:
            sched += [["intake", p], ["sync"], ["sync"], ["intake", 1 - p], ["sync"]]
    return sched


def coords(index, blocks):
    """index -> (variant 'one'|'two', history tuple, h = number of the history in its list, flavour, side, schedule)"""
    if index < 0:
        raise IndexError(index)
    for variant, hists in blocks:
        size = len(hists) * PER_HISTORY
        if index < size:
            s = index % NS
            side = (index // NS) % 2
            fl = (index // (NS * 2)) % NF
            h = index // PER_HISTORY
            return variant, hists[h], h, fl, side, s
        index -= size
    raise IndexError("beyond the end of the enumeration")


def build(index, blocks):
    variant, hist, h, fl, side, s = coords(index, blocks)
    ops = history_ops(hist, side)
    mode = dict(origin=side if variant == "one" else None, check_spec=True, no_conflicted=True, cov_every_step=False)
    return dict(flavour=[list(x) if isinstance(x, list) else x for x in FLAVOUR_KEYS[fl]], base=base_ops(),
                schedule=schedule(ops, s), hash_mult=[1, 3, 7, 11][(h + fl + side) % 4], mode=mode)


def case(index):
    return build(index, BLOCKS_ALL)


def one(index):
    return build(index, BLOCKS_ONE)


def two(index):
    return build(index, BLOCKS_TWO)


def label(index, blocks=None):
    """readable coordinates of a case, e.g. 'one:rnf,rnd oip=[True, False] cs=[True, True] side=0 S0'"""
    variant, hist, h, fl, side, s = coords(index, blocks or BLOCKS_ALL)
    names = ",".join((A_NAMES if a == "A" else H_NAMES)[i] for a, i in hist)
    fk = FLAVOUR_KEYS[fl]
    return "%s:%s oip=%s cs=%s side=%d %s" % (variant, names, fk[0], fk[1], side, SCHEDULES[s])
