"""Fail-closed Python-ast -> Gallina translator (DESIGN 2.4) for the small pure decision predicates the engine's
algorithm rests on:

 (A) cloudsync/sync/state.py -> coq/theories/GenEntryPred.v
       SideState.is_corrupt / corrupt_exists / corrupt_gone / needs_sync,
       SyncEntry.paths_match / paths_differ / hash_conflict / is_path_change / is_deletion / is_creation / is_rename /
       needs_sync / is_discarded / is_irrelevant / is_conflicted / is_trash / is_temp_rename / is_latest / is_latest_side
     over the vocabulary of EntryPredModel.v (pyres = class of the Python value returned; pand / por / pnot = Python's
     `and` / `or` / `not` on classes; cls_* = class of a field value).  EntryPredGenEq.v proves every gen_ definition
     equal to the hand model.
 (B) cloudsync/runnable.py -> coq/theories/GenBackoff.v
       Runnable.__increment_backoff, the try/except around do() in Runnable.run (where in_backoff is reset or
       incremented), Runnable.nothing_happened, the sleep selection at the bottom of the loop,
     over LoopModel's Q arithmetic.  BackoffGenEq.v proves them equal to LoopModel.increment / after_do / sleep_of.

Everything is read from the CURRENT source files of the imported cloudsync package (the tree under test).  Every ast
node outside the typed whitelist raises TranslateError naming the function; harness/entrypred.py turns that into
VIOLATION ... no-failing-input-found (build.regen_all meanwhile restores coq/gen_baseline/).

Types of translated expressions:
  res   a pyres term (class of a Python value)        bool  a Python bool held in a field (force_sync)
  ch    the `changed` stamp (chv)                      str   Optional[str] field (strv)
  hash  Optional[bytes] field (hashv)                  ex    Exists member          oex  Optional[Exists]
  ign   IgnoreReason member                            Q     a number               side LOCAL / REMOTE
Truth value (`and`, `or`, `not`, `if`) is defined for res / bool / ch / str / hash only: Exists.__bool__ raises and
numbers never occur in a truth context in these functions."""
import ast
import os
import textwrap


class TranslateError(Exception):
    pass


def _fail(fname, node, why):
    raise TranslateError("%s: %s at line %s: %s" % (fname, why, getattr(node, "lineno", "?"),
                                                     (ast.dump(node)[:160] if isinstance(node, ast.AST) else repr(node))))


def _src_of(mod):
    path = mod.__file__
    if path.endswith(".pyc"):
        path = path[:-1]
    with open(path, encoding="utf-8") as f:
        return f.read()


def _class(tree, name, fname):
    for n in tree.body:
        if isinstance(n, ast.ClassDef) and n.name == name:
            return n
    raise TranslateError("%s: class %s not found" % (fname, name))


def _func(cls, name):
    found = [n for n in cls.body if isinstance(n, ast.FunctionDef) and n.name == name]
    if len(found) != 1:
        raise TranslateError("%s.%s: expected exactly one definition, found %d" % (cls.name, name, len(found)))
    return found[0]


def _body(fn):
    """statements without the docstring"""
    b = list(fn.body)
    if b and isinstance(b[0], ast.Expr) and isinstance(b[0].value, ast.Constant) and isinstance(b[0].value.value, str):
        b = b[1:]
    return b


def _same(fname, node, text):
    want = ast.parse(textwrap.dedent(text)).body[0]
    if ast.dump(node) != ast.dump(want):
        _fail(fname, node, "differs from the expected `%s`" % text.strip().split("\n")[0])


def _cmt(text):
    return text.replace("(*", "( *").replace("*)", "* )")


# ===================================================================================================== (A) state.py
EX = {"UNKNOWN": "XUnknown", "EXISTS": "XExists", "TRASHED": "XTrashed", "MISSING": "XMissing",
      "LIKELY_TRASHED": "XLikelyTrashed", "CORRUPT": "XCorrupt"}
IGN = {"NONE": "INone", "DISCARDED": "IDiscarded", "CONFLICT": "IConflict", "TEMP_RENAME": "ITempRename",
       "IRRELEVANT": "IIrrelevant"}
FIELDS = {"changed": ("ch", "s_changed"), "oid": ("str", "s_oid"), "hash": ("hash", "s_hash"),
          "sync_hash": ("hash", "s_sync_hash"), "path": ("str", "s_path"), "sync_path": ("str", "s_sync_path"),
          "exists": ("ex", "s_exists"), "force_sync": ("bool", "s_force"), "saved_exists": ("oex", "s_saved"),
          "last_gotten": ("Q", "s_last_gotten")}
EQB = {"ex": "ex_eqb", "oex": "oex_eqb", "ign": "ign_eqb", "hash": "hash_eqb"}

# (class, python name, sided, property, generated name); order = dependency order of the generated file
FUNCS = [
    ("SideState", "is_corrupt", True, True, "gen_is_corrupt"),
    ("SideState", "corrupt_exists", True, True, "gen_corrupt_exists"),
    ("SideState", "corrupt_gone", True, True, "gen_corrupt_gone"),
    ("SyncEntry", "paths_match", True, False, "gen_paths_match"),
    ("SyncEntry", "paths_differ", True, False, "gen_paths_differ"),
    ("SideState", "needs_sync", True, False, "gen_side_needs_sync"),
    ("SyncEntry", "hash_conflict", False, False, "gen_hash_conflict"),
    ("SyncEntry", "is_path_change", True, False, "gen_is_path_change"),
    ("SyncEntry", "is_deletion", True, False, "gen_is_deletion"),
    ("SyncEntry", "is_creation", True, False, "gen_is_creation"),
    ("SyncEntry", "is_rename", True, False, "gen_is_rename"),
    ("SyncEntry", "needs_sync", False, False, "gen_needs_sync"),
    ("SyncEntry", "is_discarded", False, True, "gen_is_discarded"),
    ("SyncEntry", "is_irrelevant", False, True, "gen_is_irrelevant"),
    ("SyncEntry", "is_conflicted", False, True, "gen_is_conflicted"),
    ("SyncEntry", "is_trash", False, True, "gen_is_trash"),
    ("SyncEntry", "is_temp_rename", False, True, "gen_is_temp_rename"),
    ("SyncEntry", "is_latest", False, False, "gen_is_latest"),
    ("SyncEntry", "is_latest_side", True, False, "gen_is_latest_side"),
]

HEADER_A = """(* GenEntryPred.v -- GENERATED by harness/entry_translator.py from the current source of
   cloudsync/sync/state.py (SideState / SyncEntry decision predicates).  Never edit by hand: every check regenerates
   it (harness/build.py regen_all); EntryPredGenEq.v proves each definition equal to EntryPredModel's. *)
From Coq Require Import QArith Bool List NArith.
From CS Require Import LoopModel EntryPredModel.
Import ListNotations.
Open Scope Q_scope.
"""


class Tr:
    """translator of one function.  cls = 'SideState' (self is side `s` of entry `e`) or 'SyncEntry' (self is `e`);
    done = {(class, name): (generated name, sided, property)} of the functions translated so far"""

    def __init__(self, fname, cls, done):
        self.fname = fname
        self.cls = cls
        self.done = done
        self.fresh = 0

    def fail(self, node, why):
        _fail(self.fname, node, why)

    # ---- sides and side states
    def side_of(self, n, env):
        if isinstance(n, ast.Constant) and type(n.value) is int and n.value in (0, 1):
            return "SL" if n.value == 0 else "SR"
        if isinstance(n, ast.Name) and n.id in ("LOCAL", "REMOTE") and n.id not in env:
            return "SL" if n.id == "LOCAL" else "SR"
        if isinstance(n, ast.Name) and n.id in env and env[n.id][0] == "side":
            return env[n.id][1]
        if (isinstance(n, ast.Subscript) and isinstance(n.value, ast.Name) and n.value.id == "OTHER_SIDE"
                and "OTHER_SIDE" not in env):
            return "(other %s)" % self.side_of(n.slice, env)
        if (self.cls == "SideState" and isinstance(n, ast.Attribute) and n.attr in ("side", "_side")
                and isinstance(n.value, ast.Name) and n.value.id == "self"):
            return "s"
        self.fail(n, "not a side (0 / 1 / LOCAL / REMOTE / a side parameter / OTHER_SIDE[side])")

    def state_of(self, n, env):
        """-> Coq side term when n denotes a SideState, else None"""
        if self.cls == "SideState":
            if isinstance(n, ast.Name) and n.id == "self":
                return "s"
            return None
        if isinstance(n, ast.Subscript) and isinstance(n.value, ast.Name) and n.value.id == "self":
            return self.side_of(n.slice, env)
        return None

    def entry_of(self, n):
        """is n the SyncEntry itself?"""
        if self.cls == "SyncEntry":
            return isinstance(n, ast.Name) and n.id == "self"
        return (isinstance(n, ast.Attribute) and n.attr in ("parent", "_parent") and isinstance(n.value, ast.Name)
                and n.value.id == "self")

    def call_done(self, n, cls, name, side, want_property):
        key = (cls, name)
        if key not in self.done:
            self.fail(n, "reference to %s.%s, which is not (yet) translated" % key)
        gen, sided, prop = self.done[key]
        if prop != want_property:
            self.fail(n, "%s.%s is %s" % (cls, name, "a property, not a method" if prop else "a method, not a property"))
        if sided != (side is not None):
            self.fail(n, "wrong number of arguments for %s.%s" % key)
        return "res", ("(%s e %s)" % (gen, side) if sided else "(%s e)" % gen)

    # ---- expressions
    def expr(self, n, env):
        if isinstance(n, ast.Constant):
            if n.value is True:
                return "res", "RTrue"
            if n.value is False:
                return "res", "RFalse"
            if n.value is None:
                return "res", "RNone"
            if type(n.value) is int and 0 <= n.value < 1000:
                return "Q", "%d" % n.value
            self.fail(n, "constant outside the whitelist")
        if isinstance(n, ast.Name):
            if n.id in env:
                return env[n.id]
            if n.id in EX:
                return "ex", EX[n.id]
            if n.id in ("LOCAL", "REMOTE"):
                return "side", self.side_of(n, env)
            self.fail(n, "unknown name")
        if isinstance(n, ast.Attribute):
            if isinstance(n.value, ast.Name) and n.value.id == "IgnoreReason" and n.attr in IGN:
                return "ign", IGN[n.attr]
            if isinstance(n.value, ast.Name) and n.value.id == "Exists" and n.attr in EX:
                return "ex", EX[n.attr]
            sd = self.state_of(n.value, env)
            if sd is not None:
                a = n.attr[1:] if n.attr.startswith("_") else n.attr
                if a in FIELDS:
                    t, f = FIELDS[a]
                    return t, "(%s (sd e %s))" % (f, sd)
                return self.call_done(n, "SideState", n.attr, sd, True)
            if self.entry_of(n.value):
                if n.attr in ("ignored", "_ignored"):
                    return "ign", "(e_ignored e)"
                return self.call_done(n, "SyncEntry", n.attr, None, True)
            self.fail(n, "attribute outside the whitelist")
        if isinstance(n, ast.Call):
            if n.keywords:
                self.fail(n, "call with keyword arguments")
            f = n.func
            if isinstance(f, ast.Name) and f.id in ("max", "min") and f.id not in env and len(n.args) == 2:
                (ta, a), (tb, b) = self.expr(n.args[0], env), self.expr(n.args[1], env)
                if ta == "Q" and tb == "Q":
                    return "Q", "(py_%s %s %s)" % (f.id, a, b)
                self.fail(n, "%s of non-numbers (%s, %s)" % (f.id, ta, tb))
            if isinstance(f, ast.Attribute):
                sd = self.state_of(f.value, env)
                if sd is not None:
                    if n.args:
                        self.fail(n, "SideState method called with arguments")
                    return self.call_done(n, "SideState", f.attr, sd, False)
                if self.entry_of(f.value):
                    if len(n.args) == 0:
                        return self.call_done(n, "SyncEntry", f.attr, None, False)
                    if len(n.args) == 1:
                        return self.call_done(n, "SyncEntry", f.attr, self.side_of(n.args[0], env), False)
            self.fail(n, "call outside the whitelist")
        if isinstance(n, ast.UnaryOp) and isinstance(n.op, ast.Not):
            return "res", "(pnot %s)" % self.truthval(n.operand, env)
        if isinstance(n, ast.BoolOp):
            if isinstance(n.op, ast.Or) and len(n.values) == 2:
                t0, a = self.expr(n.values[0], env)
                if t0 == "ch":
                    t1, b = self.expr(n.values[1], env)
                    if (t1, b) == ("Q", "0"):
                        return "Q", "(ch_orz %s)" % a                     # `stamp or 0`
                    self.fail(n, "`stamp or <x>` with x other than 0")
            parts = [self.truthval(v, env) for v in n.values]
            op = "pand" if isinstance(n.op, ast.And) else "por"
            out = parts[-1]
            for p in reversed(parts[:-1]):
                out = "(%s %s %s)" % (op, p, out)
            return "res", out
        if isinstance(n, ast.Compare):
            if len(n.ops) != 1 or len(n.comparators) != 1:
                self.fail(n, "chained comparison")
            op, l, r = n.ops[0], n.left, n.comparators[0]
            if isinstance(op, (ast.Is, ast.IsNot)):
                if not (isinstance(r, ast.Constant) and r.value is None):
                    self.fail(n, "`is` with something other than None")
                t, a = self.expr(l, env)
                if t == "str":
                    b = "(str_is_none %s)" % a
                elif t == "oex":
                    b = "(oex_eqb %s None)" % a
                else:
                    self.fail(n, "`is None` on a value of type %s" % t)
                return "res", "(rb %s)" % (b if isinstance(op, ast.Is) else "(negb %s)" % b)
            if isinstance(op, (ast.Eq, ast.NotEq)):
                b = self.eqb(n, self.expr(l, env), self.expr(r, env))
                return "res", "(rb %s)" % (b if isinstance(op, ast.Eq) else "(negb %s)" % b)
            if isinstance(op, (ast.In, ast.NotIn)):
                if not (isinstance(r, ast.Tuple) and r.elts):
                    self.fail(n, "`in` with something other than a non-empty tuple display")
                lt = self.expr(l, env)
                alts = [self.eqb(n, lt, self.expr(x, env)) for x in r.elts]
                b = alts[-1]
                for a in reversed(alts[:-1]):
                    b = "(%s || %s)" % (a, b)
                return "res", "(rb %s)" % (b if isinstance(op, ast.In) else "(negb %s)" % b)
            (ta, a), (tb, b) = self.expr(l, env), self.expr(r, env)
            if ta != "Q" or tb != "Q":
                self.fail(n, "ordering comparison of non-numbers (%s, %s)" % (ta, tb))
            if isinstance(op, ast.Lt):
                return "res", "(rb (Qltb %s %s))" % (a, b)
            if isinstance(op, ast.Gt):
                return "res", "(rb (Qltb %s %s))" % (b, a)
            if isinstance(op, ast.LtE):
                return "res", "(rb (Qle_bool %s %s))" % (a, b)
            if isinstance(op, ast.GtE):
                return "res", "(rb (Qle_bool %s %s))" % (b, a)
            self.fail(n, "comparison operator outside the whitelist")
        self.fail(n, "expression outside the whitelist")

    def eqb(self, n, a, b):
        (ta, xa), (tb, xb) = a, b
        if ta == "oex" and tb == "ex":
            tb, xb = "oex", "(Some %s)" % xb
        if ta == "ex" and tb == "oex":
            ta, xa = "oex", "(Some %s)" % xa
        if ta == "oex" and (tb, xb) == ("res", "RNone"):
            tb, xb = "oex", "None"
        if ta != tb or ta not in EQB:
            self.fail(n, "equality between values of types %s and %s" % (ta, tb))
        return "(%s %s %s)" % (EQB[ta], xa, xb)

    def truthval(self, n, env):
        """the expression as a pyres term (operand of and / or / not / if / return)"""
        t, x = self.expr(n, env)
        if t == "res":
            return x
        if t == "bool":
            return "(rb %s)" % x
        if t in ("ch", "str", "hash"):
            return "(cls_%s %s)" % (t, x)
        self.fail(n, "a value of type %s in a truth-value / result position" % t)

    # ---- statements: a block is translated to the pyres term the function returns from there; k = what follows
    # the block when control falls off its end (None: the end of the function)
    def block(self, stmts, env, k=None):
        if not stmts:
            return k(env) if k else "RNone"             # falling off the end of a function returns None
        s, rest = stmts[0], stmts[1:]
        if isinstance(s, ast.Expr) and isinstance(s.value, ast.Constant) and isinstance(s.value.value, str):
            return self.block(rest, env, k)
        if isinstance(s, ast.Return):
            return "RNone" if s.value is None else self.truthval(s.value, env)
        if isinstance(s, ast.If):
            t = self.truthval(s.test, env)
            return "(if truth %s then %s else %s)" % (t, self.block(list(s.body) + rest, env, k),
                                                      self.block(list(s.orelse) + rest, env, k))
        if isinstance(s, ast.Assign) and len(s.targets) == 1 and isinstance(s.targets[0], ast.Name):
            name = s.targets[0].id
            t, x = self.expr(s.value, env)
            if t not in ("Q", "res"):
                self.fail(s, "local variable of type %s" % t)
            self.fresh += 1
            v = "v_%s%s" % (name, "" if self.fresh == 1 else str(self.fresh))
            env2 = dict(env)
            env2[name] = (t, v)
            return "(let %s := %s in %s)" % (v, x, self.block(rest, env2, k))
        if (isinstance(s, ast.For) and isinstance(s.target, ast.Name) and not s.orelse and isinstance(s.iter, ast.Tuple)
                and s.iter.elts):
            # a loop over a tuple display of sides is unrolled; the loop variable is a side constant in each copy
            sides = [self.side_of(x, env) for x in s.iter.elts]
            for st in ast.walk(s):
                if isinstance(st, (ast.Break, ast.Continue)):
                    self.fail(st, "break / continue inside a for loop")

            def iteration(i, env_i):
                if i == len(sides):
                    return self.block(rest, env_i, k)   # (the loop variable keeps its last value, as in Python)
                env2 = dict(env_i)
                env2[s.target.id] = ("side", sides[i])
                return self.block(list(s.body), env2, lambda e: iteration(i + 1, e))
            return iteration(0, env)
        self.fail(s, "statement outside the whitelist")


def _check_environment(tree, types_tree):
    """the facts about the module the reading of the functions depends on"""
    f = "cloudsync.sync.state"
    seen = {}
    for n in tree.body:
        if isinstance(n, ast.Assign) and len(n.targets) == 1 and isinstance(n.targets[0], ast.Name):
            seen.setdefault(n.targets[0].id, []).append(n)
    if len(seen.get("OTHER_SIDE", [])) != 1:
        raise TranslateError(f + ": OTHER_SIDE is not assigned exactly once at module level")
    _same(f, seen["OTHER_SIDE"][0], "OTHER_SIDE = (1, 0)")
    for name in EX:
        if len(seen.get(name, [])) != 1:
            raise TranslateError(f + ": %s is not assigned exactly once at module level" % name)
        _same(f, seen[name][0], "%s = Exists.%s" % (name, name))
    ex = _class(tree, "Exists", f)
    members = [n.targets[0].id for n in ex.body if isinstance(n, ast.Assign) and isinstance(n.targets[0], ast.Name)]
    if members != ["UNKNOWN", "EXISTS", "TRASHED", "MISSING", "LIKELY_TRASHED", "CORRUPT"]:
        raise TranslateError(f + ": members of Exists changed: %s" % members)
    vals = [n.value.value for n in ex.body if isinstance(n, ast.Assign) and isinstance(n.value, ast.Constant)]
    if len(set(vals)) != 6:
        raise TranslateError(f + ": Exists members are not six distinct constants (aliases would change `==`)")
    ig = _class(types_tree, "IgnoreReason", "cloudsync.types")
    members = [n.targets[0].id for n in ig.body if isinstance(n, ast.Assign) and isinstance(n.targets[0], ast.Name)]
    if members != ["NONE", "DISCARDED", "CONFLICT", "TEMP_RENAME", "IRRELEVANT"]:
        raise TranslateError("cloudsync.types: members of IgnoreReason changed: %s" % members)
    vals = [n.value.value for n in ig.body if isinstance(n, ast.Assign) and isinstance(n.value, ast.Constant)]
    if len(set(vals)) != 5:
        raise TranslateError("cloudsync.types: IgnoreReason members are not five distinct constants")
    tseen = {}
    for n in types_tree.body:
        if isinstance(n, ast.Assign) and len(n.targets) == 1 and isinstance(n.targets[0], ast.Name):
            tseen.setdefault(n.targets[0].id, []).append(n)
    for name, val in (("LOCAL", 0), ("REMOTE", 1)):
        if len(tseen.get(name, [])) != 1:
            raise TranslateError("cloudsync.types: %s is not assigned exactly once" % name)
        _same("cloudsync.types", tseen[name][0], "%s = %d" % (name, val))
        if name in seen:
            raise TranslateError(f + ": %s is rebound at module level" % name)
    # self[i] is the i-th side state; self.x is self._x for both classes
    se = _class(tree, "SyncEntry", f)
    gi = _func(se, "__getitem__")
    if [a.arg for a in gi.args.args] != ["self", "i"] or len(_body(gi)) != 1:
        _fail("SyncEntry.__getitem__", gi, "unexpected definition")
    _same("SyncEntry.__getitem__", _body(gi)[0], "return self.__states[i]")
    for cname in ("SyncEntry", "SideState"):
        ga = _func(_class(tree, cname, f), "__getattr__")
        b = _body(ga)
        if [a.arg for a in ga.args.args] != ["self", "k"] or len(b) != 2:
            _fail(cname + ".__getattr__", ga, "unexpected definition")
        _same(cname + ".__getattr__", b[0], 'if k[0] != "_":\n    return getattr(self, "_" + k)')
        if not isinstance(b[1], ast.Raise):
            _fail(cname + ".__getattr__", b[1], "expected a raise")
    # none of the translated names is shadowed by a class attribute / a second definition: _func checks uniqueness


def _translate_state(src, types_src):
    tree = ast.parse(src)
    types_tree = ast.parse(types_src)
    _check_environment(tree, types_tree)
    out = [HEADER_A]
    done = {}
    ranges = {}
    for cls, name, sided, prop, gen in FUNCS:
        fname = "%s.%s" % (cls, name)
        fn = _func(_class(tree, cls, "cloudsync.sync.state"), name)
        decos = [ast.dump(d) for d in fn.decorator_list]
        want = [ast.dump(ast.parse("property", mode="eval").body)] if prop else []
        if decos != want:
            _fail(fname, fn, "decorators changed (expected %s)" % ("@property" if prop else "none"))
        a = fn.args
        if a.vararg or a.kwarg or a.kwonlyargs or a.defaults or getattr(a, "posonlyargs", None):
            _fail(fname, fn, "unexpected signature")
        params = [x.arg for x in a.args]
        nparams = 2 if (cls == "SyncEntry" and sided) else 1
        if len(params) != nparams or params[0] != "self":
            _fail(fname, fn, "unexpected signature %s" % params)
        env = {}
        if cls == "SyncEntry" and sided:
            env[params[1]] = ("side", "s")
        body = _body(fn)
        tr = Tr(fname, cls, done)
        if name == "paths_match":
            # the comparison itself is the provider's (C13): an abstract boolean of the entry
            if params[1] != "side" or len(body) != 2:
                _fail(fname, fn, "unexpected definition")
            _same(fname, body[0], "prov = self.parent.providers[side]")
            _same(fname, body[1], "return prov.paths_match(self[side].sync_path, self[side].path, for_display=True)")
            term = "(rb (pm e s))"
        else:
            term = tr.block(body, env)
        sig = "(e : entry) (s : side)" if sided else "(e : entry)"
        srctext = "\n".join("     " + ast.unparse(st).replace("\n", "\n     ") for st in body)
        out.append("\n(* %s%s:\n%s *)\nDefinition %s %s : pyres :=\n  %s.\n"
                   % (fname, " (property)" if prop else "", _cmt(srctext), gen, sig, term))
        done[(cls, name)] = (gen, sided, prop)
        ranges[fname] = (fn.lineno, fn.end_lineno)
    return "".join(out), ranges


def _modules():
    import cloudsync.sync.state as S
    import cloudsync.types as T
    import cloudsync.runnable as R
    return S, T, R


def translate_state_source(src, types_src):
    """src: text of cloudsync/sync/state.py, types_src: text of cloudsync/types.py -> text of GenEntryPred.v"""
    return _translate_state(src, types_src)[0]


def translate_current():
    S, T, _ = _modules()
    return translate_state_source(_src_of(S), _src_of(T))


# ===================================================================================================== (B) runnable.py
HEADER_B = """(* GenBackoff.v -- GENERATED by harness/entry_translator.py from the current source of cloudsync/runnable.py
   (Runnable.__increment_backoff, the try/except around do() in Runnable.run, Runnable.nothing_happened, the sleep
   selection).  Never edit by hand: every check regenerates it; BackoffGenEq.v proves the definitions equal to
   LoopModel's increment / after_do / sleep_of. *)
From Coq Require Import QArith Bool.
From CS Require Import LoopModel.
Open Scope Q_scope.
"""

BK_ATTRS = {"in_backoff": "in_backoff", "mult_backoff": "mult_backoff", "min_backoff": "min_backoff",
            "max_backoff": "max_backoff"}


class QTr:
    """numeric / boolean expressions over the attributes of a Runnable; env: extra names"""

    def __init__(self, fname, env):
        self.fname = fname
        self.env = env

    def fail(self, n, why):
        _fail(self.fname, n, why)

    def expr(self, n):
        """-> (type, text), type in {'Q', 'bool'}"""
        if isinstance(n, ast.Attribute) and isinstance(n.value, ast.Name) and n.value.id == "self":
            key = "self." + n.attr
            if key in self.env:
                return self.env[key]
            self.fail(n, "attribute outside the whitelist")
        if isinstance(n, ast.Name) and n.id in self.env:
            return self.env[n.id]
        if isinstance(n, ast.Constant) and type(n.value) is int and 0 <= n.value < 1000:
            return "Q", "%d" % n.value
        if isinstance(n, ast.Constant) and type(n.value) is bool:
            return "bool", "true" if n.value else "false"
        if isinstance(n, ast.Call) and isinstance(n.func, ast.Name) and n.func.id in ("min", "max") and len(n.args) == 2 \
                and not n.keywords:
            (ta, a), (tb, b) = self.expr(n.args[0]), self.expr(n.args[1])
            if ta == "Q" and tb == "Q":
                return "Q", "(py_%s %s %s)" % (n.func.id, a, b)
            self.fail(n, "min / max of non-numbers")
        if isinstance(n, ast.BinOp) and isinstance(n.op, (ast.Mult, ast.Add, ast.Sub, ast.Div)):
            (ta, a), (tb, b) = self.expr(n.left), self.expr(n.right)
            if ta == "Q" and tb == "Q":
                sym = {ast.Mult: "*", ast.Add: "+", ast.Sub: "-", ast.Div: "/"}[type(n.op)]
                return "Q", "(%s %s %s)" % (a, sym, b)
            self.fail(n, "arithmetic on non-numbers")
        if isinstance(n, ast.Compare) and len(n.ops) == 1:
            (ta, a), (tb, b) = self.expr(n.left), self.expr(n.comparators[0])
            if ta == "Q" and tb == "Q":
                op = n.ops[0]
                if isinstance(op, ast.Gt):
                    return "bool", "(Qltb %s %s)" % (b, a)
                if isinstance(op, ast.Lt):
                    return "bool", "(Qltb %s %s)" % (a, b)
                if isinstance(op, ast.GtE):
                    return "bool", "(Qle_bool %s %s)" % (b, a)
                if isinstance(op, ast.LtE):
                    return "bool", "(Qle_bool %s %s)" % (a, b)
            self.fail(n, "comparison outside the whitelist")
        if isinstance(n, ast.BoolOp):
            parts = [self.expr(v) for v in n.values]
            if all(t == "bool" for t, _ in parts):
                sym = "&&" if isinstance(n.op, ast.And) else "||"
                out = parts[-1][1]
                for _, x in reversed(parts[:-1]):
                    out = "(%s %s %s)" % (x, sym, out)
                return "bool", out
            self.fail(n, "and / or of non-booleans")
        if isinstance(n, ast.UnaryOp) and isinstance(n.op, ast.Not):
            t, a = self.expr(n.operand)
            if t == "bool":
                return "bool", "(negb %s)" % a
        self.fail(n, "expression outside the whitelist")


def _is_log_call(s):
    return (isinstance(s, ast.Expr) and isinstance(s.value, ast.Call) and isinstance(s.value.func, ast.Attribute)
            and isinstance(s.value.func.value, ast.Name) and s.value.func.value.id == "log"
            and s.value.func.attr in ("debug", "info", "warning", "error", "exception"))


def _backoff_effect(fname, stmts, env, cur):
    """statements that may assign self.in_backoff / call self.__increment_backoff() / log -> Coq term of in_backoff
    afterwards (cur = term before)"""
    for s in stmts:
        if _is_log_call(s) or isinstance(s, ast.Pass):
            continue
        if (isinstance(s, ast.Expr) and isinstance(s.value, ast.Call) and not s.value.args and not s.value.keywords
                and ast.dump(s.value.func) == ast.dump(ast.parse("self.__increment_backoff", mode="eval").body)):
            cur = "(gen_increment_backoff %s (p_mult p) (p_min p) (p_max p))" % cur
            continue
        if (isinstance(s, ast.Assign) and len(s.targets) == 1
                and ast.dump(s.targets[0]) == ast.dump(ast.parse("self.in_backoff = 0").body[0].targets[0])):
            e2 = dict(env)
            e2["self.in_backoff"] = ("Q", cur)
            t, x = QTr(fname, e2).expr(s.value)
            if t != "Q":
                _fail(fname, s, "in_backoff assigned a non-number")
            cur = x
            continue
        if isinstance(s, ast.If) and not s.orelse:
            e2 = dict(env)
            e2["self.in_backoff"] = ("Q", cur)
            t, c = QTr(fname, e2).expr(s.test)
            if t != "bool":
                _fail(fname, s, "test is not boolean")
            cur = "(if %s then %s else %s)" % (c, _backoff_effect(fname, s.body, env, cur), cur)
            continue
        _fail(fname, s, "statement outside the whitelist")
    return cur


def translate_runnable_source(src):
    tree = ast.parse(src)
    cls = _class(tree, "Runnable", "cloudsync.runnable")
    out = [HEADER_B]
    # ---- __increment_backoff
    fn = _func(cls, "__increment_backoff")
    fname = "Runnable.__increment_backoff"
    b = _body(fn)
    if [a.arg for a in fn.args.args] != ["self"] or len(b) != 1 or not isinstance(b[0], ast.Assign) or len(b[0].targets) != 1:
        _fail(fname, fn, "expected a single assignment to self.in_backoff")
    if ast.dump(b[0].targets[0]) != ast.dump(ast.parse("self.in_backoff = 0").body[0].targets[0]):
        _fail(fname, b[0], "expected an assignment to self.in_backoff")
    env = {"self." + k: ("Q", v) for k, v in BK_ATTRS.items()}
    t, x = QTr(fname, env).expr(b[0].value)
    if t != "Q":
        _fail(fname, b[0], "in_backoff assigned a non-number")
    out.append("\n(* %s:  %s *)\nDefinition gen_increment_backoff (in_backoff mult_backoff min_backoff max_backoff : Q) : Q :=\n  %s.\n"
               % (fname, _cmt(ast.unparse(b[0])), x))
    # ---- nothing_happened: the value it gives __clear_on_success
    nh = _func(cls, "nothing_happened")
    nb = _body(nh)
    if len(nb) != 1 or not isinstance(nb[0], ast.Assign) or not isinstance(nb[0].value, ast.Constant) \
            or type(nb[0].value.value) is not bool:
        _fail("Runnable.nothing_happened", nh, "expected `self.__clear_on_success = <bool constant>`")
    _same("Runnable.nothing_happened", nb[0], "self.__clear_on_success = %s" % nb[0].value.value)
    noop_flag = "true" if nb[0].value.value else "false"
    # ---- run: for _ in time_helper(timeout): [if stop: break] try: ... except ...: [if stop/until: break] if in_backoff > 0 ...
    run = _func(cls, "run")
    fname = "Runnable.run"
    outer = [s for s in _body(run) if isinstance(s, ast.Try)]
    if len(outer) != 1 or outer[0].handlers or not outer[0].finalbody or len(outer[0].body) != 1 \
            or not isinstance(outer[0].body[0], ast.For):
        _fail(fname, run, "expected `try: for _ in time_helper(timeout): ... finally: ...`")
    loop = outer[0].body[0]
    _same(fname, ast.Expr(loop.iter), "time_helper(timeout)")
    lb = list(loop.body)
    if len(lb) != 4 or not isinstance(lb[1], ast.Try):
        _fail(fname, loop, "loop body changed (expected: stop test, try/except around do(), stop/until test, sleep selection)")
    _same(fname, lb[0], "if self.__stopping or self.__shutdown:\n    break")
    _same(fname, lb[2], "if self.__stopping or self.__shutdown or (until is not None and until()):\n    break")
    tr = lb[1]
    if tr.orelse or tr.finalbody:
        _fail(fname, tr, "try statement gained else / finally")
    tb = list(tr.body)
    if len(tb) < 2 or not isinstance(tb[0], ast.Assign) or not isinstance(tb[0].value, ast.Constant) \
            or type(tb[0].value.value) is not bool:
        _fail(fname, tr, "expected `self.__clear_on_success = <bool constant>` first in the try body")
    _same(fname, tb[0], "self.__clear_on_success = %s" % tb[0].value.value)
    did_flag = "true" if tb[0].value.value else "false"
    _same(fname, tb[1], "self.do()")
    envc = {"self.__clear_on_success": ("bool", "clear_on_success"), "self.in_backoff": ("Q", "b")}
    after_ok = _backoff_effect(fname, tb[2:], envc, "b")
    out.append("\n(* %s, after do() returned:\n     %s *)\nDefinition gen_after_success (clear_on_success : bool) (b : Q) : Q :=\n  %s.\n"
               % (fname, _cmt("\n     ".join(ast.unparse(s).replace("\n", "\n     ") for s in tb[2:])), after_ok))
    names = []
    terms = []
    for h in tr.handlers:
        if h.type is None or not isinstance(h.type, ast.Name) or h.name is not None:
            _fail(fname, h, "handler outside the whitelist")
        names.append(h.type.id)
        terms.append(_backoff_effect(fname + " (except %s)" % h.type.id, h.body, {}, "b"))
    if names != ["_BackoffError", "Exception", "BaseException"]:
        _fail(fname, tr, "except clauses changed: %s" % names)
    bk = [n for n in tree.body if isinstance(n, ast.ClassDef) and n.name == "_BackoffError"]
    if len(bk) != 1 or [ast.dump(x) for x in bk[0].bases] != [ast.dump(ast.parse("Exception", mode="eval").body)]:
        raise TranslateError("cloudsync.runnable: _BackoffError is no longer `class _BackoffError(Exception)`")
    out.append("\n(* %s: in_backoff after the try/except around do(); the outcome says how do() ended.\n"
               "   try body starts with __clear_on_success = %s; nothing_happened() sets it to %s;\n"
               "   except clauses in order: %s *)\n"
               "Definition gen_after_do (p : params) (b : Q) (o : outcome) : Q :=\n"
               "  match o with\n"
               "  | ODid => gen_after_success %s b\n"
               "  | ONoop => gen_after_success %s b\n"
               "  | OBackoff => %s\n"
               "  | OExc => %s\n"
               "  | OBaseExc => %s\n"
               "  end.\n" % (fname, tb[0].value.value, nb[0].value.value, ", ".join(names), did_flag, noop_flag,
                             terms[0], terms[1], terms[2]))
    # ---- sleep selection
    sl = lb[3]
    if not (isinstance(sl, ast.If) and sl.orelse):
        _fail(fname, sl, "expected `if <test>: ... interruptable_sleep(x) else: interruptable_sleep(y)`")

    def sleep_arg(stmts):
        stmts = [s for s in stmts if not _is_log_call(s)]
        if len(stmts) != 1 or not (isinstance(stmts[0], ast.Expr) and isinstance(stmts[0].value, ast.Call)
                                   and ast.dump(stmts[0].value.func) == ast.dump(ast.parse("self.interruptable_sleep", mode="eval").body)
                                   and len(stmts[0].value.args) == 1 and not stmts[0].value.keywords):
            _fail(fname, sl, "expected a single self.interruptable_sleep(<number>)")
        return stmts[0].value.args[0]
    envs = {"self.in_backoff": ("Q", "b"), "sleep": ("Q", "sleep")}
    q = QTr(fname, envs)
    tt, test = q.expr(sl.test)
    ta, a = q.expr(sleep_arg(sl.body))
    tb2, b2 = q.expr(sleep_arg(sl.orelse))
    if (tt, ta, tb2) != ("bool", "Q", "Q"):
        _fail(fname, sl, "sleep selection is not `if <bool>: sleep(<number>) else: sleep(<number>)`")
    out.append("\n(* %s, the argument of interruptable_sleep at the bottom of the loop:\n     if %s: %s else: %s *)\n"
               "Definition gen_sleep_of (sleep b : Q) : Q := if %s then %s else %s.\n"
               % (fname, _cmt(ast.unparse(sl.test)), _cmt(ast.unparse(sleep_arg(sl.body))),
                  _cmt(ast.unparse(sleep_arg(sl.orelse))), test, a, b2))
    ranges = {"Runnable.__increment_backoff": (fn.lineno, fn.end_lineno), "Runnable.nothing_happened": (nh.lineno, nh.end_lineno),
              "Runnable.run try/except around do()": (tr.lineno, tr.end_lineno),
              "Runnable.run sleep selection": (sl.lineno, sl.end_lineno)}
    return "".join(out), ranges


def translate_backoff_current():
    _, _, R = _modules()
    return translate_runnable_source(_src_of(R))[0]


def line_ranges():
    """{function: (first line, last line)} in the current source (for the notes / evidence)"""
    S, T, R = _modules()
    a = _translate_state(_src_of(S), _src_of(T))[1]
    b = translate_runnable_source(_src_of(R))[1]
    return dict(state=a, runnable=b)


if __name__ == "__main__":
    import sys
    sys.stdout.write(translate_current())
    sys.stdout.write("\n(* ---------------------------------------------------------------- *)\n")
    sys.stdout.write(translate_backoff_current())
