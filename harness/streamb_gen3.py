"""Stream B generator 3 — FROZEN (version below).  Path RE-USE on one side: every ordered pair and triple of DISTINCT
members of a small alphabet in which a path is vacated and re-occupied at least once, one-sided and with one operation
of the other side (on its own folder) in between, on every id-style combination, under a fixed systematic schedule set
that includes 'uploaded, echo not yet taken in'.  ENUMERATED, not random: a case is a pure function of its index.  Case
ids listed in known_findings.json depend on every line of this file: do not edit it; add a new version instead.

Base tree (created on side 0 under its root and synchronised before the observed run starts):
    l/   l/x = b"x0"   l/y = b"y0"          (the ACTING side's folder)
    r/   r/a = b"a0"   r/b = b"b0"          (the OTHER side's folder)
  (all names lower-case on purpose: MockProvider(oid_is_path=True, case_sensitive=False) mis-files objects whose path has an
   upper-case letter — provider finding C16-F4 — which is not what this scope is about)

Main alphabet A (8 operations by the acting side s, fixed paths; an operation whose target does not exist, or whose
destination is occupied, is still issued — the provider refuses or skips it and the run goes on):
    0 wrx  write  l/x := b"x1"          4 ryx  rename l/y -> l/x
    1 rnb  rename l/x -> l/bak          5 wry  write  l/y := b"y1"
    2 dlx  delete l/x                   6 crz  create l/z = b"z0"
    3 crx  create l/x = b"x2"           7 dly  delete l/y
Other-side alphabet H (4 operations by side 1-s on r):
    0 wra  write r/a := b"a1"    1 rna  rename r/a -> r/c    2 dlb  delete r/b    3 crd  create r/d = b"d0"

Histories.  A sequence of main operations QUALIFIES when, applying the operations in order to the base tree (an
operation that cannot succeed changes nothing), some operation vacates a path (rename away / delete of an existing
file) and a LATER operation successfully puts a file at that path (create / rename onto it).  The rest is dropped
(covered by generators 1 and 2).
    P1  one-sided pairs     the qualifying ordered pairs of distinct members of A            4  (rnb,crx rnb,ryx dlx,crx dlx,ryx)
    T1  one-sided triples   the qualifying ordered triples of pairwise distinct members     60
    P2  two-sided pairs     (a, u, b): (a,b) in P1, u in H performed in between              4*4   = 16
    T2  two-sided triples   (a,b,c) in T1 with u in H after the first or after the second    60*4*2 = 480
                            main operation: order (a,b,c) lexicographic, then u, then position (a,u,b,c) before (a,b,u,c)
  Lists are lexicographic in the alphabet numbers.  The triples whose FIRST operation is wrx ('modify x, vacate x,
  re-occupy x': the backup-save / replace-save pattern) are the first 4 of T1 and the first 32 of T2; they form the
  CORE blocks T1A / T2A, the others T1B / T2B.

Flavours (8): oid_is_path in [(F,F), (F,T), (T,F), (T,T)] with case mode (True, True), then the same four with case
mode (False, False); unfiltered events, roots by path, roots /local and /remote.   Acting side s in (0, 1).

Schedules, o1..on the user operations, p(i) the side that performed o_i, s the acting side:
    S0  o1 .. on back to back
    S1  between o_i and o_i+1:  intake p(i), sync
    S2  after every o_i:        intake 0, intake 1                     (no sync)
    S3  between o_i and o_i+1:  intake p(i), sync, sync, intake 1-p(i), sync
    S4  after every o_i:        intake s, sync;   after the last one also: intake 1-s      (the echoes taken in last)
    Kj  (j = 1 .. n-1)  o1 .. oj back to back; intake s, sync, sync; o_j+1 .. on back to back; intake s, intake 1-s
                        (what was done up to o_j has been carried to the peer, the peer's echo has not been taken in;
                         then the acting side's new events are taken in BEFORE the echo)
  n = 2: S0-S4, K1 (6 schedules);  n = 3: S0-S4, K1, K2 (7);  n = 4: S0-S4, K1, K2, K3 (8).
  run_case drains to quiet after the last schedule action and then checks for echo.

ENUMERATION ORDER.  Inside a block (history list with n operations per history, NS = 4 + n schedules)
      index_in_block = ((h * 8 + flavour) * 2 + side) * NS + schedule      (schedule fastest, history slowest)
  case(index) ALL       : P1 [0,384)  P2 [384,2176)  T1A [2176,2624)  T2A [2624,6720)  T1B [6720,12992)  T2B [12992,70336)
  one(index)  ONE-SIDED : P1 [0,384)  T1A [384,832)  T1B [832,7104)
  two(index)  TWO-SIDED : P2 [0,1792) T2A [1792,5888) T2B [5888,63232)
  N_CORE_* = end of the core blocks (every pair + the 'modify first' triples): 6720 / 832 / 5888.
  Tier sizes (first N indices of an enumeration) are chosen in harness/streamb.py (PLAN), not here.

Case format = streamb_gen.wild:  dict(flavour, base, schedule, hash_mult, mode)
    one-sided mode  origin=s,    check_spec=True, no_conflicted=True, cov_every_step=False
    two-sided mode  origin=None, check_spec=True, no_conflicted=True, cov_every_step=False
    hash_mult = [1, 3, 7, 11][(h + flavour + side) % 4]      (h = number of the history inside its block)
"""

VERSION = "streamB-v3-reuse"

ROOTS = ["/local", "/remote"]

FLAVOUR_KEYS = [[list(o), list(c), False, "path", list(ROOTS)]
                for c in [(True, True), (False, False)]
                for o in [(False, False), (False, True), (True, False), (True, True)]]

A_NAMES = ["wrx", "rnb", "dlx", "crx", "ryx", "wry", "crz", "dly"]
H_NAMES = ["wra", "rna", "dlb", "crd"]

A_OPS = [["write", "/l/x", b"x1"], ["rename", "/l/x", "/l/bak"], ["delete", "/l/x"], ["create", "/l/x", b"x2"],
         ["rename", "/l/y", "/l/x"], ["write", "/l/y", b"y1"], ["create", "/l/z", b"z0"], ["delete", "/l/y"]]
H_OPS = [["write", "/r/a", b"a1"], ["rename", "/r/a", "/r/c"], ["delete", "/r/b"], ["create", "/r/d", b"d0"]]

NA, NH, NF = len(A_NAMES), len(H_NAMES), len(FLAVOUR_KEYS)


def qualifies(seq):
    """seq: main-alphabet numbers.  True when some path is vacated and later re-occupied (see the module text)."""
    files = {"/l/x", "/l/y"}
    vacated = set()
    for i in seq:
        op = A_OPS[i]
        k = op[0]
        if k == "rename":
            if op[1] in files and op[2] not in files:
                files.discard(op[1])
                files.add(op[2])
                if op[2] in vacated:
                    return True
                vacated.add(op[1])
        elif k == "delete":
            if op[1] in files:
                files.discard(op[1])
                vacated.add(op[1])
        elif k == "create":
            if op[1] not in files:
                files.add(op[1])
                if op[1] in vacated:
                    return True
    return False


_P1 = [(a, b) for a in range(NA) for b in range(NA) if a != b and qualifies((a, b))]
_T1 = [(a, b, c) for a in range(NA) for b in range(NA) for c in range(NA)
       if a != b and a != c and b != c and qualifies((a, b, c))]

P1 = [(("A", a), ("A", b)) for a, b in _P1]
P2 = [(("A", a), ("H", u), ("A", b)) for a, b in _P1 for u in range(NH)]


def _two(t):
    a, b, c = t
    out = []
    for u in range(NH):
        out.append((("A", a), ("H", u), ("A", b), ("A", c)))
        out.append((("A", a), ("A", b), ("H", u), ("A", c)))
    return out


T1A = [tuple(("A", i) for i in t) for t in _T1 if t[0] == 0]
T1B = [tuple(("A", i) for i in t) for t in _T1 if t[0] != 0]
T2A = [h for t in _T1 if t[0] == 0 for h in _two(t)]
T2B = [h for t in _T1 if t[0] != 0 for h in _two(t)]

BLOCKS_ALL = [("one", P1), ("two", P2), ("one", T1A), ("two", T2A), ("one", T1B), ("two", T2B)]
BLOCKS_ONE = [("one", P1), ("one", T1A), ("one", T1B)]
BLOCKS_TWO = [("two", P2), ("two", T2A), ("two", T2B)]


def n_sched(hists):
    return 4 + len(hists[0]) if hists else 0


def block_size(hists):
    return len(hists) * NF * 2 * n_sched(hists)


def total(blocks, upto=None):
    return sum(block_size(h) for _, h in (blocks if upto is None else blocks[:upto]))


N_ALL, N_ONE, N_TWO = total(BLOCKS_ALL), total(BLOCKS_ONE), total(BLOCKS_TWO)
N_PAIRS_ALL, N_PAIRS_ONE, N_PAIRS_TWO = total(BLOCKS_ALL, 2), total(BLOCKS_ONE, 1), total(BLOCKS_TWO, 1)
N_CORE_ALL, N_CORE_ONE, N_CORE_TWO = total(BLOCKS_ALL, 4), total(BLOCKS_ONE, 2), total(BLOCKS_TWO, 2)


def base_ops():
    r = ROOTS[0]
    return [["mkdir", r + "/l"], ["create", r + "/l/x", b"x0"], ["create", r + "/l/y", b"y0"],
            ["mkdir", r + "/r"], ["create", r + "/r/a", b"a0"], ["create", r + "/r/b", b"b0"]]


def _abs(side, op):
    r = ROOTS[side]
    if op[0] == "rename":
        return [op[0], r + op[1], r + op[2]]
    return [op[0], r + op[1]] + list(op[2:])


def history_ops(hist, side):
    """[(performing side, op with absolute paths)] for a history with acting side `side`"""
    out = []
    for alpha, i in hist:
        if alpha == "A":
            out.append((side, _abs(side, A_OPS[i])))
        else:
            out.append((1 - side, _abs(1 - side, H_OPS[i])))
    return out


def schedule_names(n):
    return ["S0", "S1", "S2", "S3", "S4"] + ["K%d" % j for j in range(1, n)]


def schedule(ops, k, s):
    """ops: [(side, op)], k: schedule number, s: acting side"""
    n = len(ops)
    sched = []
    for j, (p, op) in enumerate(ops):
        sched.append(["user", p, op])
        last = j == n - 1
        if k == 1 and not last:
            sched += [["intake", p], ["sync"]]
        elif k == 2:
            sched += [["intake", 0], ["intake", 1]]
        elif k == 3 and not last:
            sched += [["intake", p], ["sync"], ["sync"], ["intake", 1 - p], ["sync"]]
        elif k == 4:
            sched += [["intake", s], ["sync"]]
            if last:
                sched += [["intake", 1 - s]]
        elif k >= 5:
            if j == k - 5:                       # K_(k-4): engine steps after o_(k-4), 1-based
                sched += [["intake", s], ["sync"], ["sync"]]
            if last:
                sched += [["intake", s], ["intake", 1 - s]]
    return sched


def coords(index, blocks):
    """index -> (variant, history tuple, h, flavour, side, schedule number)"""
    if index < 0:
        raise IndexError(index)
    for variant, hists in blocks:
        size = block_size(hists)
        if index < size:
            ns = n_sched(hists)
            k = index % ns
            side = (index // ns) % 2
            fl = (index // (ns * 2)) % NF
            h = index // (ns * 2 * NF)
            return variant, hists[h], h, fl, side, k
        index -= size
    raise IndexError("beyond the end of the enumeration")


def build(index, blocks):
    variant, hist, h, fl, side, k = coords(index, blocks)
    ops = history_ops(hist, side)
    mode = dict(origin=side if variant == "one" else None, check_spec=True, no_conflicted=True, cov_every_step=False)
    return dict(flavour=[list(x) if isinstance(x, list) else x for x in FLAVOUR_KEYS[fl]], base=base_ops(),
                schedule=schedule(ops, k, side), hash_mult=[1, 3, 7, 11][(h + fl + side) % 4], mode=mode)


def case(index):
    return build(index, BLOCKS_ALL)


def one(index):
    return build(index, BLOCKS_ONE)


def two(index):
    return build(index, BLOCKS_TWO)


def hist_name(hist):
    return ",".join((A_NAMES if a == "A" else H_NAMES)[i] for a, i in hist)


def label(index, blocks=None):
    variant, hist, h, fl, side, k = coords(index, blocks or BLOCKS_ALL)
    fk = FLAVOUR_KEYS[fl]
    return "%s:%s oip=%s cs=%s side=%d %s" % (variant, hist_name(hist), fk[0], fk[1], side, schedule_names(len(hist))[k])
