"""merge helper: python harness/merge_known.py <branch>  -> known_findings.json = ours U theirs (by finding id)"""
import json, subprocess, sys
branch = sys.argv[1]
ours = json.loads(subprocess.check_output(["git", "show", "HEAD:known_findings.json"]))
theirs = json.loads(subprocess.check_output(["git", "show", branch + ":known_findings.json"]))
ids = {k["id"] for k in ours["findings"]}
for k in theirs["findings"]:
    if k["id"] not in ids:
        ours["findings"].append(k)
for f in theirs.get("fixed", []):
    if f not in ours["fixed"]:
        ours["fixed"].append(f)
json.dump(ours, open("known_findings.json", "w"), indent=1)
print(len(ours["findings"]), "findings")
