"""C10 — transient provider faults: fault plans, the injection layer, the runner and the case families.

Additive to harness/engine.py + enginecheck.py (neither is edited):
  * `Engine.fault_plan(side, call, index)` is applied by engine.py to every engine-issued provider mutation and
    download.  `Injector.attach` (hook `after_base` of `run_case`) wraps, on the provider INSTANCES, the remaining API
    calls the engine makes (info_oid, info_path, listdir, events incl. "between two events", hash_oid, exists_oid,
    exists_path, reconnect/connect) so that faults hit event intake and the read side of sync as well, and puts a thin
    outer wrapper round the mutators so that calls a provider method makes on itself are not fault points.
  * every step is executed through the REAL `Runnable.run` loop body (`mgr.run(until=lambda: True)`): one pass of
    try: do() / except _BackoffError / except Exception / except BaseException, with the real backoff bookkeeping.
  * per step the injector records what the step-outcome machine of FaultModel.v speaks about: the exception class that
    reached the manager's handler, what was notified, whether the picked entry was punted, whether storage was
    committed, how do() ended, in_backoff / need_auth / connected before and after.

A fault plan is JSON: {"rules": [rule, ...]}, rule =
  {"t": "at", "index": k, "kind": K}                 the k-th engine API call after activation fails
  {"t": "rate", "seed": s, "p": 0.1, "kinds": [...], "max": n}     each call fails independently with probability p
  {"t": "path", "side": s, "path": abs, "kind": "locked" | "badname"}   every create/upload/rename/mkdir/delete that
                                                      addresses that path fails (CloudTemporaryError / CloudFileNameError)
kinds: temporary, resource_modified, disconnected (+ provider.disconnect()), token, token_expired (+ disconnect, connect
refuses the stored credentials until re-authentication), out_of_space (uploads/creates only), file_name (mutators only).
"""
import random

from . import engine as E
from . import enginecheck as EC
from . import families as F

MUTATORS = E.MUTATORS + ("download",)
READERS = ("info_oid", "info_path", "listdir", "hash_oid", "exists_oid", "exists_path")
ALL_CALLS = MUTATORS + READERS + ("events", "events_next")
KINDS = ("temporary", "resource_modified", "disconnected", "token", "token_expired", "out_of_space", "file_name")
TRANSIENT_KINDS = ("temporary", "resource_modified", "disconnected", "token", "token_expired", "out_of_space")
# notification the property demands for an injected fault of that kind (None: nothing demanded)
EXPECT_NOTE = {"temporary": "TEMPORARY_ERROR", "resource_modified": "TEMPORARY_ERROR", "locked": "TEMPORARY_ERROR",
               "disconnected": "DISCONNECTED_ERROR", "out_of_space": "OUT_OF_SPACE_ERROR",
               "file_name": "FILE_NAME_ERROR", "badname": "FILE_NAME_ERROR", "token": None, "token_expired": None}

# pseudo guard codes of this property (beyond enginecheck.PSEUDO)
C10_CODES = {105: "LOOP_DIED", 110: "ESCAPED_BASE", 111: "NOT_NOTIFIED", 112: "HEALTHY_BLOCKED", 113: "MACHINE_DIFF",
             114: "NOT_SYNCED_AFTER_LIFT", 115: "STUCK_AFTER_FAULTS", 116: "WALK_SKIPPED", 117: "NOT_SET_ASIDE"}
EC.GUARDS.update(C10_CODES)


def make_exc(kind):
    import cloudsync.exceptions as ex
    return {"temporary": ex.CloudTemporaryError, "resource_modified": ex.CloudResourceModifiedError,
            "locked": ex.CloudTemporaryError, "disconnected": ex.CloudDisconnectedError, "token": ex.CloudTokenError,
            "token_expired": ex.CloudTokenError, "out_of_space": ex.CloudOutOfSpaceError,
            "file_name": ex.CloudFileNameError, "badname": ex.CloudFileNameError}[kind]("injected " + kind)


def kind_applies(kind, call):
    if kind == "out_of_space":
        return call in ("create", "upload")
    if kind in ("file_name", "badname"):
        return call in ("create", "upload", "rename", "mkdir")
    if kind == "locked":
        return call in ("create", "upload", "rename", "mkdir", "delete")
    return True


PUNT_LOG = []
_punt_patched = [False]


def _patch_punt():
    """SyncEntry.punt is observed at class level (entries come and go): every call appends the entry to PUNT_LOG"""
    if _punt_patched[0]:
        return
    import cloudsync.sync.state as st
    raw = st.SyncEntry.punt

    def punt(self):
        PUNT_LOG.append(self)
        return raw(self)
    st.SyncEntry.punt = punt
    _punt_patched[0] = True


class Injector:
    """everything C10 observes and injects in one run"""

    def __init__(self, case):
        self.case = case
        self.eng = None
        self.world = None
        self.depth = 0
        self.suppress = 0
        self.cur = None               # (side, call, args) of the outermost provider call in progress
        self.plan = None
        self.plan_base = 0
        self.rate_count = {}
        self.injected = []            # dict(index, side, call, kind, step)
        self.consequent = 0           # CloudDisconnectedError raised by the provider itself while disconnected
        self.expired = [False, False]
        self.steps = []               # one record per service step
        self.step = None
        self.notes = []               # every notification, in order: (source, ntype, path)
        self.calls = {}               # engine API calls by name (fault points)
        self.died = []                # exceptions that left Runnable.run (the loop would have died)
        self.healthy_checks = []
        self.oracle_fail = []         # (code, detail)
        self.lifted = False
        self.nfe_calls = []           # every notify_from_exception call: source, class path, kinds emitted
        self.walks_forced = 0
        self.set_aside_quiet = []
        self.in_walk = 0              # inside EventManager._do_walk_if_needed with a walk due
        # provider calls SyncState makes on its own are outside the seeded fault domain (findings F-1, F-2):
        self.in_change = 0            # inside SyncState.change (path fill-in by info_oid)
        self.in_kids = 0              # inside SyncState._update_kids (info_path per child, path-style providers)
        self.excluded_calls = {"change": 0, "update_kids": 0}

    # ------------------------------------------------------------------ plan
    def set_plan(self, plan):
        self.plan = plan
        self.plan_base = self.eng.call_index if self.eng else 0
        self.rate_count = {}

    def decide(self, side, call, index, args):
        """-> kind or None for the engine API call number `index`"""
        if self.plan is None or self.suppress:
            return None
        if self.in_kids:
            self.excluded_calls["update_kids"] += 1
            if not self.plan.get("unrestricted"):
                return None
        rel = index - self.plan_base
        for n, r in enumerate(self.plan["rules"]):
            t = r["t"]
            if t == "at":
                if r["index"] == rel and kind_applies(r["kind"], call):
                    return r["kind"]
            elif t == "rate":
                if r.get("calls") and call not in r["calls"]:
                    continue
                if r.get("max") is not None and self.rate_count.get(n, 0) >= r["max"]:
                    continue
                rr = random.Random("%s/%d" % (r["seed"], index))
                if rr.random() < r["p"]:
                    k = rr.choice(r["kinds"])
                    if kind_applies(k, call):
                        self.rate_count[n] = self.rate_count.get(n, 0) + 1
                        return k
            elif t == "path":
                if r["side"] == side and kind_applies(r["kind"], call) and self._addresses(side, call, args, r["path"]):
                    return r["kind"]
        return None

    def _addresses(self, side, call, args, path):
        if args is None:
            return False
        p = self.world.provs[side]
        if call in ("create", "mkdir"):
            return p.paths_match(args[0], path)
        o = p._mock_fs.get(args[0])
        if o is not None and o.path is not None and p.paths_match(o.path, path):
            return True
        if call == "rename":
            return p.paths_match(args[1], path)
        return False

    def fire(self, side, call, index, args):
        """count the fault point, decide, apply side effects; -> exception or None"""
        self.calls[call] = self.calls.get(call, 0) + 1
        kind = self.decide(side, call, index, args)
        if kind is None:
            return None
        p = self.world.provs[side]
        if kind in ("disconnected", "token_expired"):
            p.disconnect()
        if kind == "token_expired":
            self.expired[side] = True
        rec = dict(index=index - self.plan_base, side=side, call=call, kind=kind,
                   step=len(self.steps) if self.step is not None else None, in_walk=bool(self.in_walk))
        self.injected.append(rec)
        if self.step is not None:
            self.step["injected"].append(rec)
        return make_exc(kind)

    # engine.py calls this for mutators and download (it has no access to the arguments: they are in self.cur)
    def engine_fault_plan(self, side, call, index):
        if self.depth > 1:
            return None
        args = self.cur[2] if self.cur and self.cur[1] == call else None
        return self.fire(side, call, index, args)

    # ------------------------------------------------------------------ wrappers
    def attach(self, eng, world):
        self.eng, self.world = eng, world
        _patch_punt()
        eng.fault_plan = self.engine_fault_plan
        inj = self
        for side, p in enumerate(world.provs):
            for name in MUTATORS:
                inner = p.__dict__[name]            # engine.py's wrapper

                def mk_outer(side, name, inner):
                    def outer(*a, **kw):
                        inj.depth += 1
                        if inj.depth == 1:
                            inj.cur = (side, name, a)
                        try:
                            return inner(*a, **kw)
                        finally:
                            inj.depth -= 1
                    return outer
                setattr(p, name, mk_outer(side, name, inner))
            for name in READERS:
                raw = getattr(p, name)

                def mk_reader(side, name, raw):
                    def reader(*a, **kw):
                        if inj.depth == 0 and not inj.suppress:
                            idx = eng.call_index
                            eng.call_index += 1
                            exc = inj.fire(side, name, idx, a)
                            if exc is not None:
                                raise exc
                        inj.depth += 1
                        try:
                            return raw(*a, **kw)
                        finally:
                            inj.depth -= 1
                    return reader
                setattr(p, name, mk_reader(side, name, raw))
            raw_events = p.events

            def mk_events(side, raw_events):
                def events():
                    top = inj.depth == 0 and not inj.suppress
                    if top:
                        idx = eng.call_index
                        eng.call_index += 1
                        exc = inj.fire(side, "events", idx, ())
                        if exc is not None:
                            raise exc
                    it = iter(raw_events())
                    first = True
                    while True:
                        if top and not first and not inj.suppress:
                            # the connection may fail between two events (before the next one is fetched)
                            idx = eng.call_index
                            eng.call_index += 1
                            exc = inj.fire(side, "events_next", idx, ())
                            if exc is not None:
                                raise exc
                        first = False
                        try:
                            ev = next(it)
                        except StopIteration:
                            return
                        yield ev
                return events
            p.events = mk_events(side, raw_events)
            raw_connect = p.connect

            def mk_connect(side, raw_connect):
                def connect(creds):
                    if inj.expired[side]:
                        import cloudsync.exceptions as ex
                        raise ex.CloudTokenError("stored credentials expired")
                    return raw_connect(creds)
                return connect
            p.connect = mk_connect(side, raw_connect)

            def mk_auth(side):
                def authenticate():
                    inj.expired[side] = False           # the user logs in again
                    return {"key": "val"}
                return authenticate
            p.authenticate = mk_auth(side)
        # user operations and harness queries are not engine calls; a user acts on the account, not through the
        # engine's connection
        raw_user = world.user

        def user(side, op):
            p = world.provs[side]
            inj.suppress += 1
            was = p._Provider__connected
            p._Provider__connected = True
            try:
                return raw_user(side, op)
            finally:
                p._Provider__connected = was
                inj.suppress -= 1
        world.user = user
        raw_busy = eng.busy

        def busy():
            inj.suppress += 1
            saved = [p._Provider__connected for p in world.provs]
            for p in world.provs:
                p._Provider__connected = True
            try:
                return raw_busy()
            finally:
                for p, s in zip(world.provs, saved):
                    p._Provider__connected = s
                inj.suppress -= 1
        eng.busy = busy
        eng._do = self.real_step
        self._watch_managers()

    def _watch_managers(self):
        """observers on the manager instances: exception reaching the handlers, picked entry, commit, noop"""
        inj = self
        eng = self.eng
        cs = eng.cs
        nm = cs.nmgr
        raw_notify = nm.notify

        def notify(n):
            rec = (n.source.name if hasattr(n.source, "name") else str(n.source), n.ntype.name, n.path)
            inj.notes.append(rec)
            eng.notifications.append(rec)
            if inj.step is not None:
                inj.step["notes"].append(rec)
            return raw_notify(n)
        nm.notify = notify
        raw_nfe = nm.notify_from_exception

        def nfe(source, e, path=None):
            before = len(inj.notes)
            r = raw_nfe(source, e, path)
            rec = dict(source=source.name if hasattr(source, "name") else str(source), cls=_class_path(type(e)),
                       emitted=[n[1] for n in inj.notes[before:]])
            inj.nfe_calls.append(rec)
            if inj.step is not None:
                inj.step["nfe"].append(rec)
            return r
        nm.notify_from_exception = nfe
        sm = cs.smgr

        def watch(obj, name, tag):
            raw = getattr(obj, name)

            def w(*a, **kw):
                try:
                    return raw(*a, **kw)
                except Exception as e:
                    if inj.step is not None and inj.step.get("reached") is None and type(e).__name__ != "_BackoffError":
                        inj.step["reached"] = [tag, _class_path(type(e))]
                    raise
            setattr(obj, name, w)
        watch(sm, "pre_sync", "pre_sync")
        watch(sm, "sync", "sync")
        for p in self.world.provs:
            watch(p, "set_root", "roots")
        raw_change = cs.state.change

        def change(age):
            inj.in_change += 1
            try:
                ent = raw_change(age)
            except Exception as e:
                if inj.step is not None and inj.step.get("reached") is None:
                    inj.step["reached"] = ["change", _class_path(type(e))]
                raise
            finally:
                inj.in_change -= 1
            if inj.step is not None:
                inj.step["picked"] = None if ent is None else [getattr(ent, "_vserial", 0), ent.priority]
                inj.step["_ent"] = ent
            return ent
        cs.state.change = change
        raw_kids = cs.state._update_kids

        def update_kids(*a, **kw):
            inj.in_kids += 1
            try:
                return raw_kids(*a, **kw)
            finally:
                inj.in_kids -= 1
        cs.state._update_kids = update_kids
        raw_commit = cs.state.storage_commit

        def commit():
            if inj.step is not None:
                inj.step["commits"] = inj.step.get("commits", 0) + 1
            return raw_commit()
        cs.state.storage_commit = commit
        raw_del_tag = cs.state.storage_delete_tag

        def del_tag(tag):
            if inj.step is not None:
                inj.step["tag_deleted"] = True        # only the cursor-reset clause of EventManager.do (and forget()) do this
            return raw_del_tag(tag)
        cs.state.storage_delete_tag = del_tag
        for side in (0, 1):
            em = cs.emgrs[side]
            prov = self.world.provs[side]

            def mk_call_rec(raw, key):
                def w(*a, **kw):
                    st = inj.step
                    try:
                        r = raw(*a, **kw)
                        if st is not None:
                            st[key] = "ok"
                        return r
                    except Exception as e:
                        if st is not None:
                            # `except NotImplementedError` in _reconnect_if_needed: any subclass of it counts
                            st[key] = "notimpl" if (key == "reauth" and isinstance(e, NotImplementedError)) else _class_path(type(e))
                        raise
                return w
            prov.reconnect = mk_call_rec(prov.reconnect, "reconnect")
            em.reauthenticate = mk_call_rec(em.reauthenticate, "reauth")
            watch(em, "_reconnect_if_needed", "reconnect")
            raw_walk = em._do_walk_if_needed

            def mk_walk(em, raw_walk):
                def walk():
                    due = bool(em.need_walk and em._root_oid)
                    inj.in_walk += 1 if due else 0
                    try:
                        return raw_walk()
                    finally:
                        inj.in_walk -= 1 if due else 0
                return walk
            em._do_walk_if_needed = mk_walk(em, raw_walk)
            watch(em, "_validate_root", "validate_root")
            watch(em, "_do_unsafe", "intake")
        for mgr in (sm, cs.emgrs[0], cs.emgrs[1]):
            raw_nh = mgr.nothing_happened

            def mk(raw_nh):
                def nh():
                    if inj.step is not None:
                        inj.step["noop"] = True
                    return raw_nh()
                return nh
            mgr.nothing_happened = mk(raw_nh)
            raw_do = mgr.do

            def mk_do(raw_do):
                def do():
                    from cloudsync.runnable import _BackoffError
                    st = inj.step
                    try:
                        raw_do()
                        if st is not None:
                            st["do"] = "ok"
                    except _BackoffError:
                        if st is not None:
                            st["do"] = "backoff"
                        raise
                    except Exception as e:
                        if st is not None:
                            import traceback
                            st["do"] = "exc"
                            st["escaped"] = _class_path(type(e))
                            st["escaped_via"] = [f.name for f in traceback.extract_tb(e.__traceback__)][-6:]
                        raise
                    except BaseException as e:
                        if st is not None:
                            st["do"] = "base"
                            st["escaped"] = [type(e).__name__]
                        raise
                return do
            mgr.do = mk_do(raw_do)

    # ------------------------------------------------------------------ one pass of the real service loop
    def real_step(self, mgr, label):
        eng = self.eng
        side = None if label == "sync" else int(label[-1])
        prov = None if side is None else self.world.provs[side]
        st = dict(label=label, injected=[], notes=[], nfe=[], reached=None, picked=None, commits=0, noop=False, do=None,
                  escaped=None, b0=mgr.in_backoff, reconnect=None, reauth=None, walk0=getattr(mgr, "need_walk", None),
                  need_auth0=getattr(mgr, "need_auth", None), connected0=None if prov is None else bool(prov.connected))
        self.step = st
        del PUNT_LOG[:]
        try:
            mgr.run(until=lambda: True, sleep=0)
            st["loop"] = "alive"
        except E.Token:
            raise
        except BaseException as e:                       # the real loop let something out: the thread would be dead
            st["loop"] = "died:" + type(e).__name__
            self.died.append((label, type(e).__name__, str(e)[:200]))
        finally:
            self.step = None
        st["b1"] = mgr.in_backoff
        st["need_auth1"] = getattr(mgr, "need_auth", None)
        st["walk1"] = getattr(mgr, "need_walk", None)
        st["connected1"] = None if prov is None else bool(prov.connected)
        ent = st.pop("_ent", None)
        if ent is not None:
            st["picked"].append(ent.priority)
            st["picked"].append(bool(ent.is_discarded))
            st["punts"] = sum(1 for e in PUNT_LOG if e is ent)
        del PUNT_LOG[:]
        if st["do"] == "exc":
            eng.loop_errors.append((label, st["escaped"][0], ""))
        self.steps.append(st)
        return {"ok": "ok", "backoff": "backoff", "exc": "exc:" + (st["escaped"] or ["?"])[0],
                "base": "exc:" + (st["escaped"] or ["?"])[0], None: "died"}[st["do"]]


def _class_path(cls):
    """['CloudOutOfSpaceError', 'CloudTemporaryError', 'CloudException', 'Exception'] : the class and its ancestors
    up to Exception (single inheritance chain of the first bases)"""
    out = []
    c = cls
    while c is not None and c is not BaseException and c is not object:
        out.append(c.__name__)
        if c is Exception:
            break
        c = c.__bases__[0] if c.__bases__ else None
    return out


# ---------------------------------------------------------------------- runner
def run_c10(case, monitor, keep=False):
    """run_case + the C10 oracles; the injector is returned in res.extra['c10']"""
    inj = Injector(case)

    def after_base(eng, world):
        inj.attach(eng, world)

    def make_fault_plan(plan, H):
        inj.set_plan(plan)
        return inj.engine_fault_plan

    def on_faults_off(eng, world):
        inj.plan = None
        eng.fault_plan = inj.engine_fault_plan       # keep counting fault points (decide() returns None without a plan)

    def check_healthy(eng, world, args):
        """hook: both views must agree except for the named relative paths (the file that is set aside)"""
        skip = set(args[0]) if args else set()
        v0 = {k: v for k, v in world.view(0).items() if k not in skip}
        v1 = {k: v for k, v in world.view(1).items() if k not in skip}
        ok = v0 == v1
        aside = [k for k in skip if (k in world.view(0)) != (k in world.view(1))]
        inj.healthy_checks.append(dict(ok=ok, set_aside=aside, steps=len(inj.steps),
                                       diff=sorted(set(v0.items()) ^ set(v1.items()), key=repr)[:4] if not ok else []))

    def steps_hook(eng, world, args):
        """hook: n fair rounds of explicit steps (no quiet report: the engine is expected to stay busy)"""
        for _ in range(args[0]):
            eng.intake(0)
            eng.intake(1)
            eng.sync()

    def advance(eng, world, args):
        E.CLOCK.advance(args[0])

    def until_healthy(eng, world, args):
        """hook: fair rounds until both views agree except for the named relative paths, at most args[1] rounds"""
        skip = set(args[0])
        for n in range(args[1] + 1):
            v0 = {k: v for k, v in world.view(0).items() if k not in skip}
            v1 = {k: v for k, v in world.view(1).items() if k not in skip}
            if v0 == v1:
                aside = [k for k in skip if (k in world.view(0)) != (k in world.view(1))]
                inj.healthy_checks.append(dict(ok=True, set_aside=aside, rounds=n, steps=len(inj.steps), diff=[]))
                return
            if n < args[1]:
                eng.intake(0)
                eng.intake(1)
                eng.sync()
        inj.healthy_checks.append(dict(ok=False, set_aside=[], rounds=args[1], steps=len(inj.steps),
                                       diff=sorted(set(v0.items()) ^ set(v1.items()), key=repr)[:4]))

    def lose_events(eng, world, args):
        """hook: what a start without a usable stored cursor does — the provider cursor starts at 'latest' (the events
        before it are never delivered) and a walk of the root is due: the walk is the only way the content is discovered"""
        side = args[0]
        em = eng.cs.emgrs[side]
        prov = world.provs[side]
        inj.suppress += 1
        try:
            em._queue = []
            prov.current_cursor = prov.latest_cursor
            em.need_walk = True
        finally:
            inj.suppress -= 1
        inj.walks_forced += 1

    def expect_set_aside(eng, world, args):
        """hook: a file with an invalid name is SET ASIDE, not retried for ever: within args[0] fair rounds the engine
        has nothing left to do although the file is on one side only"""
        for n in range(args[0] + 1):
            if not eng.busy():
                inj.set_aside_quiet.append(n)
                return
            if n < args[0]:
                eng.intake(0)
                eng.intake(1)
                eng.sync()
        inj.oracle_fail.append((117, dict(where="engine still busy %d rounds after the invalid name was reported" % args[0],
                                          pending=eng.cs.smgr.changeset_len)))

    hooks = dict(after_base=after_base, make_fault_plan=make_fault_plan, on_faults_off=on_faults_off,
                 check_healthy=check_healthy, steps=steps_hook, advance=advance, until_healthy=until_healthy,
                 lose_events=lose_events, expect_set_aside=expect_set_aside)
    res = EC.run_case(case, monitor, hooks=hooks, keep_engine=keep)
    res.extra["c10"] = inj
    judge(case, res, inj)
    return res


def judge(case, res, inj):
    """C10 oracles on top of the monitor verdict (first failure wins, monitor first)"""
    fails = []
    # (1) the loop survives every fault: nothing left Runnable.run
    if inj.died:
        fails.append((105, dict(died=inj.died[:3])))
    # (2) a notification of the matching kind in the step where the fault was injected
    missing = []
    for st in inj.steps:
        kinds = [n[1] for n in st["notes"]]
        for f in st["injected"]:
            want = EXPECT_NOTE[f["kind"]]
            if want is not None and want not in kinds:
                missing.append(dict(fault=f, step=st["label"], reached=st["reached"], do=st["do"], notes=st["notes"]))
    if missing:
        fails.append((111, dict(missing=missing[:3], n=len(missing))))
    # (2b) a fault during a due walk leaves the walk due: it is retried, not skipped
    skipped = [dict(step=st["label"], fault=f) for st in inj.steps for f in st["injected"]
               if st["label"] != "sync" and f.get("in_walk") and not st["walk1"]]
    if skipped:
        fails.append((116, dict(skipped=skipped[:3])))
    # (3) healthy files synchronise while the failing one is set aside
    bad = [h for h in inj.healthy_checks if not h["ok"]]
    if bad:
        fails.append((112, bad[0]))
    fails += inj.oracle_fail
    # (4) after the faults stop: converged (monitor) and not stuck
    if res.stuck and (res.verdict == [] or res.verdict[1] == 11):
        fails.append((115, dict(where="engine still busy after the faults stopped")))
    res.extra["c10_fails"] = fails
    if fails and (res.verdict == [] or res.verdict[1] == 11):
        res.verdict = [len(res.events), fails[0][0]]
        res.extra["oracle_detail"] = fails[0][1]
    return fails


# ---------------------------------------------------------------------- families
def _base_case(rng, n_ops=None):
    """a clean-domain history (one-sided or disjoint two-sided), as C03/C04 use"""
    if rng.random() < 0.6:
        c = EC.gen_one_sided(rng, F.CLEAN_FLAVOURS)
    else:
        c = EC.gen_disjoint(rng, F.CLEAN_FLAVOURS)
    c["mode"] = dict(c["mode"], cov_every_step=True)
    return c


def with_rate_faults(rng):
    """random subsets: every engine API call fails independently with probability 2-20 %, mixed kinds, then the faults
    stop and the run is drained"""
    c = _base_case(rng)
    kinds = rng.choice([["temporary"], ["temporary", "resource_modified", "out_of_space"], ["disconnected"],
                        ["token"], ["token_expired"], ["out_of_space"], list(TRANSIENT_KINDS), list(TRANSIENT_KINDS)])
    p = rng.choice([0.02, 0.05, 0.1, 0.2])
    plan = dict(rules=[dict(t="rate", seed=rng.randrange(1 << 30), p=p, kinds=kinds, max=rng.choice([3, 10, 40]))])
    # every drain of the history stays a real, fault-free drain (the clean domain is about the timing of re-use and of
    # folder operations relative to quiescent points: a folder rename stays bracketed by drains); the faults hit the
    # steps before it and everything between two drains
    sched = [["faults", plan]]
    for a in c["schedule"]:
        if a[0] == "drain":
            sched += [["hook", "steps", rng.randint(0, 4)], ["faults_off"], ["drain"], ["faults", plan]]
        else:
            sched.append(a)
    sched += [["hook", "steps", rng.randint(0, 4)], ["faults_off"]]
    c["schedule"] = sched
    c["c10"] = dict(family="rate", p=p, kinds=kinds)
    return finish_case(c)


def single_fault_cases(base, n_calls, kinds=TRANSIENT_KINDS):
    """each single call index x each kind, exhaustively for one base run (the caller measured n_calls)"""
    out = []
    for k in range(n_calls):
        for kind in kinds:
            c = dict(base)
            c["schedule"] = [["faults", dict(rules=[dict(t="at", index=k, kind=kind)])]] + list(base["schedule"])
            c["c10"] = dict(family="single", index=k, kind=kind)
            out.append(finish_case(c))
    return out


def small_base(rng):
    """a short history for the exhaustive single-fault sweep: creations, edits, a rename, a delete, a folder"""
    c = _base_case(rng)
    tries = 0
    while not (2 <= sum(1 for a in c["schedule"] if a[0] == "user") <= 6) and tries < 50:
        c = _base_case(rng)
        tries += 1
    return c


def permanent_path(rng):
    """a path whose create/upload keeps failing (locked: CloudTemporaryError; invalid name: CloudFileNameError) while
    other files are created and edited; lifted at a random later time; then everything must be in sync"""
    side = rng.choice([0, 1])
    fl = rng.choice([f for f in F.CLEAN_FLAVOURS if not f.oip[side]])
    g = EC.Gen(rng, fl, [side], 0)
    g.allow_empty = False
    g.make_base(rng.randint(0, 3))
    kind = rng.choice(["locked", "locked", "badname"])
    other = 1 - side
    d = rng.choice(g.dirs())
    bad_rel = d + "/" + g.fresh("F")
    bad_abs_other = fl.roots[other].rstrip("/") + bad_rel
    edit_existing = kind == "locked" and g.files() and rng.random() < 0.4
    if edit_existing:
        bad_rel = rng.choice(g.files())
        bad_abs_other = fl.roots[other].rstrip("/") + bad_rel
    plan = dict(rules=[dict(t="path", side=other, path=bad_abs_other, kind=kind)])
    sched = [["drain"], ["faults", plan]]
    if edit_existing:
        sched.append(["user", side, ["write", g.abs(side, bad_rel), g.content()]])
    else:
        g.tree[bad_rel] = "F"
        sched.append(["user", side, ["create", g.abs(side, bad_rel), g.content()]])
    healthy = []
    for _ in range(rng.randint(1, 5)):
        r = rng.random()
        files = [f for f in g.files() if f != bad_rel]
        if r < 0.6 or not files:
            dd = rng.choice(g.dirs())
            rel = dd + "/" + g.fresh("F")
            g.tree[rel] = "F"
            healthy.append(rel)
            sched.append(["user", side, ["create", g.abs(side, rel), g.content()]])
        else:
            rel = rng.choice(files)
            sched.append(["user", side, ["write", g.abs(side, rel), g.content()]])
        if rng.random() < 0.5:
            sched.append(["hook", "steps", 1])
    n_ops = sum(1 for a in sched if a[0] == "user")
    sched.append(["hook", "until_healthy", [bad_rel], 4 * n_ops + 8])
    if kind == "badname":
        sched.append(["hook", "expect_set_aside", 12])
    if rng.random() < 0.5:
        # the entry keeps failing (it has been punted several times by now) while new work arrives
        sched.append(["hook", "steps", rng.randint(1, 8)])
        for _ in range(rng.randint(1, 3)):
            dd = rng.choice(g.dirs())
            rel = dd + "/" + g.fresh("F")
            g.tree[rel] = "F"
            sched.append(["user", side, ["create", g.abs(side, rel), g.content()]])
        sched.append(["hook", "until_healthy", [bad_rel], 4 * 3 + 8])
    # lifted at an arbitrary later time
    sched.append(["hook", "steps", rng.randint(0, 12)])
    sched.append(["faults_off"])
    new_rel = None
    if kind == "badname":
        # an invalid name stops failing when the user renames the file
        new_rel = d + "/" + g.fresh("F")
        sched.append(["user", side, ["rename", g.abs(side, bad_rel), g.abs(side, new_rel)]])
    c = dict(flavour=fl.key(), base=g.base, schedule=sched, hash_mult=rng.choice([1, 3, 7, 11, 2654435761]),
             mode=dict(origin=None if kind == "badname" else side, check_spec=(kind != "badname"), no_conflicted=True,
                       cov_every_step=True))
    c["c10"] = dict(family="path", kind=kind, bad=bad_rel, side=side, renamed=new_rel, edit=bool(edit_existing))
    return finish_case(c)


def walk_faults(rng):
    """start-up / fallback walk under faults: content exists that no event will announce (cursor at 'latest'), a walk
    of the root is due, and listdir / info_oid fail during it; the walk must be retried (TEMPORARY_ERROR etc. reported)
    and the whole subtree must arrive once the faults stop"""
    side = rng.choice([0, 1])
    fl = rng.choice([f for f in F.CLEAN_FLAVOURS if not f.oip[side]])
    g = EC.Gen(rng, fl, [side], 0)
    g.allow_empty = False
    g.make_base(rng.randint(0, 3))
    sched = [["drain"]]
    for _ in range(rng.randint(1, 3)):
        r = rng.random()
        if r < 0.5:
            # a folder with content, two levels
            d = rng.choice(g.dirs())
            if d.count("/") >= 2:
                d = ""
            top = d + "/" + g.fresh("D")
            g.tree[top] = "D"
            sched.append(["user", side, ["mkdir", g.abs(side, top)]])
            for _ in range(rng.randint(0, 3)):
                rel = top + "/" + g.fresh("F")
                g.tree[rel] = "F"
                sched.append(["user", side, ["create", g.abs(side, rel), g.content()]])
            if rng.random() < 0.5:
                sub = top + "/" + g.fresh("D")
                g.tree[sub] = "D"
                sched.append(["user", side, ["mkdir", g.abs(side, sub)]])
                rel = sub + "/" + g.fresh("F")
                g.tree[rel] = "F"
                sched.append(["user", side, ["create", g.abs(side, rel), g.content()]])
        elif r < 0.8 or not g.files():
            g.one_op_simple(side)
            sched.append(g.sched.pop())
        else:
            rel = rng.choice(g.files())
            sched.append(["user", side, ["write", g.abs(side, rel), g.content()]])
    sched.append(["hook", "lose_events", side])
    kinds = rng.choice([["temporary"], ["temporary", "resource_modified"], ["disconnected"], ["token_expired"], list(TRANSIENT_KINDS)])
    if rng.random() < 0.5:
        plan = dict(rules=[dict(t="rate", seed=rng.randrange(1 << 30), p=rng.choice([0.1, 0.3, 0.6]), kinds=kinds,
                                calls=["listdir", "info_oid"], max=rng.choice([1, 3, 8]))])
    else:
        plan = dict(rules=[dict(t="at", index=rng.randint(0, 12), kind=rng.choice(kinds))])
    sched += [["faults", plan], ["hook", "steps", rng.randint(2, 8)], ["faults_off"]]
    c = dict(flavour=fl.key(), base=g.base, schedule=sched, hash_mult=rng.choice([1, 3, 7, 11, 2654435761]),
             mode=dict(origin=side, check_spec=True, no_conflicted=True, cov_every_step=True))
    c["c10"] = dict(family="walk", kinds=kinds)
    return finish_case(c)


def finish_case(c):
    """the monitor's step bound counts engine steps since the last user operation without a quiet report: while a
    fault window is open the engine is not expected to go quiet, so the window's steps are added to the default bound"""
    n_user = sum(1 for a in c["schedule"] if a[0] == "user")
    extra = 0
    for a in c["schedule"]:
        if a[0] in ("intake", "sync"):
            extra += 1
        elif a[0] == "hook" and a[1] == "steps":
            extra += 3 * a[2]
        elif a[0] == "hook" and a[1] == "until_healthy":
            extra += 3 * a[3]
        elif a[0] == "hook" and a[1] == "expect_set_aside":
            extra += 3 * a[2]
    c["step_bound"] = 3 * (EC.STEP_BOUND_BASE + EC.STEP_BOUND_PER_OP * max(1, n_user)) + extra
    return c


# ====================================================================== the step-outcome machine (FaultModel.v) tie
from fractions import Fraction as Fr

LIMB = 1 << 32
KNOWN_CODE = {"Exception": 0, "CloudException": 1, "CloudFileNotFoundError": 2, "CloudTemporaryError": 3,
              "CloudFileNameError": 4, "CloudOutOfSpaceError": 5, "CloudRootMissingError": 6,
              "CloudResourceModifiedError": 7, "CloudFileExistsError": 8, "CloudTokenError": 9,
              "CloudDisconnectedError": 10, "CloudCursorError": 11, "CloudNamespaceError": 12,
              "CloudTooManyRetriesError": 13, "CloudCorruptError": 14}
NKIND_CODE = {"DISCONNECTED_ERROR": 0, "OUT_OF_SPACE_ERROR": 1, "FILE_NAME_ERROR": 2, "NAMESPACE_ERROR": 3,
              "ROOT_MISSING_ERROR": 4, "TEMPORARY_ERROR": 5}


def big_sx(n):
    out = []
    while n:
        out.append(n % LIMB)
        n //= LIMB
    return out


def q_sx(x):
    f = Fr(x)
    return [1 if f < 0 else 0, big_sx(abs(f.numerator)), big_sx(f.denominator)]


def sx_q(t):
    s, n, d = t

    def big(l):
        v = 0
        for x in reversed(l):
            v = v * LIMB + x
        return v
    return Fr(-big(n) if s else big(n), big(d))


def cls_sx(path):
    """class path (names from the class up to Exception) -> (known code, depth below it)"""
    for depth, name in enumerate(path):
        if name in KNOWN_CODE:
            return [KNOWN_CODE[name], depth]
    raise ValueError("class path without a known ancestor: %r" % (path,))


def params_sx(mgr):
    return [q_sx(mgr.min_backoff), q_sx(mgr.max_backoff), q_sx(mgr.mult_backoff), q_sx(0)]


def sync_sres(st):
    """a recorded SyncManager step -> sres of FaultModel"""
    r = st["reached"]
    if r is not None:
        tag, path = r
        if tag == "roots":
            return [3, cls_sx(path)]
        if tag == "change":
            return [4, cls_sx(path)]
        return [2, cls_sx(path)]
    if st["do"] == "exc":
        return [4, cls_sx(st["escaped"])]        # left do() without passing pre_sync/sync/roots
    if st["picked"] is None:
        return [0]
    return [1, 0 if st["noop"] else 1]


def intake_einput(st):
    def rres(v):
        return [] if v in (None, "ok") else [cls_sx(v)]
    body = []
    if st["reached"] is not None and st["reached"][0] in ("validate_root", "intake"):
        body = [cls_sx(st["reached"][1])]
    reauth = [] if st["reauth"] == "notimpl" else [rres(st["reauth"])]
    return [1 if st["connected0"] else 0, rres(st["reconnect"]), reauth, body]


def observed_effect(st):
    """what the step did, in the vocabulary of the model's trace line"""
    emitted = [k for c in st["nfe"] for k in c["emitted"]]
    note = [NKIND_CODE[emitted[0]]] if emitted else []
    punt = bool(st.get("punts"))
    out = {"ok": 1 if st["noop"] else 0, "backoff": 2, "exc": 3, "base": 4}.get(st["do"], 9)
    return dict(note=note, punt=punt, commit=st["commits"] >= 1, out=out, b1=Fr(st["b1"]),
                cursor=bool(st.get("tag_deleted")) and bool(st["walk1"]), need_auth=bool(st["need_auth1"]),
                reconnect=st["reconnect"] is not None, reauth=st["reauth"] is not None, n_nfe=len(st["nfe"]))


def machine_check(inj, model):
    """stepwise correspondence FaultModel.smgr_step / emgr_step vs the recorded real steps -> list of differences"""
    diffs = []
    eng = inj.eng
    by = {"sync": [], "events0": [], "events1": []}
    for st in inj.steps:
        by[st["label"]].append(st)
    for label, sts in by.items():
        if not sts:
            continue
        mgr = eng.cs.smgr if label == "sync" else eng.cs.emgrs[int(label[-1])]
        for a, b in zip(sts, sts[1:]):
            if Fr(a["b1"]) != Fr(b["b0"]):
                diffs.append((label, "in_backoff changed between two steps", a["b1"], b["b0"]))
        if label == "sync":
            req = [2, params_sx(mgr), q_sx(sts[0]["b0"]), [sync_sres(s) for s in sts]]
        else:
            req = [3, params_sx(mgr), q_sx(sts[0]["b0"]), 1 if sts[0]["need_auth0"] else 0, [intake_einput(s) for s in sts]]
        out = model.call(req)
        if out == fw.MALFORMED or len(out) != len(sts):
            diffs.append((label, "model rejected the request", req[3:][:1], out))
            continue
        for n, (st, line) in enumerate(zip(sts, out)):
            ob = observed_effect(st)
            note, punt, commit, cursor, auth_set, outc, b = line[0], bool(line[1]), bool(line[2]), bool(line[3]), bool(line[4]), line[5], sx_q(line[6])
            bad = []
            if note != ob["note"]:
                bad.append(("note", note, ob["note"]))
            if outc != ob["out"]:
                bad.append(("outcome", outc, ob["out"]))
            if b != ob["b1"]:
                bad.append(("in_backoff", str(b), str(ob["b1"])))
            if label == "sync":
                kind = sync_sres(st)[0]
                if kind in (2, 3, 4) and punt != ob["punt"]:
                    bad.append(("punt", punt, ob["punt"], st["picked"]))
                if commit != ob["commit"]:
                    bad.append(("commit", commit, ob["commit"]))
            else:
                if bool(line[7]) != ob["need_auth"]:
                    bad.append(("need_auth", bool(line[7]), ob["need_auth"]))
                if bool(line[8]) != ob["reconnect"]:
                    bad.append(("reconnect called", bool(line[8]), ob["reconnect"]))
                if bool(line[9]) != ob["reauth"]:
                    bad.append(("reauthenticate called", bool(line[9]), ob["reauth"]))
                if cursor != ob["cursor"]:
                    bad.append(("cursor reset", cursor, ob["cursor"]))
            if bad:
                diffs.append((label, n, bad, dict(reached=st["reached"], do=st["do"], picked=st["picked"], noop=st["noop"],
                                                  reconnect=st["reconnect"], reauth=st["reauth"], connected0=st["connected0"],
                                                  need_auth0=st["need_auth0"])))
    return diffs


from . import framework as fw   # noqa: E402


# ====================================================================== scripted steps on the REAL managers
def exception_zoo():
    """every class of exceptions.py, foreign subclasses of each (depth 1..3), and non-cloud exceptions"""
    import cloudsync.exceptions as ex
    zoo = []
    known = [getattr(ex, n) for n in KNOWN_CODE if n != "Exception"] + [Exception]
    for k in known:
        zoo.append(k)
        c = k
        for d in range(1, 4):
            c = type("Foreign%d" % d, (c,), {})
            zoo.append(c)
    zoo += [ValueError, KeyError, AssertionError, NotImplementedError, OSError, RuntimeError, ZeroDivisionError]
    return zoo


class Scripted:
    """a real CloudSync over two MockProviders whose managers' inner calls are scripted: each step says what
    pre_sync/sync/state.change/set_root (sync loop) or reconnect/reauthenticate/_do_unsafe (event loop) does"""

    def __init__(self):
        E.install()
        E.reset_serials()
        self.world = E.World(E.Flavour())
        self.eng = E.Engine(self.world)
        self.eng.drain(50)
        self.script = {}
        cs = self.eng.cs
        sm = cs.smgr
        sc = self.script
        # a pending entry for the sync loop to pick
        self.world.user(0, ["create", "/local/pending", b"x"])
        self.eng.intake(0)
        raw_change = cs.state.change

        def change(age):
            a = sc.get("change")
            if a == "none":
                return None
            if a is not None:
                raise a
            return raw_change(age)
        cs.state.change = change

        def pre_sync(sync):
            a = sc.get("pre_sync")
            if isinstance(a, BaseException):
                raise a
            return bool(a)
        sm.pre_sync = pre_sync

        def sync(sync_ent, want_raise=False):
            a = sc.get("sync")
            if isinstance(a, BaseException):
                raise a
            return bool(a)
        sm.sync = sync
        p0 = self.world.provs[0]
        raw_set_root = p0.set_root

        def set_root(path=None, oid=None):
            a = sc.get("set_root")
            if a is not None:
                raise a
            return raw_set_root(path, oid)
        p0.set_root = set_root
        em = cs.emgrs[0]

        def do_unsafe():
            a = sc.get("body")
            if a is not None:
                raise a
        em._do_unsafe = do_unsafe

        def reconnect():
            a = sc.get("reconnect")
            if a is not None:
                raise a
            p0._Provider__connected = True
        p0.reconnect = reconnect

        def reauth():
            a = sc.get("reauth")
            if a is not None:
                raise a
            p0._Provider__connected = True
        em.reauthenticate = reauth
        self.inj = Injector(dict())
        self.inj.attach(self.eng, self.world)

    def sync_step(self, kind, exc=None, did=True):
        sc = self.script
        sc.clear()
        sm = self.eng.cs.smgr
        if kind == "idle":
            sc["change"] = "none"
        elif kind == "done":
            sc["pre_sync"] = did and self_rng_bool(self)
            sc["sync"] = did
        elif kind == "raise_pre":
            sc["pre_sync"] = exc
        elif kind == "raise_sync":
            sc["pre_sync"] = False
            sc["sync"] = exc
        elif kind == "roots":
            sm._root_validated = [False, True]
            sc["set_root"] = exc
        elif kind == "change":
            sc["change"] = exc
        self.eng.sync()
        sm._root_validated = [True, True]

    def intake_step(self, conn, reconnect=None, reauth=None, body=None):
        sc = self.script
        sc.clear()
        self.world.provs[0]._Provider__connected = conn
        sc["reconnect"], sc["reauth"], sc["body"] = reconnect, reauth, body
        self.eng.intake(0)

    def close(self):
        self.world.provs[0]._Provider__connected = True
        self.eng.stop()


def self_rng_bool(s):
    s._flip = not getattr(s, "_flip", False)
    return s._flip


def scripted_sequence(rng, zoo, n):
    """a random sequence of scripted steps for both loops; returns the Scripted object after running it"""
    S = Scripted()
    for _ in range(n):
        r = rng.random()
        if r < 0.5:
            k = rng.choice(["idle", "done", "done", "raise_pre", "raise_sync", "raise_sync", "roots", "change"])
            S.sync_step(k, exc=rng.choice(zoo)("scripted"), did=rng.random() < 0.6)
        else:
            def maybe(p):
                return rng.choice(zoo)("scripted") if rng.random() < p else None
            reauth = maybe(0.3)
            if rng.random() < 0.15:
                reauth = NotImplementedError()
            import cloudsync.exceptions as ex
            rc = maybe(0.3)
            if rng.random() < 0.3:
                rc = ex.CloudTokenError("scripted")
            S.intake_step(conn=rng.random() < 0.5, reconnect=rc, reauth=reauth, body=maybe(0.5))
    return S


# ====================================================================== the scheduler under failing entries (real SyncState)
def sched_real(rng):
    """a real SyncState with n pending entries, some failing for ever; change()/punt()/finished() in a loop.
    -> (request for the model, real picks, priorities at the end)"""
    E.install()
    from cloudsync.providers.mock import MockProvider
    import cloudsync.sync.state as S
    from cloudsync.types import FILE
    pa, pb = MockProvider(False, True), MockProvider(False, True)
    pa.default_sleep = pb.default_sleep = 1.25            # punt_secs = 0.125, exact in binary
    st = S.SyncState((pa, pb))
    n = rng.randint(2, 7)
    ents = []
    for i in range(n):
        st.update(0, FILE, "oid%d" % i, path="/f%d" % i, hash=b"h%d" % i, exists=True)
        ent = st.lookup_oid(0, "oid%d" % i)
        ents.append(ent)
    pri_pool = [0, 0, 0, 0, 1, 2, 0.5, 3]
    for i, ent in enumerate(ents):
        ent[0].changed = 0
        p = rng.choice(pri_pool)
        if p:
            ent.priority = p
        ent[0].changed = 8.0 + i * 0.25 + rng.choice([0, 0.125])
    order = list(st._changeset)
    failing = [i for i in range(len(order)) if rng.random() < 0.4]
    rows = [[q_sx(e.priority), [q_sx(e[0].changed)] if e[0].changed else [], [q_sx(e[1].changed)] if e[1].changed else []] for e in order]
    steps = rng.randint(n, 4 * n + 6)
    age = 0.5
    ets, picks = [], []
    now = 100.0
    for _ in range(steps):
        now += rng.choice([0.0, 0.25, 1.0, 3.0])
        E.CLOCK.t = now - E.CLOCK.tick
        ent = st.change(age)
        ets.append(q_sx(Fr(now) - Fr(age)))
        if ent is None:
            picks.append([0])
            continue
        i = order.index(ent)
        if i in failing:
            ent.punt()
            picks.append([2, i])
        else:
            for side in (0, 1):
                if ent[side].changed:
                    ent[side].changed = 0
            st.finished(ent)
            picks.append([1, i])
    left = sorted([order.index(e), Fr(e.priority)] for e in st._changeset)
    req = [4, [q_sx(Fr(0.125)), q_sx(Fr(0.125))], failing, rows, ets]
    return req, picks, left, dict(n=n, failing=len(failing), steps=steps)


# ====================================================================== every escaped class through the real loop body
def real_loop_survives(exc_class):
    """a Runnable whose do() raises exc_class once and then returns: the REAL run() must call do() again and keep
    its bookkeeping (backoff raised after the failure, cleared after the success)"""
    from cloudsync.runnable import Runnable

    class R(Runnable):
        def __init__(self):
            self.calls = 0
            self.trace = []

        def do(self):
            self.calls += 1
            self.trace.append(self.in_backoff)
            if self.calls == 1:
                raise exc_class("once")

        def interruptable_sleep(self, secs):
            self.trace.append(("sleep", secs))
    r = R()
    r.run(until=lambda: r.calls >= 3, sleep=0)
    ok = r.calls == 3 and r.trace[0] == 0 and r.trace[2] == r.min_backoff and r.in_backoff == 0
    return ok, r.calls, r.trace


# ====================================================================== full runner: oracles + machine tie
_FM = [None]


def run_full(case, monitor):
    """run_c10 + stepwise correspondence with FaultModel (code 113 when only that differs)"""
    res = run_c10(case, monitor, keep=True)
    inj = res.extra["c10"]
    try:
        if _FM[0] is None:
            _FM[0] = fw.ModelProc("fault")
        diffs = machine_check(inj, _FM[0])
    finally:
        try:
            res.extra["engine"].stop()
        except Exception:
            pass
        res.extra.pop("engine", None)
        res.extra.pop("world", None)
    res.extra["machine_diffs"] = diffs
    if diffs and res.verdict == []:
        res.verdict = [len(res.events), 113]
        res.extra["oracle_detail"] = [repr(d)[:400] for d in diffs[:3]]
    return res
