"""Stream B generators — FROZEN (version below).  The deterministic, VERIF_SEED-independent case set over
ALL flavours, the full operation alphabet and re-used names (DESIGN §4.3).  Case ids listed in
known_findings.json depend on every line of this file: do not edit it; add a new version instead."""
import random

VERSION = "streamB-v1"

NAMES = ["a", "b", "c", "d"]

FLAVOUR_KEYS = [[list(o), list(c), f, "path", ["/local", "/remote"]]
                for o in [(False, False), (False, True), (True, False), (True, True)]
                for c in [(True, True), (False, False)]
                for f in (False, True)]


def _path(rng, root, depth2=0.4):
    p = root + "/" + rng.choice(NAMES)
    if rng.random() < depth2:
        p += "/" + rng.choice(NAMES)
    return p


def _op(rng, root, counter):
    r = rng.random()
    if r < 0.28:
        counter[0] += 1
        return ["create", _path(rng, root), ("v%d" % counter[0]).encode()]
    if r < 0.45:
        counter[0] += 1
        return ["write", _path(rng, root), ("v%d" % counter[0]).encode()]
    if r < 0.62:
        return ["mkdir", _path(rng, root, 0.3)]
    if r < 0.82:
        for _ in range(10):
            a, b = _path(rng, root), _path(rng, root)
            if a != b and not b.startswith(a + "/"):
                return ["rename", a, b]
        return ["mkdir", _path(rng, root, 0.3)]
    return ["delete", _path(rng, root)]


def _noise(rng, sched, p=0.45):
    while rng.random() < p:
        r = rng.random()
        sched.append(["intake", 0] if r < 0.33 else (["intake", 1] if r < 0.66 else ["sync"]))


def wild(index, two_sided):
    rng = random.Random("%s/%s/%d" % (VERSION, "two" if two_sided else "one", index))
    fk = FLAVOUR_KEYS[index % len(FLAVOUR_KEYS)]
    roots = fk[4]
    counter = [0]
    base = []
    for _ in range(rng.randint(0, 4)):
        op = _op(rng, roots[0], counter)
        if op[0] in ("create", "mkdir"):
            base.append(op)
    side0 = rng.choice([0, 1])
    sched = []
    for _ in range(rng.randint(1, 7)):
        side = rng.choice([0, 1]) if two_sided else side0
        sched.append(["user", side, _op(rng, roots[side], counter)])
        _noise(rng, sched)
        if rng.random() < 0.15:
            sched.append(["drain"])
    mode = dict(origin=None if two_sided else side0, check_spec=not two_sided, no_conflicted=not two_sided,
                cov_every_step=False)
    return dict(flavour=fk, base=base, schedule=sched, hash_mult=[1, 3, 7, 11][index % 4], mode=mode)


def wild_one(index):
    return wild(index, False)


def wild_two(index):
    return wild(index, True)
