"""Build of the Coq development and of the extracted model executables.

setup_cmd runs `python harness/build.py all`; every check calls ensure() (incremental make)
and prop_gate() (forced re-check of its property file by the Coq kernel).
Every coqc/make runs under a shell-level timeout.
"""
import fcntl
import glob
import os
import re
import subprocess
import sys
import time

VERIF = os.path.dirname(os.path.dirname(os.path.abspath(__file__)))
COQ = os.path.join(VERIF, "coq")
THEORIES = os.path.join(COQ, "theories")
BIN = os.path.join(COQ, "bin")
LOCK = os.path.join(COQ, ".build.lock")

FORBIDDEN = re.compile(
    r"\b(Admitted|admit|Axiom|Axioms|Parameter|Parameters|Conjecture|Conjectures|Admit\s+Obligations|"
    r"Unset\s+Guard\s+Checking|Unset\s+Positivity\s+Checking|Unset\s+Universe\s+Checking|bypass_check|"
    r"native_compute|type-in-type|impredicative-set)\b")
# Variable/Hypothesis are allowed only inside a Section; checked separately.
SECTION_ONLY = re.compile(r"^\s*(Variable|Variables|Hypothesis|Hypotheses|Context)\b")


class BuildError(Exception):
    pass


def _strip_comments(text):
    out, depth, i, n = [], 0, 0, len(text)
    while i < n:
        if text.startswith("(*", i):
            depth += 1
            i += 2
        elif text.startswith("*)", i) and depth:
            depth -= 1
            i += 2
        else:
            if not depth:
                out.append(text[i])
            elif text[i] == "\n":
                out.append("\n")
            i += 1
    return "".join(out)


def vfiles():
    return sorted(glob.glob(os.path.join(THEORIES, "*.v")))


def lint():
    """Forbidden vernacular anywhere in the development -> list of 'file:line: text'."""
    bad = []
    for f in vfiles():
        text = _strip_comments(open(f, encoding="utf-8").read())
        depth = 0
        for ln, line in enumerate(text.split("\n"), 1):
            if re.match(r"^\s*Section\b", line):
                depth += 1
            if re.match(r"^\s*End\b", line) and depth:
                depth -= 1
            if FORBIDDEN.search(line):
                bad.append("%s:%d: %s" % (os.path.basename(f), ln, line.strip()))
            if SECTION_ONLY.match(line) and depth == 0:
                bad.append("%s:%d: (outside a Section) %s" % (os.path.basename(f), ln, line.strip()))
    return bad


def _run(cmd, timeout, cwd=COQ):
    p = subprocess.run(["timeout", str(timeout)] + cmd, cwd=cwd, stdout=subprocess.PIPE,
                       stderr=subprocess.STDOUT, text=True)
    return p.returncode, p.stdout


class _Lock:
    def __enter__(self):
        os.makedirs(COQ, exist_ok=True)
        self.f = open(LOCK, "w")
        fcntl.flock(self.f, fcntl.LOCK_EX)

    def __exit__(self, *a):
        fcntl.flock(self.f, fcntl.LOCK_UN)
        self.f.close()


def _write_project():
    files = [os.path.relpath(f, COQ) for f in vfiles()]
    text = "-Q theories CS\n-arg -w -arg -notation-overridden,-deprecated-hint-without-locality,-deprecated-instance-without-locality\n" + "\n".join(files) + "\n"
    path = os.path.join(COQ, "_CoqProject")
    old = open(path).read() if os.path.exists(path) else None
    if old != text:
        open(path, "w").write(text)
        rc, out = _run(["coq_makefile", "-f", "_CoqProject", "-o", "Makefile"], 60)
        if rc:
            raise BuildError("coq_makefile failed:\n" + out)
    elif not os.path.exists(os.path.join(COQ, "Makefile")):
        rc, out = _run(["coq_makefile", "-f", "_CoqProject", "-o", "Makefile"], 60)
        if rc:
            raise BuildError("coq_makefile failed:\n" + out)


def _extract_targets():
    """Extract*.v files say:  Extraction "extract/<name>/model.ml" run ...  -> [(name, vfile)]"""
    res = []
    for f in vfiles():
        m = re.search(r'Extraction\s+"extract/([A-Za-z0-9_]+)/model\.ml"', open(f).read())
        if m:
            res.append((m.group(1), f))
    return res


def _build_bins(force=False, only=None):
    os.makedirs(BIN, exist_ok=True)
    for name, vf in _extract_targets():
        if only is not None and name not in only:
            continue
        d = os.path.join(COQ, "extract", name)
        ml = os.path.join(d, "model.ml")
        exe = os.path.join(BIN, name)
        drv = os.path.join(COQ, "ocaml", "driver.ml")
        if not os.path.exists(ml):
            raise BuildError("extraction did not produce " + ml)
        if (not force and os.path.exists(exe) and os.path.getmtime(exe) >= os.path.getmtime(ml)
                and os.path.getmtime(exe) >= os.path.getmtime(drv)):
            continue
        subprocess.run(["cp", drv, os.path.join(d, "driver.ml")], check=True)
        rc, out = _run(["ocamlfind", "ocamlopt", "-O2", "-w", "-a", "-I", d,
                        os.path.join(d, "model.mli"), ml, os.path.join(d, "driver.ml"), "-o", exe], 300)
        if rc:
            # -O2 is only understood by flambda builds; retry without
            rc, out = _run(["ocamlfind", "ocamlopt", "-w", "-a", "-I", d,
                            os.path.join(d, "model.mli"), ml, os.path.join(d, "driver.ml"), "-o", exe], 300)
        if rc:
            raise BuildError("ocaml build of %s failed:\n%s" % (name, out))


# ---------------------------------------------------------------- files regenerated from /repo's current source
# (target file under theories/, module, function returning the text, exception class name).  EVERY check regenerates
# ALL of them before it builds anything, so that a stale translation left behind by an earlier run against a
# different source tree can never leak into this run.  When a translator rejects the current source, the target is
# restored from coq/gen_baseline/ (the translation of the pinned source, committed), so that checks which do not
# own that translator still build; the owning check reports the rejection itself.
GENERATED = [
    ("GenPath.v", "harness.translator", "generate_current"),
    ("GenSched.v", "harness.c17_translator", "translate_current"),
    ("GenNotify.v", "harness.c10_translator", "translate_current"),
    ("GenEntryPred.v", "harness.entry_translator", "translate_current"),
    ("GenBackoff.v", "harness.entry_translator", "translate_backoff_current"),
]
GEN_BASELINE = os.path.join(COQ, "gen_baseline")


def regen_all():
    """-> {target: 'unchanged' | 'regenerated' | 'rejected: <why>'}"""
    import importlib
    # the translators read the source of the tree under test: /repo (or CLOUDSYNC_REPO), never the copy of the
    # package that is installed in the interpreter's site-packages (./check pins PYTHONPATH; setup_cmd does not)
    repo = os.environ.get("CLOUDSYNC_REPO") or "/repo"
    for pth in (VERIF, repo):
        if pth not in sys.path:
            sys.path.insert(0, pth)
    if repo in sys.path and sys.path.index(repo) > 0:
        sys.path.remove(repo)
        sys.path.insert(0, repo)
    mod_cs = sys.modules.get("cloudsync")
    if mod_cs is not None and not os.path.abspath(getattr(mod_cs, "__file__", "")).startswith(os.path.abspath(repo) + os.sep):
        raise BuildError("cloudsync was imported from %s, not from %s" % (getattr(mod_cs, "__file__", "?"), repo))
    out = {}
    for target, modname, fn in GENERATED:
        path = os.path.join(THEORIES, target)
        try:
            mod = importlib.import_module(modname)
            text = getattr(mod, fn)()
            status = None
        except Exception as e:      # fail-closed translators raise on anything outside their whitelist
            base = os.path.join(GEN_BASELINE, target)
            text = open(base, encoding="utf-8").read() if os.path.exists(base) else None
            status = "rejected: %s: %s" % (type(e).__name__, str(e)[:300])
        if text is not None:
            old = open(path, encoding="utf-8").read() if os.path.exists(path) else None
            if old != text:
                with open(path, "w", encoding="utf-8") as f:
                    f.write(text)
                status = status or "regenerated"
        out[target] = status or "unchanged"
    return out


def _make(targets, jobs, timeout):
    rc, out = _run(["make", "-j%d" % jobs] + targets, timeout)
    if rc:
        raise BuildError("make %s failed (rc=%d):\n%s" % (" ".join(targets) or "(all)", rc, out[-6000:]))


def ensure_scope(vo_names, bins=(), jobs=16, timeout=1500):
    """Incremental build of exactly the dependency closures of theories/<name>.vo for the given names and of the
    named model executables — what ONE check needs.  A file outside those closures that does not compile (e.g. the
    equality proof over another property's regenerated definitions) does not concern this check."""
    with _Lock():
        regen_all()
        ex = dict(_extract_targets())
        for name in bins:
            if name not in ex:
                raise BuildError("no Extract*.v produces the model executable %r" % name)
            os.makedirs(os.path.join(COQ, "extract", name), exist_ok=True)
        _write_project()
        targets = ["theories/%s.vo" % n for n in vo_names]
        targets += ["theories/%s.vo" % os.path.splitext(os.path.basename(ex[n]))[0] for n in bins]
        if targets:
            _make(targets, jobs, timeout)
        _build_bins(only=set(bins))
    return True


def ensure(jobs=16, timeout=1500):
    """Incremental full .vo build + model executables.  Raises BuildError with the log."""
    with _Lock():
        for name, _ in _extract_targets():
            os.makedirs(os.path.join(COQ, "extract", name), exist_ok=True)
        regen_all()
        _write_project()
        rc, out = _run(["make", "-j%d" % jobs], timeout)
        if rc:
            raise BuildError("make failed (rc=%d):\n%s" % (rc, out[-6000:]))
        _build_bins()
    return True


def prop_gate(prop_file, timeout=900):
    """Force the kernel to re-check theories/<prop_file>.v now; parse Print Assumptions.

    Returns dict(theorems=[...], assumptions={thm: [axioms]}, closed=[...], log=str, ok=bool, error=str|None)
    """
    vo = os.path.join(THEORIES, prop_file + ".vo")
    with _Lock():
        for ext in (".vo", ".vos", ".vok", ".glob"):
            p = os.path.join(THEORIES, prop_file + ext)
            if os.path.exists(p):
                os.remove(p)
        t0 = time.time()
        rc, out = _run(["make", "theories/%s.vo" % prop_file], timeout)
    res = dict(theorems=[], assumptions={}, closed=[], log=out, ok=(rc == 0), error=None,
               wall_s=round(time.time() - t0, 2))
    if rc:
        res["error"] = "coqc failed on %s.v (rc=%d): %s" % (prop_file, rc, out[-3000:])
        return res
    src = _strip_comments(open(os.path.join(THEORIES, prop_file + ".v")).read())
    res["theorems"] = re.findall(r"^\s*(?:Theorem|Corollary)\s+([A-Za-z0-9_']+)", src, re.M)
    printed = re.findall(r"Print\s+Assumptions\s+([A-Za-z0-9_'.]+)\s*\.", src)
    # Coq prints, in order, one block per Print Assumptions
    blocks = re.split(r"(?=^Closed under the global context|^Axioms:|^Section Variables:)", out, flags=re.M)
    blocks = [b for b in blocks if re.match(r"Closed under the global context|Axioms:|Section Variables:", b)]
    if len(blocks) != len(printed):
        res["ok"] = False
        res["error"] = "Print Assumptions count mismatch: %d printed vs %d blocks" % (len(printed), len(blocks))
        return res
    for name, b in zip(printed, blocks):
        name = name.split(".")[-1]
        if b.startswith("Closed under the global context"):
            res["closed"].append(name)
            res["assumptions"][name] = []
        else:
            axs = re.findall(r"^([A-Za-z0-9_'.]+)\s*:", b, re.M)
            res["assumptions"][name] = axs
    missing = [t for t in res["theorems"] if t not in res["assumptions"]]
    if missing:
        res["ok"] = False
        res["error"] = "theorems without Print Assumptions: " + ", ".join(missing)
    return res


if __name__ == "__main__":
    what = sys.argv[1] if len(sys.argv) > 1 else "all"
    try:
        bad = lint()
        if bad:
            print("forbidden vernacular:\n" + "\n".join(bad))
            sys.exit(2)
        ensure()
        print("build ok")
    except BuildError as e:
        print(str(e))
        sys.exit(2)
