"""Fail-closed Python-ast -> Gallina translator for a fixed list of tiny pure functions (DESIGN 2.4).

Second tie of C13: the *current* source of Provider.normalize_path_separators / split / is_subpath /
replace_path is re-read on every run and turned into coq/theories/GenPath.v; PathGenLaws.v proves the
generated definitions equal to the hand-written model (PathModel.v), so every theorem about the model
is a theorem about what the source says now.  Any syntax outside the whitelist below raises
Untranslatable (the check reports it as a violation naming the function); nothing is guessed.

Python semantics relied upon (each mirrored by a definition of GenPrims.v):
  str truthiness, ==/!=, +, len, slices with optional bounds (full clamp semantics), .replace/.rstrip/.rfind
  with one-character arguments, .lower (the convention's per-character fold), .startswith,
  `and`/`or`/`not`, conditional expressions, int literals, + and comparisons on ints.
Indexing s[i] is accepted only as `len(s) > i and s[i] == c` (so IndexError is impossible and the
pure reading is exact).
"""
import ast
import inspect
import textwrap


class Untranslatable(Exception):
    pass


def _fail(node, why):
    raise Untranslatable("%s at line %s: %s" % (why, getattr(node, "lineno", "?"), ast.dump(node)[:160]))


def _is_self_attr(node, name=None):
    return (isinstance(node, ast.Attribute) and isinstance(node.value, ast.Name) and node.value.id in ("self", "cls")
            and (name is None or node.attr == name))


class Fn:
    """translation of one function body"""

    def __init__(self, ret):
        self.ret = ret          # 'str' | 'pair' | 'sub' | 'rep'

    # ---------------------------------------------------------------- expressions
    def char(self, node, env):
        """a one-character argument (separator) -> Gallina term of type N"""
        if _is_self_attr(node, "sep"):
            return "(cv_sep cv)"
        if _is_self_attr(node, "alt_sep"):
            if "$alt" not in env:
                _fail(node, "alt_sep used outside `... if cls.alt_sep else ...`")
            return env["$alt"]
        _fail(node, "character argument is not self.sep / cls.alt_sep")

    def ex(self, node, env):
        """-> (gallina text, type) with type in str|bool|int|sub|pair"""
        if isinstance(node, ast.Constant):
            if node.value == "":
                return "[]", "str"
            if isinstance(node.value, bool):
                return ("true" if node.value else "false"), "bool"
            if isinstance(node.value, int):
                return "(%d)%%Z" % node.value, "int"
            _fail(node, "constant")
        if isinstance(node, ast.UnaryOp) and isinstance(node.op, ast.USub) and isinstance(node.operand, ast.Constant) \
                and isinstance(node.operand.value, int) and not isinstance(node.operand.value, bool):
            return "(-%d)%%Z" % node.operand.value, "int"
        if isinstance(node, ast.Name):
            if node.id not in env:
                _fail(node, "unknown name")
            return env[node.id]
        if _is_self_attr(node, "sep"):
            return "[cv_sep cv]", "str"
        if _is_self_attr(node, "case_sensitive"):
            return "(cv_cs cv)", "bool"
        if isinstance(node, ast.IfExp):
            if _is_self_attr(node.test, "alt_sep"):
                env2 = dict(env)
                env2["$alt"] = "alt_c"
                b, tb = self.ex(node.body, env2)
                o, to = self.ex(node.orelse, env)
                if tb != to:
                    _fail(node, "branches of different types")
                return "(match cv_alt cv with Some alt_c => %s | None => %s end)" % (b, o), tb
            t = self.truth(node.test, env)
            b, tb = self.ex(node.body, env)
            o, to = self.ex(node.orelse, env)
            if tb != to:
                _fail(node, "branches of different types")
            return "(if %s then %s else %s)" % (t, b, o), tb
        if isinstance(node, ast.Compare):
            if len(node.ops) != 1:
                _fail(node, "chained comparison")
            if isinstance(node.left, ast.Subscript) and not isinstance(node.left.slice, ast.Slice):
                _fail(node, "indexing outside the guarded pattern `len(s) > i and s[i] == c`")
            a, ta = self.ex(node.left, env)
            b, tb = self.ex(node.comparators[0], env)
            op = node.ops[0]
            if ta != tb:
                _fail(node, "comparison of different types")
            if ta == "str" and isinstance(op, ast.Eq):
                return "(str_eqb %s %s)" % (a, b), "bool"
            if ta == "str" and isinstance(op, ast.NotEq):
                return "(negb (str_eqb %s %s))" % (a, b), "bool"
            if ta == "int" and isinstance(op, ast.Eq):
                return "(Z.eqb %s %s)" % (a, b), "bool"
            if ta == "int" and isinstance(op, ast.Gt):
                return "(Z.gtb %s %s)" % (a, b), "bool"
            _fail(node, "comparison operator")
        if isinstance(node, ast.BoolOp):
            if isinstance(node.op, ast.And) and len(node.values) == 2:
                g, c = node.values
                if isinstance(c, ast.Compare) and isinstance(c.left, ast.Subscript) and not isinstance(c.left.slice, ast.Slice):
                    # len(s) > i and s[i] == sep
                    sub = c.left
                    ok = (isinstance(g, ast.Compare) and len(g.ops) == 1 and isinstance(g.ops[0], ast.Gt)
                          and isinstance(g.left, ast.Call) and isinstance(g.left.func, ast.Name) and g.left.func.id == "len"
                          and len(g.left.args) == 1 and ast.dump(g.left.args[0]) == ast.dump(sub.value)
                          and ast.dump(g.comparators[0]) == ast.dump(sub.slice)
                          and len(c.ops) == 1 and isinstance(c.ops[0], ast.Eq))
                    if not ok:
                        _fail(node, "indexing not guarded by `len(s) > i and`")
                    i, ti = self.ex(sub.slice, env)
                    s, ts = self.ex(sub.value, env)
                    if ti != "int" or ts != "str" or not (isinstance(sub.slice, ast.Call)):
                        _fail(node, "guarded index must be a len(...) (non-negative)")
                    gt, _ = self.ex(g, env)
                    return "(%s && py_index_eqb %s %s %s)" % (gt, s, i, self.char(c.comparators[0], env)), "bool"
            parts = [self.truth(v, env) for v in node.values]
            op = " && " if isinstance(node.op, ast.And) else " || "
            return "(" + op.join(parts) + ")", "bool"
        if isinstance(node, ast.UnaryOp) and isinstance(node.op, ast.Not):
            return "(negb %s)" % self.truth(node.operand, env), "bool"
        if isinstance(node, ast.BinOp) and isinstance(node.op, ast.Add):
            a, ta = self.ex(node.left, env)
            b, tb = self.ex(node.right, env)
            if ta == tb == "int":
                return "(%s + %s)%%Z" % (a, b), "int"
            if ta == tb == "str":
                return "(%s ++ %s)" % (a, b), "str"
            _fail(node, "+ on these types")
        if isinstance(node, ast.Subscript):
            if not isinstance(node.slice, ast.Slice) or node.slice.step is not None:
                _fail(node, "subscript")
            s, ts = self.ex(node.value, env)
            if ts != "str":
                _fail(node, "slice of a non-string")
            bounds = []
            for bnd in (node.slice.lower, node.slice.upper):
                if bnd is None:
                    bounds.append("None")
                else:
                    t, tt = self.ex(bnd, env)
                    if tt != "int":
                        _fail(node, "slice bound")
                    bounds.append("(Some %s)" % t)
            return "(py_slice %s %s %s)" % (s, bounds[0], bounds[1]), "str"
        if isinstance(node, ast.Call) and not node.keywords:
            f = node.func
            if isinstance(f, ast.Name) and f.id == "len" and len(node.args) == 1:
                s, ts = self.ex(node.args[0], env)
                if ts != "str":
                    _fail(node, "len of a non-string")
                return "(py_len %s)" % s, "int"
            if isinstance(f, ast.Attribute) and isinstance(f.value, ast.Name) and f.value.id in ("self", "cls"):
                args = [self.ex(a, env) for a in node.args]
                if f.attr == "normalize_path_separators" and [t for _, t in args] == ["str"]:
                    return "(gen_nps cv %s)" % args[0][0], "str"
                if f.attr == "is_subpath" and [t for _, t in args] == ["str", "str"]:
                    return "(gen_is_subpath cv %s %s false)" % (args[0][0], args[1][0]), "sub"
                _fail(node, "call of an unknown helper")
            if isinstance(f, ast.Attribute):
                s, ts = self.ex(f.value, env)
                if ts != "str":
                    _fail(node, "method of a non-string")
                if f.attr == "replace" and len(node.args) == 2:
                    return "(replace_char %s %s %s)" % (self.char(node.args[0], env), self.char(node.args[1], env), s), "str"
                if f.attr == "rstrip" and len(node.args) == 1:
                    return "(rstrip %s %s)" % (self.char(node.args[0], env), s), "str"
                if f.attr == "rfind" and len(node.args) == 1:
                    return "(py_rfind %s %s)" % (self.char(node.args[0], env), s), "int"
                if f.attr == "lower" and not node.args:
                    return "(lower cv %s)" % s, "str"
                if f.attr == "startswith" and len(node.args) == 1:
                    a, ta = self.ex(node.args[0], env)
                    if ta != "str":
                        _fail(node, "startswith argument")
                    return "(startswith %s %s)" % (s, a), "bool"
            _fail(node, "call")
        if isinstance(node, ast.Tuple) and len(node.elts) == 2:
            a, ta = self.ex(node.elts[0], env)
            b, tb = self.ex(node.elts[1], env)
            if ta == tb == "str":
                return "(%s, %s)" % (a, b), "pair"
        _fail(node, "expression")

    def truth(self, node, env):
        t, ty = self.ex(node, env)
        if ty == "bool":
            return t
        if ty == "str":
            return "(nonempty %s)" % t
        _fail(node, "truth value of type " + ty)

    # ---------------------------------------------------------------- statements
    def returns(self, stmts):
        for s in stmts:
            if isinstance(s, (ast.Return, ast.Raise)):
                return True
            if isinstance(s, ast.If) and s.orelse and self.returns(s.body) and self.returns(s.orelse):
                return True
        return False

    def ret_value(self, node, env):
        if self.ret == "sub":
            if isinstance(node, ast.Constant) and node.value is False:
                return "NotSub"
            if isinstance(node, ast.IfExp) and not _is_self_attr(node.test, "alt_sep"):
                return "(if %s then %s else %s)" % (self.truth(node.test, env), self.ret_value(node.body, env),
                                                    self.ret_value(node.orelse, env))
            t, ty = self.ex(node, env)
            if ty != "str":
                _fail(node, "is_subpath returns something that is neither False nor a string")
            return "(Rel %s)" % t
        t, ty = self.ex(node, env)
        if self.ret == "rep":
            if ty != "str":
                _fail(node, "return type")
            return "(RepOk %s)" % t
        if ty != self.ret:
            _fail(node, "return type %s, expected %s" % (ty, self.ret))
        return t

    def block(self, stmts, env, depth=1):
        ind = "  " * depth
        if not stmts:
            raise Untranslatable("control reaches the end of the function without return")
        s, rest = stmts[0], stmts[1:]
        if isinstance(s, ast.Expr) and isinstance(s.value, ast.Constant) and isinstance(s.value.value, str):
            return self.block(rest, env, depth)
        if isinstance(s, ast.Return):
            if s.value is None:
                _fail(s, "bare return")
            return ind + self.ret_value(s.value, env)
        if isinstance(s, ast.Raise):
            ok = (self.ret == "rep" and isinstance(s.exc, ast.Call) and isinstance(s.exc.func, ast.Name)
                  and s.exc.func.id == "ValueError")
            if not ok:
                _fail(s, "raise")
            return ind + "RepValueError"
        if isinstance(s, ast.Assign):
            if len(s.targets) != 1 or not isinstance(s.targets[0], ast.Name):
                _fail(s, "assignment target")
            t, ty = self.ex(s.value, env)
            name = s.targets[0].id
            env2 = dict(env)
            env2[name] = (name, ty)
            return ind + "let %s := %s in\n" % (name, t) + self.block(rest, env2, depth)
        if isinstance(s, ast.If):
            then_b = s.body if self.returns(s.body) else s.body + rest
            else_b = (s.orelse if self.returns(s.orelse) else s.orelse + rest) if s.orelse else rest
            # `if v:` on the result of is_subpath: the true branch sees a non-empty string
            if isinstance(s.test, ast.Name) and env.get(s.test.id, (None, None))[1] == "sub":
                v = s.test.id
                env2 = dict(env)
                env2[v] = (v + "_s", "str")
                return (ind + "match %s with\n" % v
                        + ind + "| Rel ((_ :: _) as %s_s) =>\n" % v + self.block(then_b, env2, depth + 1) + "\n"
                        + ind + "| _ =>\n" + self.block(else_b, env, depth + 1) + "\n" + ind + "end")
            c = self.truth(s.test, env)
            return (ind + "if %s then\n" % c + self.block(then_b, env, depth + 1) + "\n"
                    + ind + "else\n" + self.block(else_b, env, depth + 1))
        _fail(s, "statement")


FUNCS = [
    # python name, gallina name, parameters (after self/cls) with types, return type, gallina return type
    ("normalize_path_separators", "gen_nps", [("path", "str")], "str", "str"),
    ("split", "gen_split", [("path", "str")], "pair", "str * str"),
    ("is_subpath", "gen_is_subpath", [("folder", "str"), ("target", "str"), ("strict", "bool")], "sub", "sub"),
    ("replace_path", "gen_replace_path", [("path", "str"), ("from_dir", "str"), ("to_dir", "str")], "rep", "rep"),
]

HEADER = """(* GenPath.v — GENERATED by harness/translator.py from the current source of cloudsync/provider.py.
   Never edit by hand: every run of ./check C13 regenerates it and re-proves PathGenLaws.v against it. *)
From Coq Require Import NArith ZArith List Bool.
From CS Require Import Sx Str PathModel GenPrims.
Import ListNotations.
Open Scope bool_scope.
"""


def translate_function(cls, pyname, gname, params, ret, gret):
    src = textwrap.dedent(inspect.getsource(getattr(cls, pyname)))
    tree = ast.parse(src)
    fd = tree.body[0]
    if not isinstance(fd, ast.FunctionDef):
        raise Untranslatable(pyname + ": not a function definition")
    a = fd.args
    names = [x.arg for x in a.args]
    if a.vararg or a.kwarg or a.kwonlyargs or a.posonlyargs or names[:1] not in (["self"], ["cls"]) \
            or names[1:] != [n for n, _ in params]:
        raise Untranslatable("%s: unexpected signature %s" % (pyname, names))
    defaults = [ast.dump(d) for d in a.defaults]
    want_defaults = [ast.dump(ast.Constant(value=False))] if pyname == "is_subpath" else []
    if [d.replace(", kind=None", "") for d in defaults] != [d.replace(", kind=None", "") for d in want_defaults]:
        raise Untranslatable("%s: unexpected default arguments" % pyname)
    for dec in fd.decorator_list:
        if not (isinstance(dec, ast.Name) and dec.id == "classmethod"):
            raise Untranslatable("%s: unexpected decorator" % pyname)
    env = {n: (n, t) for n, t in params}
    body = Fn(ret).block(fd.body, env)
    sig = " ".join("(%s : %s)" % (n, t) for n, t in params)
    return "Definition %s (cv : conv) %s : %s :=\n%s.\n" % (gname, sig, gret, body)


def generate(cls):
    """-> text of GenPath.v for the helpers of provider class `cls` (raises Untranslatable)"""
    out = [HEADER]
    for (pyname, gname, params, ret, gret) in FUNCS:
        try:
            out.append("(* %s *)\n" % getattr(cls, pyname).__qualname__ + translate_function(cls, pyname, gname, params, ret, gret))
        except Untranslatable as e:
            raise Untranslatable("%s: %s" % (pyname, e))
    return "\n".join(out)


if __name__ == "__main__":
    from cloudsync.provider import Provider
    print(generate(Provider))


def generate_current():
    """GenPath.v for the provider class the checks use (MockProvider); what build.regen_all calls."""
    from . import envfix
    envfix.install()
    from cloudsync.providers.mock import MockProvider
    return generate(MockProvider)
