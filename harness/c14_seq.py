"""C14, tie (i): stepwise correspondence of EventModel.v with the real EventManager._process_event +
SyncState.update / SyncEntry.get_latest on random event sequences (duplicates, id-less events, vanished
objects, walk replays, folder deletions by path, root events, prior_oid renames), interleaved with the
engine-like state operations of the C11 alphabet.  After EVERY operation the abstracted real state
(entries, both indexes, change set, dirty set, last change stamp, _last_gotten of every side, outcome)
is compared with the extracted model; the C14 state-level statements are evaluated on the real behaviour.
Builds on harness/checks/c11.py (instrumentation, encodings, Real)."""
import copy
import json
import os

from . import framework as fw
from .checks import c11 as C11

S, O, hbytes, hint = C11.S, C11.O, C11.hbytes, C11.hint
OT = C11.OT
PATHS = C11.PATHS
OIDS = C11.OIDS + ["o4"]


def wire_info(i):
    return O(i, lambda d: [d["ot"], O(d["h"]), S(d["path"]), O(d["hoid"])])


def wire_eop(op):
    k = op[0]
    if k == "event":
        _, sd, ev, fw_, ri = op
        return [1, sd, [O(ev["ot"]), O(ev["oid"], S), O(ev["path"], S), O(ev["h"]), O(ev["ex"], int), O(ev["prior"], S), int(ev["acc"])],
                int(fw_), wire_info(ri)]
    if k == "latest":
        _, e, force, sides, iL, iR = op
        return [2, e, int(force), [int(x) for x in sides], wire_info(iL), wire_info(iR)]
    if k == "markdirty":
        return [3, op[1], op[2]]
    return [0, C11.wire_op(op)]


def wire_roots(cfg):
    return [O(r, lambda x: [S(x[0]), S(x[1])]) for r in cfg["roots"]]


class RealEv(C11.Real):
    """a real SyncState with the two real EventManagers on top (never started: _process_event is called
    directly, as EventManager.do does for every event of provider.events() / walk_oid())"""

    def __init__(self, cfg):
        super().__init__(cfg)
        from cloudsync.event import EventManager, Event
        from cloudsync.exceptions import CloudRootMissingError
        from cloudsync.types import OInfo
        self.Event, self.RootMissing, self.OInfo = Event, CloudRootMissingError, OInfo
        self.ems = []
        self.updates = 0
        for sd in (0, 1):
            p = self.state.providers[sd]
            p.connect({"key": "val"})
            r = cfg["roots"][sd]
            em = EventManager(p, self.state, sd, root_path=r[0] if r else None, root_oid=r[1] if r else None)
            self.ems.append(em)
        orig_update = self.state.update
        me = self

        def counted(*a, **k):
            me.updates += 1
            return orig_update(*a, **k)
        self.state.update = counted

    def close(self):
        from cloudsync.event import EventManager
        for em in self.ems:
            EventManager._provider_guard.remove(em.provider)

    def _stub(self, sd, info):
        p = self.state.providers[sd]
        OType = self.OType

        def info_oid(oid, use_cache=True):
            if info is None:
                return None
            return self.OInfo(otype=OType(OT[info["ot"]]), oid=oid, hash=hbytes(info["h"]), path=info["path"])

        def hash_oid(oid):
            return None if info is None else hbytes(info["hoid"])
        p.info_oid = info_oid
        p.hash_oid = hash_oid

    def apply(self, op):
        k = op[0]
        self.outcome = 0
        if k == "event":
            _, sd, ev, fw_, ri = op
            self._stub(sd, ri)
            e = self.Event(None if ev["ot"] is None else self.OType(OT[ev["ot"]]), ev["oid"], ev["path"], hbytes(ev["h"]),
                           ev["ex"], None, ev["prior"], accurate=bool(ev["acc"]))
            before = self.updates
            try:
                self.ems[sd]._process_event(e, from_walk=bool(fw_))
            except self.RootMissing:
                self.outcome = 3
                return
            self.outcome = 0 if self.updates > before else 1      # 1 = nothing applied (dropped or walk shortcut)
        elif k == "latest":
            _, e, force, sides, iL, iR = op
            self._stub(0, iL)
            self._stub(1, iR)
            self.ent(e).get_latest(force=bool(force), sides=tuple(sides))
        elif k == "markdirty":
            self.ent(op[1]).mark_dirty(op[2])
        else:
            super().apply(op)

    def gotten(self):
        return [[int(round(e[0]._last_gotten * 1000)), int(round(e[1]._last_gotten * 1000))] for e in C11.REC.ents]

    def estep(self, op):
        res, tape = self.step(op)
        if res[0] == 1:
            return [res, [], 9], tape
        return [res, self.gotten(), self.outcome], tape


# ------------------------------------------------------------------ abstraction used by the predicates
def abs_state(dump):
    """what the C14 theorems compare: entries with change stamps reduced to their truth value, both indexes as
    finite maps, the change set; forgets dirty set, clock and the numeric stamps"""
    def aside(x):
        return x[:7] + [int(x[7][0] == 2 and x[7][1] != 0)] + x[8:]
    ents = [[aside(e[0]), aside(e[1]), e[2], e[3]] for e in dump[1]]
    oids = [sorted(map(repr, dump[2])), sorted(map(repr, dump[3]))]
    paths = [sorted(repr((p, sorted(map(repr, d)))) for p, d in dump[4]), sorted(repr((p, sorted(map(repr, d)))) for p, d in dump[5])]
    return [ents, oids, paths, dump[6]]


# ------------------------------------------------------------------ generator
def gen_cfg(rng):
    cfg = C11.gen_cfg(rng)
    roots = []
    for sd in (0, 1):
        if rng.random() < 0.5:
            roots.append(None)
        elif cfg["oip"][sd]:
            roots.append(["/a", "/a"])
        else:
            roots.append(["/a", "o1"])
    cfg["roots"] = roots
    return cfg


def gen_info(rng, cfg, sd, path_hint=None):
    if rng.random() < 0.3:
        return None
    ot = rng.choice([0, 1, 1, 1])
    h = None if ot == 0 else rng.choice([1, 2, 3, None])
    path = path_hint if (path_hint and rng.random() < 0.5) else rng.choice(PATHS + ["\\a\\x"])
    return dict(ot=ot, h=h, path=path, hoid=rng.choice([None, 1, 4]))


def gen_event(rng, cfg, sd, ents, malformed):
    """one provider event; shapes: ordinary, id-less, folder deletion by path, echo of a stored entry (what a
    walk yields for an unchanged object), root event, rename with prior_oid (path-style)"""
    oip = cfg["oip"][sd]
    r = rng.random()
    live = [e for e in ents if e[sd]._oid is not None]
    ev = dict(ot=rng.choice([0, 1, 1, 1]), oid=None, path=None, h=rng.choice([None, None, 1, 2, 3]),
              ex=rng.choice([True, True, True, False, None]), prior=None, acc=rng.random() < 0.1)
    fw_ = rng.random() < 0.25
    if r < 0.12 and live:
        # echo of the stored entry (walk replay of an unchanged object), sometimes with one field changed
        e = rng.choice(live)[sd]
        ev.update(ot=OT.index(e._otype.value), oid=e._oid, path=e._path, h=hint(e._hash), ex=True)
        fw_ = rng.random() < 0.8
        if rng.random() < 0.3:
            if rng.random() < 0.5:
                ev["path"] = rng.choice([None] + PATHS)
            else:
                ev["h"] = rng.choice([None, 1, 2, 3])
    elif r < 0.20:
        # id-less event; half of them folder deletions with a path (dropbox style)
        ev["oid"] = None
        if rng.random() < 0.6:
            withp = [e[sd]._path for e in live if e[sd]._path]
            ev.update(ot=rng.choice([0, 0, 0, 1]), ex=rng.choice([False, False, False, None, True]),
                      path=rng.choice(withp) if (withp and rng.random() < 0.7) else rng.choice(PATHS + [None, ""]))
        else:
            ev["path"] = rng.choice(PATHS + [None])
    elif r < 0.27 and cfg["roots"][sd]:
        rp, ro = cfg["roots"][sd]
        ev.update(oid=ro, ot=0, ex=rng.choice([True, False, None, None]), path=rng.choice([None, rp, rp, "/A", "/b", ""]))
        if rng.random() < 0.15:
            ev.update(oid=C11.gen_oid(rng, cfg, sd, False), prior=ro)
    else:
        ev["oid"] = C11.gen_oid(rng, cfg, sd, malformed) if not (not oip and rng.random() < 0.25) else rng.choice(OIDS)
        if oip:
            ev["path"] = ev["oid"] if rng.random() < 0.8 else rng.choice([None, C11.gen_path(rng, malformed)])
            if rng.random() < 0.35:
                ev["prior"] = rng.choice(PATHS[:6])
        else:
            ev["path"] = C11.gen_path(rng, malformed) if rng.random() < 0.5 else None
            if malformed and rng.random() < 0.15:
                ev["prior"] = rng.choice(OIDS)
        if rng.random() < 0.25:
            ev.update(ex=False, h=None)            # deletion, possibly of an object never seen (vanished)
    if ev["ex"] and ev["ot"] == 2:
        ev["ot"] = 1
    if malformed and rng.random() < 0.05:
        ev["ot"] = rng.choice([None, 2])
    ri = gen_info(rng, cfg, sd, ev["path"])
    return ["event", sd, ev, fw_, ri]


ENGINE_LIKE = ("set", "ign", "prio", "finished", "discard", "mark")


def gen_seq_op(rng, cfg, ents, malformed, history):
    r = rng.random()
    n = len(ents)
    if n == 0 or r < 0.5:
        return gen_event(rng, cfg, rng.randint(0, 1), ents, malformed)
    if r < 0.62 and history:
        # re-delivery of an earlier event: immediately (duplicate) or late; as event or as walk event
        op = copy.deepcopy(rng.choice(history[-4:]) if rng.random() < 0.7 else rng.choice(history))
        if rng.random() < 0.3:
            op[3] = not op[3]
        return op
    if r < 0.77:
        e = rng.randrange(n)
        sides = rng.choice([[0, 1], [0, 1], [0], [1]])
        iL = gen_info(rng, cfg, 0, ents[e][0]._path)
        iR = gen_info(rng, cfg, 1, ents[e][1]._path)
        return ["latest", e, rng.random() < 0.15, sides, iL, iR]
    if r < 0.79:
        return ["markdirty", rng.randrange(n), rng.randint(0, 1)]
    # what the sync manager does to entries between events: markers, flags, finished, discard, priority
    for _ in range(20):
        op = C11.gen_op1(rng, cfg, n, malformed)
        if op[0] in ENGINE_LIKE or (malformed and op[0] in ("split", "move", "updent")):
            if op[0] == "set" and op[3] in ("path", "oid") and not malformed:
                continue
            if malformed or C11.applicable(op, ents):
                return op
    e = rng.randrange(n)
    sd = rng.randint(0, 1)
    x = ents[e][sd]
    return ["set", e, sd, "sync_hash", hint(x._hash)] if rng.random() < 0.5 else ["set", e, sd, "changed", 0]


# ------------------------------------------------------------------ running a case
def run_real(cfg, ops=None, rng=None, nops=0, malformed=False, probe=None):
    real = RealEv(cfg)
    try:
        out_ops, results, tapes, props = [], [], [], []
        history = []
        i = 0
        prev = real.dump()
        prev_gotten = real.gotten()
        prev_abs_after = {}
        while True:
            if ops is not None:
                if i >= len(ops):
                    break
                op = ops[i]
            else:
                if i >= nops:
                    break
                op = gen_seq_op(rng, cfg, C11.REC.ents, malformed, history)
            i += 1
            n = len(C11.REC.ents)
            if op[0] in ("set", "ign", "prio", "split", "finished", "mark", "updent", "discard", "latest", "markdirty") and op[1] >= n:
                continue
            if op[0] == "move" and (op[1] >= n or op[2] >= n or op[1] == op[2]):
                continue
            pre = prev
            res, tape = real.estep(op)
            out_ops.append(op)
            results.append(res)
            tapes.append(tape)
            if res[2] == 9:
                if op[0] == "event" and op[2]["oid"] is None and not (op[2]["ex"] is False and op[2]["path"] and op[2]["ot"] == 0):
                    props.append((len(out_ops) - 1, "idless", "an event without id was acted on (it raised %r): %r" % (res[0], op[2])))
                break
            cur = res[0]
            if op[0] == "event":
                history.append(op)
                props += check_props(cfg, op, pre, res, prev_gotten, len(out_ops) - 1,
                                     out_ops[-2] if len(out_ops) > 1 else None, prev_abs_after)
                prev_abs_after = dict(op=op, abs=abs_state(cur), pre=pre) if res[2] == 0 else {}
            else:
                prev_abs_after = {}
            prev = cur
            prev_gotten = res[1]
        if probe is not None:
            probe(real)
        return out_ops, results, tapes, props
    finally:
        real.close()


def _find(dump, sd, oid):
    """eid filed under oid in the dumped oid index"""
    key = S(oid)
    for k, e in dump[2 + sd]:
        if k == key:
            return e
    return None


def check_props(cfg, op, pre, res, gotten_pre, step, prev_op, prev_after):
    """the state-level C14 statements, evaluated on what the REAL code did in this step.
    -> list of (step, tag, text); tags starting with 'refuted:' are hits of the kept refutations (counted)"""
    out = []
    _, sd, ev, fw_, ri = op
    cur, gotten, outcome = res
    root = cfg["roots"][sd]
    is_root_ev = bool(root) and (ev["oid"] == root[1] or ev["prior"] == root[1])
    # C14_idless_event_dropped
    if ev["oid"] is None:
        resolvable = (ev["ex"] is False and ev["path"] and ev["ot"] == 0)
        if not resolvable and (outcome != 1 or cur != pre):
            out.append((step, "idless", "an event without id was acted on: %r" % (ev,)))
        if resolvable and outcome == 1 and cur != pre:
            out.append((step, "idless", "a dropped id-less folder deletion changed the state"))
    # C14_walk_event_noop_if_equal
    if fw_ and ev["oid"] is not None:
        e = _find(pre, sd, ev["oid"])
        if e is not None:
            x = pre[1][e][sd]
            if x[3] == O(ev["h"]) and x[2] == O(ev["path"], S):
                if outcome != 1 or cur != pre:
                    out.append((step, "walk", "a walk event equal to the stored entry was applied: %r" % (ev,)))
    if outcome != 0:
        return out
    oid = ev["oid"]
    if oid is None:
        return out
    e = _find(cur, sd, oid)
    if e is None:
        out.append((step, "indexed", "after the event the id is not indexed: %r" % (ev,)))
        return out
    # C14_event_forces_reread (hypothesis: no stamp or _last_gotten ahead of the last change stamp before the event)
    ent = cur[1][e]
    stamps = [x[7][1] if x[7][0] == 2 else 0 for x in (ent[0], ent[1])]
    mx = max(stamps)
    lastch_pre = pre[8]
    bounded = all(g <= lastch_pre for pair in gotten_pre for g in pair) and \
        all((x[7][1] if x[7][0] == 2 else 0) <= lastch_pre for en in pre[1] for x in (en[0], en[1]))
    fresh = [mx > gotten[e][0], mx > gotten[e][1]]
    if bounded and not all(fresh):
        out.append((step, "reread", "after an event the entry is not due for a re-read on both sides: stamps %r gotten %r" % (stamps, gotten[e])))
    if not bounded and not all(fresh):
        out.append((step, "refuted:reread_unbounded", ""))
    # C14_vanished_event_harmless: deletion of an object never seen (id-stable, no prior)
    if ev["ex"] is False and _find(pre, sd, oid) is None and not cfg["oip"][sd] and not ev["prior"] and oid != "" and not is_root_ev:
        if e < len(pre[1]):
            out.append((step, "vanished", "a deletion of an unknown id re-used entry %d" % e))
        else:
            other = ent[1 - sd]
            if other[1] != [] or ent[sd][6] != 2 or ent[2] != 0:
                out.append((step, "vanished", "a deletion of an unknown id produced %r" % (ent,)))
    # C14_update_idempotent: the same event applied twice in a row
    if prev_after and prev_after["op"] == op and prev_op == op:
        a1 = prev_after["abs"]
        a2 = abs_state(cur)
        if a1 != a2:
            pe = _find(prev_after["pre"], sd, oid)
            was_trashed = pe is not None and prev_after["pre"][1][pe][sd][6] == 2
            if ev["ex"] is True and was_trashed:
                out.append((step, "refuted:idempotent_likely", ""))
            elif cfg["oip"][sd] or ev["prior"] or is_root_ev or ev["ot"] == 0 or oid == "":
                out.append((step, "outside:idempotent", ""))
            else:
                out.append((step, "idempotent", "the same event applied twice differs from once: %r" % (ev,)))
    return out


def model_request(cfg, ops, tapes):
    return [C11.wire_cfg(cfg), wire_roots(cfg), [[wire_eop(o), t] for o, t in zip(ops, tapes)]]


def eval_case(model, cfg, ops=None, rng=None, nops=0, malformed=False, probe=None):
    ops, results, tapes, props = run_real(cfg, ops=ops, rng=rng, nops=nops, malformed=malformed, probe=probe)
    mo = model.call(model_request(cfg, ops, tapes)) if ops else []
    # the model says WHY nothing was applied (1 = no id, 2 = walk event equal to the stored entry); the real side
    # is observed from outside (SyncState.update called or not), so the two are compared as "not applied"
    fine = [m[2] for m in mo]
    mo = [[m[0], m[1], 1 if m[2] == 2 else m[2]] for m in mo]
    out = dict(ops=ops, mismatch=None, props=props, steps=len(ops), err=None, outcomes=[r[2] for r in results], fine=fine,
               final=results[-1] if results else None)
    if mo != results:
        k = 0
        while k < min(len(mo), len(results)) and mo[k] == results[k]:
            k += 1
        out["mismatch"] = dict(step=k, model=mo[k] if k < len(mo) else None, impl=results[k] if k < len(results) else None)
    if results and results[-1][2] == 9:
        out["err"] = results[-1][0][1]
    return out


def worker(args):
    seed_label, n = args
    import random
    C11.instrument()
    rng = random.Random(seed_label)
    model = fw.ModelProc("event")
    dist = fw.Distinct()
    st = dict(sequences=0, steps=0, malformed=0, op_kinds={}, outcomes={}, errors={}, refuted_hits={}, outside={}, flavours={},
              event_shapes={})
    bad, samples = [], []
    for i in range(n):
        cfg = gen_cfg(rng)
        malformed = rng.random() < 0.12
        r = eval_case(model, cfg, rng=rng, nops=rng.randint(2, 18), malformed=malformed)
        st["sequences"] += 1
        st["steps"] += r["steps"]
        st["malformed"] += int(malformed)
        fl = "%d%d" % (cfg["oip"][0], cfg["oip"][1])
        st["flavours"][fl] = st["flavours"].get(fl, 0) + 1
        for o, oc in zip(r["ops"], r["fine"]):
            k = o[0] if o[0] != "set" else "set." + o[3]
            st["op_kinds"][k] = st["op_kinds"].get(k, 0) + 1
            if o[0] == "event":
                name = {0: "applied", 1: "dropped-no-id", 2: "walk-equal-ignored", 3: "root-missing", 9: "exception"}[oc]
                st["outcomes"][name] = st["outcomes"].get(name, 0) + 1
                ev = o[2]
                shape = ("walk " if o[3] else "") + ("idless" if ev["oid"] is None else ("prior" if ev["prior"] else ("delete" if ev["ex"] is False else "plain")))
                st["event_shapes"][shape] = st["event_shapes"].get(shape, 0) + 1
        ek = {None: "none", 0: "RecursionError", 1: "AssertionError", 2: "KeyError"}.get(r["err"], str(r["err"]))
        st["errors"][ek] = st["errors"].get(ek, 0) + 1
        claimed = []
        for stp, tag, text in r["props"]:
            if tag.startswith("refuted:"):
                st["refuted_hits"][tag[8:]] = st["refuted_hits"].get(tag[8:], 0) + 1
            elif tag.startswith("outside:"):
                st["outside"][tag[8:]] = st["outside"].get(tag[8:], 0) + 1
            else:
                claimed.append((stp, tag, text))
        dist.add((cfg["oip"], cfg["cs"], cfg["roots"], r["ops"]), nontrivial=r["steps"] >= 2)
        case = dict(kind="event-sequence", cfg=cfg, ops=r["ops"])
        if r["mismatch"] or claimed:
            bad.append(dict(case=case, mismatch=r["mismatch"], claimed=claimed))
        if i < 1:
            samples.append(dict(cfg=cfg, ops=r["ops"][:6], error=ek))
    model.close()
    return dict(stats=st, bad=bad[:10], nbad=len(bad), total=dist.total, seen=list(dist.seen), samples=samples)


def shrink_case(model, case, pred):
    def fails(ops):
        try:
            return pred(eval_case(model, case["cfg"], ops=ops))
        except Exception:
            return False
    return dict(case, ops=fw.shrink_list(case["ops"], fails))


def corpus_worker(paths):
    """replays corpus cases of kind event-sequence -> list of (file, doc, result dict).  doc["expect"] may hold
    refuted (tags of the kept refutations that must be hit), lost_ids [[side, oid]...] (ids the final REAL state no longer
    knows), hash_conflict [entry, bool] (SyncEntry.hash_conflict() of the real entry), path [entry, side, path]."""
    C11.instrument()
    model = fw.ModelProc("event")
    out = []
    for fn in paths:
        doc = json.load(open(fn))
        case = doc["case"]
        exp = doc.get("expect", {})
        probed = {}

        def probe(real, exp=exp, probed=probed):
            if "hash_conflict" in exp:
                probed["hash_conflict"] = bool(real.ent(exp["hash_conflict"][0]).hash_conflict())
            if "path" in exp:
                e, sd, _ = exp["path"]
                probed["path"] = real.ent(e)[sd]._path
            if "lost_ids" in exp:
                probed["lost_ids"] = [[sd, o] for sd, o in exp["lost_ids"] if real.state.lookup_oid(sd, o) is None]
            if "latest" in exp:
                e = exp["latest"][0]
                probed["latest"] = [bool(real.ent(e).is_latest_side(0)), bool(real.ent(e).is_latest_side(1))]
        r = eval_case(model, case["cfg"], ops=case["ops"], probe=probe)
        unmet = []
        tags = [t for _, t, _ in r["props"]]
        for t in exp.get("refuted", []):
            if "refuted:" + t not in tags:
                unmet.append("refutation %s not hit" % t)
        if "hash_conflict" in exp and probed.get("hash_conflict") != exp["hash_conflict"][1]:
            unmet.append("hash_conflict() is %r" % probed.get("hash_conflict"))
        if "path" in exp and probed.get("path") != exp["path"][2]:
            unmet.append("path is %r" % probed.get("path"))
        if "lost_ids" in exp and probed.get("lost_ids") != exp["lost_ids"]:
            unmet.append("ids unknown at the end: %r" % probed.get("lost_ids"))
        if "latest" in exp and probed.get("latest") != exp["latest"][1]:
            unmet.append("is_latest_side: %r" % probed.get("latest"))
        claimed = [(st, t, x) for st, t, x in r["props"] if not t.startswith("refuted:") and not t.startswith("outside:")]
        out.append((os.path.basename(fn), doc, dict(mismatch=r["mismatch"], claimed=claimed, err=r["err"], steps=r["steps"],
                                                    outcomes=r["outcomes"], unmet=unmet, probed=probed)))
    model.close()
    return out
