"""C20: the two proposed minimal repairs (notes/C20_findings.md), applied IN-PROCESS.  Never used by the check itself:
only by `python -m harness.checks.c20 build-known`, which sorts the failing cases of the deterministic Stream B
into findings by root cause (a case belongs to a finding when it fails on the unchanged code and passes once that
finding's repair is applied)."""
REMOTE = 1


def apply(which):
    import cloudsync.smartsync as ss
    from cloudsync.types import DIRECTORY
    if "S-1" in which:
        # request by id of an entry whose remote path is not filled in yet (events of id-style providers carry no path)
        orig = ss.SmartSyncState.smart_sync_oid

        def smart_sync_oid(self, remote_oid):
            ent = self.lookup_oid(REMOTE, remote_oid)
            if ent and not ent[REMOTE].path:
                self.unconditionally_get_latest(ent, REMOTE)
            return orig(self, remote_oid)
        ss.SmartSyncState.smart_sync_oid = smart_sync_oid
    if "S-2" in which:
        # folders are always mirrored: a request of a folder registers nothing, so it can never be un-requested
        orig2 = ss.SmartSyncState._smart_sync_ent

        def _smart_sync_ent(self, ent):
            if ent and ent[REMOTE].otype == DIRECTORY:
                return None
            return orig2(self, ent)
        ss.SmartSyncState._smart_sync_ent = _smart_sync_ent
