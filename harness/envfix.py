"""In-process environment fixes needed to run the real code in the pinned sandbox.

* cloudsync.utils.debug_sig feeds a str to xxhash (rejected by xxhash 4.x: "Strings must be
  encoded").  It is a pure logging helper; we replace it, in this process only, by a function
  returning a short string, and rebind the name in every cloudsync.* module that imported it.
  No source change.  (Recorded in the trusted base.)
* logging is silenced (the engine logs at DEBUG through formatted arguments, which costs time).
"""
import logging
import sys


def _debug_sig(t, size=3):
    if not t:
        return "0"
    return ("%x" % (hash(str(t)) & 0xFFFFFF))[:size]


_installed = False


def install():
    global _installed
    if _installed:
        return
    logging.disable(logging.CRITICAL)
    import cloudsync.utils as u
    u.debug_sig = _debug_sig
    import cloudsync  # noqa: F401  (imports every submodule)
    for name, mod in list(sys.modules.items()):
        if name.startswith("cloudsync") and mod is not None and getattr(mod, "debug_sig", None) is not None:
            mod.debug_sig = _debug_sig
    _installed = True
