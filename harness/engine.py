"""Deterministic driver for the real sync engine (CloudSync over two MockProviders).

No source changes: observers wrap bound methods on provider/storage *instances*; determinism
comes from a virtual clock installed module by module, serial object ids for the mock file
system, and serial (optionally permuted) hashes for SyncEntry so that set iteration order is
reproducible and can be varied from the seed.
"""
import io
import itertools
import os
import shutil
import tempfile
import types

from . import envfix

LOCAL, REMOTE = 0, 1


# ------------------------------------------------------------------ determinism patches
class VClock:
    def __init__(self):
        self.t = 1000.0
        self.tick = 0.01

    def time(self):
        self.t += self.tick
        return self.t

    def monotonic(self):
        return self.time()

    def sleep(self, secs):
        # never sleeps; a requested sleep advances the virtual clock
        if secs and secs > 0:
            self.t += secs

    def advance(self, secs):
        self.t += secs


CLOCK = VClock()
_serial = itertools.count(1)
_ent_serial = itertools.count(1)
_hash_mult = [1]
_patched = False


def install(hash_mult=1):
    """Idempotent.  hash_mult (odd) permutes SyncEntry set iteration order reproducibly."""
    global _patched
    envfix.install()
    _hash_mult[0] = hash_mult | 1
    if _patched:
        return
    import time as _time
    import cloudsync.sync.state as st
    import cloudsync.sync.manager as mg
    import cloudsync.providers.mock as mk
    import cloudsync.smartsync as ss
    import cloudsync.event as ev
    import cloudsync.provider as pv
    shim = types.SimpleNamespace(time=CLOCK.time, sleep=CLOCK.sleep, monotonic=CLOCK.monotonic,
                                 perf_counter=_time.perf_counter, strftime=_time.strftime, localtime=_time.localtime,
                                 gmtime=_time.gmtime)
    for m in (st, mg, mk, ss, ev, pv):
        if hasattr(m, "time"):
            m.time = shim

    # serial object ids for id-style mock objects (str(id(self)) can be re-used by the allocator)
    orig_init = mk.MockFSObject.__init__

    def fso_init(self, path, object_type, oid_is_path, hash_func, contents=None, mtime=None):
        orig_init(self, path, object_type, oid_is_path, hash_func, contents=contents, mtime=mtime)
        if not oid_is_path:
            self.oid = "o%d" % next(_serial)
    mk.MockFSObject.__init__ = fso_init

    # serial hashes for SyncEntry: reproducible set iteration order
    orig_ent_init = st.SyncEntry.__init__

    def ent_init(self, *a, **kw):
        object.__setattr__(self, "_vserial", next(_ent_serial))
        orig_ent_init(self, *a, **kw)
    st.SyncEntry.__init__ = ent_init
    st.SyncEntry.__hash__ = lambda self: (self._vserial * _hash_mult[0]) & 0x7FFFFFFF
    _patched = True


def reset_serials():
    global _serial, _ent_serial
    _serial = itertools.count(1)
    _ent_serial = itertools.count(1)
    CLOCK.t = 1000.0


# ------------------------------------------------------------------ flavours
class Flavour:
    """id style and case mode per side, event filtering, roots by path or by oid"""

    def __init__(self, oip=(False, False), cs=(True, True), filt=False, root_by="path", roots=("/local", "/remote")):
        self.oip, self.cs, self.filt, self.root_by, self.roots = tuple(oip), tuple(cs), filt, root_by, tuple(roots)

    def key(self):
        return [list(self.oip), list(self.cs), self.filt, self.root_by, list(self.roots)]

    @staticmethod
    def from_key(k):
        return Flavour(k[0], k[1], k[2], k[3], k[4])

    def __repr__(self):
        return "Flavour(oip=%s cs=%s filt=%s root_by=%s roots=%s)" % (self.oip, self.cs, self.filt, self.root_by, self.roots)


ALL_FLAVOURS = [Flavour(oip=o, cs=c, filt=f)
                for o in [(False, False), (False, True), (True, False), (True, True)]
                for c in [(True, True), (False, False)]
                for f in (False, True)]


class Token(BaseException):
    """raised from a wrapped call to simulate the process dying there"""


class World:
    """two connected mock providers with their roots created; user operations; snapshots"""

    def __init__(self, flavour, hash_funcs=None):
        from cloudsync.providers.mock import MockProvider
        self.fl = flavour
        self.provs = []
        for side in (0, 1):
            kw = {}
            if hash_funcs is not None and hash_funcs[side] is not None:
                kw["hash_func"] = hash_funcs[side]      # providers whose content hashes are of different types
            p = MockProvider(flavour.oip[side], flavour.cs[side], filter_events=flavour.filt, **kw)
            p.connect({"key": "val"})
            self.provs.append(p)
        self.raw = []
        for side, p in enumerate(self.provs):
            # unwrapped user-facing operations
            self.raw.append(dict(create=p.create, upload=p.upload, rename=p.rename, delete=p.delete, mkdir=p.mkdir,
                                 download=p.download, info_path=p.info_path, events=p.events))
            p.mkdirs(flavour.roots[side]) if flavour.roots[side] != "/" else None
        self.root_oids = tuple(self.provs[s].info_path(flavour.roots[s]).oid for s in (0, 1))

    # ---- user operations (paths are absolute provider paths). Return 'ok' or an error class name.
    def user(self, side, op):
        p = self.provs[side]
        raw = self.raw[side]
        kind = op[0]
        try:
            if kind == "create":
                raw["create"](op[1], io.BytesIO(op[2]))
            elif kind == "write":
                info = raw["info_path"](op[1])
                if info is None:
                    return "skip"
                raw["upload"](info.oid, io.BytesIO(op[2]))
            elif kind == "mkdir":
                raw["mkdir"](op[1])
            elif kind == "rename":
                info = raw["info_path"](op[1])
                if info is None:
                    return "skip"
                raw["rename"](info.oid, op[2])
            elif kind == "delete":
                info = raw["info_path"](op[1])
                if info is None:
                    return "skip"
                raw["delete"](info.oid)
            else:
                raise ValueError(kind)
            return "ok"
        except Exception as e:  # CloudFileExistsError, CloudFileNotFoundError, ...
            return type(e).__name__

    def snapshot(self, side):
        """{path: ('D',) | ('F', bytes)} of every live object (inside and outside the root)"""
        out = {}
        for o in self.provs[side]._mock_fs.fs_objects():
            if o.exists and o.path is not None:
                out[o.path] = ("D",) if o.type == o.DIR else ("F", bytes(o.contents or b""))
        return out

    def view(self, side, snap=None):
        """tree relative to the root: {relpath: node}; root itself excluded"""
        snap = self.snapshot(side) if snap is None else snap
        p = self.provs[side]
        root = self.fl.roots[side]
        out = {}
        for path, node in snap.items():
            rel = p.is_subpath(root, path, strict=True)
            if rel:
                out[rel] = node
        return out

    def outside(self, side, snap=None):
        snap = self.snapshot(side) if snap is None else snap
        p = self.provs[side]
        root = self.fl.roots[side]
        return {path: node for path, node in snap.items() if not p.is_subpath(root, path)}


MUTATORS = ("create", "upload", "rename", "delete", "mkdir")


class Engine:
    """A CloudSync (or SmartCloudSync) over a World, with observers and step functions."""

    def __init__(self, world, storage=None, resolver=None, smart=False, translate=None, cs_kwargs=None):
        import cloudsync
        from cloudsync.event import EventManager
        self.world = world
        self.storage = storage
        self.trace = []            # engine-issued provider mutations: dict(side, call, args, result|error)
        self.storage_log = []      # ('create'|'update'|'delete', tag, eid)
        self.notifications = []
        self.resolver_calls = []
        self.loop_errors = []      # exceptions that escaped a do() (the real loop logs them and backs off)
        self.fault_plan = None     # callable(side, call, index) -> exception instance or None
        self.call_index = 0
        self.crash_at = None       # ('provider_after', k) | ('storage_before', k)
        self.provider_writes = 0
        self.storage_writes = 0
        self.on_action = None      # callable(rec) invoked right after every engine-issued provider mutation
        fl = world.fl
        base = cloudsync.SmartCloudSync if smart else cloudsync.CloudSync
        eng = self
        resolver_fn, translate_fn = resolver, translate

        class CS(base):
            def handle_notification(self, n):
                eng.notifications.append((n.source.name if hasattr(n.source, "name") else str(n.source), n.ntype.name, n.path))

            if resolver_fn is not None:
                def resolve_conflict(self, f1, f2):
                    return eng._call_resolver(resolver_fn, f1, f2)

            if translate_fn is not None:
                def translate(self, side, path):
                    return translate_fn(self, side, path)

        self._wrap_providers()
        if storage is not None:
            self._wrap_storage()
        kw = dict(cs_kwargs or {})
        if fl.root_by == "oid":
            kw["root_oids"] = world.root_oids
        self.cs = CS(tuple(world.provs), roots=fl.roots, storage=storage, **kw)
        self.cs.aging = 0
        self._guard = EventManager._provider_guard
        self.alive = True

    # ---- observers
    def _wrap_providers(self):
        for side, p in enumerate(self.world.provs):
            raw = self.world.raw[side]
            for name in MUTATORS:
                setattr(p, name, self._make_wrapper(side, name, raw[name]))
            setattr(p, "download", self._make_reader(side, raw["download"]))

    def _unwrap_providers(self):
        for side, p in enumerate(self.world.provs):
            for name in MUTATORS + ("download",):
                if name in p.__dict__:
                    delattr(p, name)

    def _make_wrapper(self, side, name, fn):
        eng = self

        def wrapper(*a, **kw):
            idx = eng.call_index
            eng.call_index += 1
            if eng.fault_plan is not None:
                exc = eng.fault_plan(side, name, idx)
                if exc is not None:
                    eng.trace.append(dict(side=side, call=name, args=_canon_args(name, a), error="injected:" + type(exc).__name__))
                    raise exc
            rec = dict(side=side, call=name, args=_canon_args(name, a))
            rec["targets"] = eng._targets(side, name, a)
            try:
                r = fn(*a, **kw)
            except Exception as e:
                rec["error"] = type(e).__name__
                eng.trace.append(rec)
                if eng.on_action:
                    eng.on_action(rec)
                raise
            rec["result"] = getattr(r, "oid", r)
            eng.trace.append(rec)
            if eng.on_action:
                eng.on_action(rec)
            eng.provider_writes += 1
            if eng.crash_at == ("provider_after", eng.provider_writes):
                raise Token("crash after provider write %d" % eng.provider_writes)
            return r
        return wrapper

    def _targets(self, side, name, a):
        """absolute paths addressed by an engine call: the object's path before the call and the new path"""
        p = self.world.provs[side]
        out = []
        if name in ("create", "mkdir"):
            out.append(a[0])
        else:
            o = p._mock_fs.get(a[0])
            if o is not None and o.path is not None:
                out.append(o.path)
            if name == "rename":
                out.append(a[1])
        return out

    def _make_reader(self, side, fn):
        eng = self

        def wrapper(oid, f, *a, **kw):
            idx = eng.call_index
            eng.call_index += 1
            if eng.fault_plan is not None:
                exc = eng.fault_plan(side, "download", idx)
                if exc is not None:
                    eng.trace.append(dict(side=side, call="download", args=[oid], error="injected:" + type(exc).__name__))
                    raise exc
            return fn(oid, f, *a, **kw)
        return wrapper

    def _wrap_storage(self):
        st = self.storage
        eng = self
        for name in ("create", "update", "delete"):
            fn = getattr(st, name)

            def mk(name, fn):
                def wrapper(*a, **kw):
                    eng.storage_writes += 1
                    if eng.crash_at == ("storage_before", eng.storage_writes):
                        raise Token("crash before storage write %d" % eng.storage_writes)
                    r = fn(*a, **kw)
                    eng.storage_log.append((name, a[0], a[2] if name == "update" else (r if name == "create" else a[1])))
                    return r
                return wrapper
            setattr(st, name, mk(name, fn))

    def _unwrap_storage(self):
        if self.storage is not None:
            for name in ("create", "update", "delete"):
                if name in self.storage.__dict__:
                    delattr(self.storage, name)

    def _call_resolver(self, resolver, f1, f2):
        rec = dict(sides=[f1.side, f2.side], paths=[f1.path, f2.path])
        try:
            rec["bytes"] = [f1.read(), f2.read()]
            f1.seek(0)
            f2.seek(0)
        except Exception as e:
            rec["read_error"] = type(e).__name__
        self.resolver_calls.append(rec)
        return resolver(f1, f2)

    # ---- steps (what Runnable.run does around one do())
    def _do(self, mgr, label):
        from cloudsync.runnable import _BackoffError
        try:
            mgr.do()
            return "ok"
        except _BackoffError:
            return "backoff"
        except Token:
            raise
        except Exception as e:
            self.loop_errors.append((label, type(e).__name__, str(e)[:200]))
            return "exc:" + type(e).__name__

    def intake(self, side):
        return self._do(self.cs.emgrs[side], "events%d" % side)

    def sync(self):
        return self._do(self.cs.smgr, "sync")

    def busy(self):
        try:
            return bool(self.cs.busy)
        except Exception:
            return True

    def round(self):
        self.intake(0)
        self.intake(1)
        self.sync()

    def drain(self, max_rounds=200):
        """fair rounds until not busy (checked twice); returns number of rounds or None if the bound is hit"""
        for i in range(max_rounds):
            if not self.busy():
                return i
            self.round()
        return None if self.busy() else max_rounds

    # ---- life cycle
    def stop(self):
        """orderly stop (what CloudSync.done does), providers stay connected and reusable"""
        if self.alive:
            self._unwrap_providers()
            self._unwrap_storage()
            try:
                self.cs.done()
            except Exception:
                pass
            for p in self.world.provs:
                self._guard.remove(p)
            self.alive = False

    def kill(self):
        """process death: nothing of the engine object survives; only providers and storage do"""
        if self.alive:
            self._unwrap_providers()
            self._unwrap_storage()
            for p in self.world.provs:
                self._guard.remove(p)
            try:
                shutil.rmtree(self.cs.smgr.tempdir, ignore_errors=True)
            except Exception:
                pass
            self.alive = False


def _canon_args(name, a):
    out = []
    for x in a:
        if hasattr(x, "read"):
            try:
                pos = x.tell()
                data = x.read()
                x.seek(pos)
                out.append(data)
            except Exception:
                out.append("<stream>")
        else:
            out.append(x)
    return out


class TempStorage:
    """SqliteStorage on a file in a private temp dir (removed by close())"""

    def __init__(self):
        from cloudsync.sync.sqlite_storage import SqliteStorage
        self.dir = tempfile.mkdtemp(prefix="cs-verif-")
        self.path = os.path.join(self.dir, "state.db")
        self.cls = SqliteStorage

    def open(self):
        return self.cls(self.path)

    def close(self):
        shutil.rmtree(self.dir, ignore_errors=True)
