"""C07 — crash consistency: case family, the observer of individual writes, and the runs.

A *base case* is a clean-domain history (one-sided or disjoint, harness/families.py).  `explore_base` first runs it
without a crash on SqliteStorage-on-a-file, counting its storage writes and its engine-issued provider writes between
the start of the schedule and the final quiet state, then re-runs it once per crash instant: process death immediately
BEFORE the k-th storage create/update/delete, for every k, and immediately AFTER the k-th provider
create/upload/rename/delete/mkdir, for every k (enginecheck.run_case, schedule action ["crash", kind, k]).

Oracles
  * Monitor acceptance of the observed trace (convergence, spec, covered versions live, no '.conflicted', origin untouched)
    + C11 index clauses + C08 storage == memory after every step of the recovery (run_case oracles index/storage);
  * "durable never ahead" = CrashModel.na_row / na_obj, the functions theorem C07_durable_never_ahead is stated with,
    extracted and called through the model process (requests 0 and 1), on the decoded rows of the real storage: at
    EVERY write boundary of the uncrashed run and, on the storage re-opened from its file, at the crash instant;
  * write order: the sequence of provider writes / row commits / cursor stores of every engine step must be in the
    language of the model's plans (CrashModel.shape_ok, request 2; theorems C07_*_plan_write_order);
  * recovery rule: the crash state is abstracted to the model's slots; the model's recovery (request 3) predicts, per
    object, the provider writes of the recovery (adoption = none) and the final views; both are compared with what the
    real recovery did;
  * an undecodable row written into the surviving storage at some crash instants must be dropped by the restart.
Nothing here edits /repo; observers wrap bound methods of instances."""
import collections
import io
import json
import multiprocessing as mp
import random

from . import engine as E
from . import enginecheck as EC
from . import framework as fw
from . import families as F
from .storage_oracle import decode_row

KIND_CODE = {"create": 2, "mkdir": 2, "upload": 3, "rename": 4, "delete": 5}   # CrashModel.sx_sop codes
GARBAGE = b"\xc1 not msgpack"          # 0xc1 is never a valid first byte


def base_case(rng, quick=True):
    """one-sided (60 %) or disjoint (40 %) clean-domain history; `resume`: the rest of the schedule continues after
    the recovery has become quiet (30 %)"""
    case = F.one_sided(rng) if rng.random() < 0.6 else F.disjoint(rng)
    if quick and len(case["schedule"]) > 30:
        # keep quick runs short: cut the schedule at a drain-free point (a prefix of a clean history is clean)
        case["schedule"] = case["schedule"][:30]
    case["schedule"] = settle_before_leaving(case["schedule"])
    if rng.random() < 0.3:
        case["resume_after_crash"] = True
    return case


def settle_before_leaving(schedule):
    """claimed-clean domain of C07: an object made since the last quiet point is not renamed, moved or deleted before the
    next one (a drain is inserted).  Otherwise the engine may create the peer at a path the origin has already left and die
    before the commit; that half-recorded create is not recognised (finding F-C07-2, corpus/C07/F-C07-2-*.json)."""
    out, fresh = [], set()
    for a in schedule:
        if a[0] == "drain":
            fresh = set()
        elif a[0] == "user":
            op = a[2]
            if op[0] in ("create", "mkdir"):
                fresh.add(op[1])
            elif op[0] in ("rename", "delete"):
                src = op[1]
                if any(src == f or src.startswith(f + "/") for f in fresh):
                    out.append(["drain"])
                    fresh = set()
                if op[0] == "rename":
                    fresh.add(op[2])
        out.append(a)
    return out


# ------------------------------------------------------------------ interning
class Tab:
    def __init__(self):
        self.paths = {}
        self.names = {}
        self.contents = {}
        self.hashes = {}
        self.unknown_hash = {}

    def path(self, rel):
        if rel not in self.paths:
            self.paths[rel] = len(self.paths) + 1
        return self.paths[rel]

    def name(self, rel):
        b = rel.rstrip("/").split("/")[-1]
        if b not in self.names:
            self.names[b] = len(self.names) + 1
        return self.names[b]

    def content(self, data, h):
        data = bytes(data)
        if data not in self.contents:
            self.contents[data] = len(self.contents) + 1
        self.hashes[_hkey(h)] = self.contents[data]
        return self.contents[data]

    def hash(self, h):
        k = _hkey(h)
        if k in self.hashes:
            return self.hashes[k]
        if k not in self.unknown_hash:
            self.unknown_hash[k] = 1000000 + len(self.unknown_hash)
        return self.unknown_hash[k]


def _hkey(h):
    return repr(h)


def _opt(x):
    return [] if x is None else [x]


# ------------------------------------------------------------------ the observer
class CrashObs:
    """Attached to a run (hooks after_base / after_restart / on_crash).  Keeps: the history of states of every provider
    object, which objects users made (origins) and which the engine made for which origin (peers), the unified log
    of individual writes per engine step, and evaluates the oracles."""

    def __init__(self, crashproc, check_boundaries):
        self.m = crashproc
        self.check_boundaries = check_boundaries
        self.tab = Tab()
        self.world = None
        self.eng = None
        self.tags = None
        self.hist = [collections.OrderedDict(), collections.OrderedDict()]   # oid -> list of distinct (rel, cid|None, live)
        self.origin_of = [{}, {}]      # oid -> slot id, for objects made by users
        self.peer_of = [{}, {}]        # oid -> slot id, for objects made by the engine
        self.slots = []                # slot id -> dict(side, org=[oids], peers=[[oids]...])
        self.steps = []                # (kind, side, [wk codes])
        self.cur_step = None
        self.pending = []              # oracle requests (what, request, context)
        self.cache = {}
        self.bad = []                  # oracle failures: (what, detail)
        self.n_boundaries = 0
        self.n_requests = 0
        self.recording = False
        self.rec_writes = []           # provider writes after the crash: (slot id | None, code)
        self.crash_info = None
        self.inject_garbage = False
        self.garbage_id = None
        self.stats = collections.Counter()
        self.pyid = [{}, {}]
        self.keep = []

    # ---- provider side
    def rel(self, side, path):
        root = self.world.fl.roots[side].rstrip("/")
        if path == root:
            return ""
        if path.startswith(root + "/"):
            return path[len(root):]
        return None

    def obj_state(self, side, o):
        p = self.world.provs[side]
        if o.type == o.DIR:
            cid = None
        else:
            data = bytes(o.contents or b"")
            cid = self.tab.content(data, p.hash_data(io.BytesIO(data)))
        return (self.rel(side, o.path), cid, bool(o.exists))

    def scan(self):
        """-> True when some object changed since the last scan"""
        changed = False
        for s in (0, 1):
            for o in self.world.provs[s]._mock_fs.fs_objects():
                # path-style ids: an object (also every descendant of a renamed folder) changes its oid with its path
                was = self.pyid[s].get(id(o))
                if was is None:
                    self.keep.append(o)
                elif was != o.oid:
                    self.alias(s, was, o.oid)
                self.pyid[s][id(o)] = o.oid
                st = self.obj_state(s, o)
                h = self.hist[s].setdefault(o.oid, [])
                if not h or h[-1] != st:
                    if st in h:
                        h.remove(st)
                    h.append(st)
                    changed = True
        return changed

    def alias(self, side, old, new):
        for table in (self.origin_of[side], self.peer_of[side]):
            if old in table and new not in table:
                sid = table[old]
                table[new] = sid
                for grp in self.slots[sid]["peers"] + [self.slots[sid]["org"]]:
                    if old in grp and new not in grp:
                        grp.append(new)

    def live_objects(self, side):
        return {o.oid: o for o in self.world.provs[side]._mock_fs.fs_objects()}

    def last_events(self, side):
        le = {}
        for i, ev in enumerate(self.world.provs[side]._events):
            d = ev.serialize()
            le[d["id"]] = i + 1
            if d.get("prior_oid"):
                le[d["prior_oid"]] = i + 1
        return le

    def new_slot(self, side, oid, claimed=True):
        self.slots.append(dict(side=side, org=[oid], peers=[], claimed=claimed))
        self.origin_of[side][oid] = len(self.slots) - 1

    def note_user(self, side, before):
        """objects that appeared on `side` through a user operation are origins (a path-style rename gives the object a
        new oid: same slot).  An object of the synchronised base tree becomes the origin of its slot on the side a user
        first touches it (the base tree is made on side 0 but users may act on side 1)."""
        after = self.live_objects(side)
        for oid, o in after.items():
            if oid in self.peer_of[side]:
                sid = self.peer_of[side][oid]
                sl = self.slots[sid]
                if not sl.get("claimed") and len(sl["peers"]) == 1 and (oid not in before or before[oid][1] != self.obj_state(side, o)):
                    grp = sl["peers"][0]
                    for x in sl["org"]:
                        self.origin_of[sl["side"]].pop(x, None)
                        self.peer_of[sl["side"]][x] = sid
                    for x in grp:
                        self.peer_of[side].pop(x, None)
                        self.origin_of[side][x] = sid
                    sl["peers"], sl["org"], sl["side"] = [sl["org"]], grp, side
                    sl["claimed"] = True
            elif oid in self.origin_of[side] and (oid not in before or before[oid][1] != self.obj_state(side, o)):
                self.slots[self.origin_of[side][oid]]["claimed"] = True
        new = [oid for oid in after if oid not in before and after[oid].exists]
        gone = [oid for oid in before if oid not in after or not after[oid].exists]
        for oid in new:
            if oid in self.origin_of[side] or oid in self.peer_of[side]:
                continue
            prev = [g for g in gone if g in self.origin_of[side] and before[g][0] is after[oid]]
            if prev:
                sid = self.origin_of[side][prev[0]]
                self.slots[sid]["org"].append(oid)
                self.origin_of[side][oid] = sid
            else:
                self.new_slot(side, oid)

    def note_engine(self, rec):
        """an engine-made object belongs to the slot of the origin object whose translated path it was made at"""
        side, call = rec["side"], rec["call"]
        if rec.get("error"):
            return None
        objs = self.live_objects(side)
        if call in ("create", "mkdir"):
            oid = rec.get("result")
            o = objs.get(oid)
            if o is None or oid in self.peer_of[side] or oid in self.origin_of[side]:
                return self.peer_of[side].get(oid, self.origin_of[side].get(oid))
            rel = self.rel(side, o.path)
            other = self.live_objects(1 - side)
            for ooid, oo in other.items():
                if ooid in self.origin_of[1 - side] and oo.exists and self.rel(1 - side, oo.path) == rel:
                    sid = self.origin_of[1 - side][ooid]
                    self.slots[sid]["peers"].append([oid])
                    self.peer_of[side][oid] = sid
                    return sid
            return None
        oid = rec["args"][0]
        sid = self.peer_of[side].get(oid, self.origin_of[side].get(oid))
        if call == "rename":
            noid = rec.get("result")
            if noid is not None and noid != oid and sid is not None:
                table = self.peer_of[side] if oid in self.peer_of[side] else self.origin_of[side]
                table[noid] = sid
                for grp in self.slots[sid]["peers"] + [self.slots[sid]["org"]]:
                    if oid in grp and noid not in grp:
                        grp.append(noid)
        return sid

    # ---- attaching
    def attach(self, eng, world, first=True):
        self.world, self.eng = world, eng
        obs = self
        if first:
            cs = eng.cs
            self.tags = dict(sync=cs.state._tag, cursor=[cs.emgrs[s]._cursor_tag for s in (0, 1)],
                             walk=[cs.emgrs[s]._walk_tag for s in (0, 1)])
            self.scan()
            self.slots_from_rows(eng.storage)
            ou = world.user

            def user(side, op):
                before = {oid: (o, obs.obj_state(side, o)) for oid, o in obs.live_objects(side).items()}
                if op[0] == "rename":
                    src = world.provs[side]._mock_fs.get(world.provs[side].normalize_path(op[1]))
                    if src is not None and src.type == src.DIR:
                        obs.stats["user_folder_renames"] += 1
                r = ou(side, op)
                obs.scan()
                obs.note_user(side, before)
                return r
            world.user = user
        oa = eng.on_action

        def on_action(rec):
            # only writes that change the provider are transfers: mkdir of a folder that is already there (provider mkdirs
            # is idempotent; this is how the engine "adopts" a half-recorded folder), a second delete, a rename to the
            # present path change nothing
            again = not obs.scan()
            sid = obs.note_engine(rec)
            if not rec.get("error"):
                if obs.cur_step is not None:
                    obs.cur_step[2].append(0)
                if again:
                    obs.stats["provider_writes_without_effect"] += 1
                if obs.recording and not again:
                    code = KIND_CODE[rec["call"]]
                    if rec["call"] == "rename" and ".conflicted" in str(rec["args"][1]):
                        code = 6
                    obs.rec_writes.append((sid, code))
                if obs.check_boundaries:
                    obs.boundary(eng.storage, "after provider write")
            if oa:
                oa(rec)
        eng.on_action = on_action
        st = eng.storage
        for name in ("create", "update", "delete"):
            fn = getattr(st, name)

            def mk(name, fn):
                def w(*a, **kw):
                    if obs.check_boundaries:
                        obs.boundary(st, "before storage write")
                    if obs.cur_step is not None:
                        obs.cur_step[2].append(obs.wk_of_tag(a[0], obs.cur_step))
                    return fn(*a, **kw)
                return w
            setattr(st, name, mk(name, fn))
        for name in ("intake", "sync"):
            fn = getattr(eng, name)

            def mk2(name, fn):
                def w(*a):
                    obs.cur_step = (name, a[0] if a else None, [])
                    try:
                        return fn(*a)
                    finally:
                        obs.steps.append(obs.cur_step)
                        obs.cur_step = None
                return w
            setattr(eng, name, mk2(name, fn))

    def wk_of_tag(self, tag, step):
        if tag == self.tags["sync"]:
            return 1
        if step[0] == "intake" and tag == self.tags["cursor"][step[1]]:
            return 2
        if step[0] == "intake" and tag == self.tags["walk"][step[1]]:
            return 3
        return 4

    def slots_from_rows(self, storage):
        """after the base tree is synchronised: one slot per row (base operations are made on side 0)"""
        rows = self.read_rows(storage)[0]
        for rid, r in sorted(rows.items()):
            a, b = r["side0"], r["side1"]
            if a["path"] is not None and not self.rel(0, a["path"]):
                continue                      # the root folders themselves are not objects of the history
            if a["oid"] is not None and a["oid"] not in self.origin_of[0]:
                self.new_slot(0, a["oid"], claimed=False)
                if b["oid"] is not None:
                    self.slots[-1]["peers"].append([b["oid"]])
                    self.peer_of[1][b["oid"]] = len(self.slots) - 1

    # ---- storage side
    def read_rows(self, storage):
        allrows = storage.read_all()
        rows, bad = {}, []
        for rid, b in allrows.get(self.tags["sync"], {}).items():
            try:
                rows[rid] = decode_row(b)
            except Exception:      # pylint: disable=broad-except
                bad.append(rid)
        cur, walked = [None, None], [False, False]
        for s in (0, 1):
            for v in allrows.get(self.tags["cursor"][s], {}).values():
                cur[s] = v
            walked[s] = bool(allrows.get(self.tags["walk"][s]))
        return rows, cur, walked, bad

    def sx_side(self, side, x, by_name=False):
        key = self.tab.name if by_name else self.tab.path

        def p(v):
            if v is None:
                return []
            rel = self.rel(side, v)
            return [key(rel if rel is not None else "<outside>" + v)]
        return [1 if x["oid"] is not None else 0, p(x["path"]), _opt(None if x["hash"] is None else self.tab.hash(x["hash"])),
                1 if x["exists"] == "exists" else 0, p(x["sync_path"]),
                _opt(None if x["sync_hash"] is None else self.tab.hash(x["sync_hash"])), 1 if x["changed"] else 0]

    def sx_ost(self, st, by_name=False):
        rel, cid, live = st
        key = self.tab.name if by_name else self.tab.path
        return [key(rel if rel is not None else "<outside>"), _opt(cid), 1 if live else 0,
                1 if (rel and ".conflicted" in rel) else 0]

    def sx_obj(self, side, oid, ev, by_name=False):
        h = self.hist[side].get(oid)
        if not h:
            return None
        return [self.sx_ost(h[-1], by_name), [self.sx_ost(s, by_name) for s in h[:-1]], ev]

    def ask(self, what, req, ctx):
        key = fw.sx_dump(req)
        if key in self.cache:
            if self.cache[key] is not None and self.cache[key] != 1:
                self.bad.append((what, ctx))
            return
        self.cache[key] = None
        self.pending.append((what, req, ctx, key))

    def flush(self):
        if not self.pending:
            return
        answers = self.m.batch([p[1] for p in self.pending])
        self.n_requests += len(answers)
        for (what, req, ctx, key), ans in zip(self.pending, answers):
            self.cache[key] = ans
            if ans != 1:
                self.bad.append((what, ctx))
        self.pending = []

    def boundary(self, storage, where):
        """durable never ahead on the rows of `storage` and the providers as they are now"""
        self.n_boundaries += 1
        rows, cur, walked, bad = self.read_rows(storage)
        les = [self.last_events(0), self.last_events(1)]
        for rid, r in rows.items():
            sd = [r["side0"], r["side1"]]
            objs = [None if sd[s]["oid"] is None else self.sx_obj(s, sd[s]["oid"], les[s].get(sd[s]["oid"], 0)) for s in (0, 1)]
            disc = 1 if r.get("ignored") in ("discarded", "irrelevant") else 0
            self.ask("NA1 (a stored row records a transfer the providers do not reflect)",
                     [0, self.sx_side(0, sd[0]), self.sx_side(1, sd[1]), _opt(objs[0]), _opt(objs[1]), disc],
                     dict(where=where, row=rid, side0={k: repr(v)[:60] for k, v in sd[0].items() if k in ("oid", "path", "sync_path", "sync_hash", "exists", "changed")},
                          side1={k: repr(v)[:60] for k, v in sd[1].items() if k in ("oid", "path", "sync_path", "sync_hash", "exists", "changed")}))
        for s in (0, 1):
            refs = {}
            for rid, r in rows.items():
                x = r["side%d" % s]
                if x["oid"] is not None:
                    refs.setdefault(x["oid"], []).append(x)
            objs = self.live_objects(s)
            dir_ev = {o.path: les[s].get(oid, 0) for oid, o in objs.items() if o.type == o.DIR and o.exists}
            for oid, o in objs.items():
                rel = self.rel(s, o.path)
                if not rel:
                    continue
                # an event about a folder (rename, delete) is an event about everything below it
                ev = les[s].get(oid, 0)
                parts = o.path.split("/")
                for i in range(2, len(parts)):
                    ev = max(ev, dir_ev.get("/".join(parts[:i]), 0))
                ob = self.sx_obj(s, oid, ev, by_name=True)
                if ob is None:
                    continue
                self.ask("NA2 (the stored cursor covers an event no stored row accounts for)",
                         [1, _opt(None if cur[s] is None else cur[s] + 1), 1 if walked[s] else 0, ob,
                          [self.sx_side(s, x, by_name=True) for x in refs.get(oid, [])]],
                         dict(where=where, side=s, oid=oid, path=o.path, last_event=les[s].get(oid), cursor=cur[s],
                              rows=[{k: repr(v)[:60] for k, v in x.items() if k in ("path", "hash", "exists", "changed")} for x in refs.get(oid, [])]))

    def check_shapes(self):
        for kind, side, ws in self.steps:
            self.stats["steps_" + kind] += 1
            if ws:
                self.stats["steps_with_writes"] += 1
            self.ask("write order of an engine step is not a write order of the model's plans",
                     [2, 1 if kind == "sync" else 0, ws], dict(step=kind, side=side, writes=ws))

    # ---- crash instant
    def on_crash(self, world, storage, res):
        self.world = world
        self.scan()
        self.boundary(storage, "crash instant (storage re-opened from its file)")
        self.crash_info = self.abstract_slots(storage)
        if self.inject_garbage:
            self.garbage_id = storage.create(self.tags["sync"], GARBAGE)
        self.recording = True

    def after_restart(self, eng, world):
        # the client-side position of the (re-used) provider object dies with the process: the new event manager
        # starts from the stored cursor (what its first do() sets; done here so that `busy` is meaningful at once)
        for s in (0, 1):
            em = eng.cs.emgrs[s]
            if em.cursor is not None:
                world.provs[s].current_cursor = em.cursor
        self.attach(eng, world, first=False)
        if self.garbage_id is not None:
            rows = eng.storage.read_all(self.tags["sync"])
            if self.garbage_id in rows:
                self.bad.append(("a row that fails to load survived the restart", dict(row=self.garbage_id)))
            self.stats["garbage_rows_dropped"] += 1

    def abstract_slots(self, storage):
        """the crash state in the model's vocabulary (paths by name: a renamed ancestor does not rename a child)"""
        rows, cur, walked, bad = self.read_rows(storage)
        les = [self.last_events(0), self.last_events(1)]
        out, ok = [], True
        used_rows = set()
        for sid, sl in enumerate(self.slots):
            s = sl["side"]
            t = 1 - s
            org_oid = sl["org"][-1]
            org = self.sx_obj(s, org_oid, max(les[s].get(o, 0) for o in sl["org"]), by_name=True)
            if org is None:
                ok = False
                continue
            # states of an object that changed its oid (path-style rename) are merged
            for o in sl["org"][:-1]:
                prev = self.sx_obj(s, o, 0, by_name=True)
                if prev:
                    org[1] = org[1] + [prev[0]] + prev[1]
            peers = []
            for grp in sl["peers"]:
                p = self.sx_obj(t, grp[-1], max(les[t].get(o, 0) for o in grp), by_name=True)
                if p is None:
                    ok = False
                    continue
                for o in grp[:-1]:
                    prev = self.sx_obj(t, o, 0, by_name=True)
                    if prev:
                        p[1] = p[1] + [prev[0]] + prev[1]
                peers.append((grp, p))
            mine = [(rid, r) for rid, r in rows.items() if r["side%d" % s]["oid"] in sl["org"]]
            live_mine = [(rid, r) for rid, r in mine if r.get("ignored") not in ("discarded", "irrelevant")] or mine
            if len(live_mine) > 1:
                ok = False
                self.stats["oof_two_rows_for_one_object"] += 1
            ent = []
            if live_mine:
                rid, r = live_mine[0]
                used_rows.add(rid)
                x, y = r["side%d" % s], r["side%d" % t]
                ref = 0
                if y["oid"] is not None:
                    hit = [i for i, (grp, _) in enumerate(peers) if y["oid"] in grp]
                    if hit:
                        ref = hit[0]
                    else:
                        ok = False
                        self.stats["oof_row_names_unknown_peer"] += 1
                ent = [[self.sx_side(s, x, by_name=True), self.sx_side(t, y, by_name=True), ref,
                        1 if r.get("ignored") in ("discarded", "irrelevant") else 0]]
            out.append([s, org, [p for _, p in peers], ent])
        nev = [len(self.world.provs[s]._events) for s in (0, 1)]
        c = [0 if cur[s] is None else cur[s] + 1 for s in (0, 1)]
        return dict(slots=out, nev=nev, cur=c, coherent=ok and all(walked) and None not in cur)

    def judge_recovery(self, final_views):
        """model recovery of the abstracted crash state vs what the real recovery did"""
        ci = self.crash_info
        if ci is None:
            return
        if not ci["coherent"]:
            self.stats["crash_states_out_of_fragment"] += 1
            return
        ans = self.m.call([3, 1, ci["slots"], ci["nev"][0], ci["nev"][1], ci["cur"][0], ci["cur"][1]])
        self.n_requests += 1
        if ans == fw.MALFORMED:
            self.bad.append(("model could not decode the abstracted crash state", dict(slots=repr(ci["slots"])[:400])))
            return
        na, writes, outcome = ans
        self.stats["recoveries_judged"] += 1
        if na != 1:
            self.bad.append(("durable never ahead fails on the slot abstraction of the crash state", dict(slots=repr(ci["slots"])[:600])))
        predicted = collections.Counter()
        for sid, ws in enumerate(writes):
            for w in ws:
                predicted[(sid, w[0])] += 1
        real = collections.Counter()
        for sid, code in self.rec_writes_until_quiet:
            real[(sid, code)] += 1
        settled, vl, vr, conf, nodup, na2 = outcome
        if not (settled == 1 and vl == vr and conf == 0 and nodup == 1 and na2 == 1):
            self.bad.append(("the model's recovery of the abstracted crash state does not converge (theorem "
                             "C07_half_recorded_recoverable_partial does not apply: state outside the invariant)",
                             dict(outcome=repr(outcome)[:300])))
        if predicted != real:
            self.bad.append(("recovery writes differ from the model's recovery plan (per object; 2 create 3 upload 4 rename 5 delete "
                             "6 conflict-rename)", dict(predicted=sorted(predicted.items()), real=sorted(real.items(), key=repr))))
        else:
            self.stats["recovery_writes_equal"] += 1
            self.stats["recovery_provider_writes"] += sum(real.values())
            if not real:
                self.stats["recoveries_without_provider_write"] += 1
        # final views, by (name, content)
        mine = sorted([tuple([v[0], tuple(v[1])]) for v in vl])
        real_view = []
        for rel, node in final_views[0].items():
            cid = None
            if node[0] != "D":
                cid = self.tab.contents.get(bytes(node[1]))
            real_view.append((self.tab.names.get(rel.rstrip("/").split("/")[-1]), () if node[0] == "D" else (cid,)))
        if mine != sorted(real_view):
            self.bad.append(("final view differs from the model's recovery outcome", dict(model=mine[:20], real=sorted(real_view, key=repr)[:20])))


# ------------------------------------------------------------------ runs
def _hooks(obs, marks):
    def after_base(eng, world):
        marks["s0"], marks["p0"] = eng.storage_writes, eng.provider_writes
        obs.attach(eng, world, first=True)

    def mark(eng, world, args):
        marks["s1"], marks["p1"] = eng.storage_writes, eng.provider_writes
        if obs.recording and not hasattr(obs, "rec_writes_until_quiet"):
            obs.rec_writes_until_quiet = list(obs.rec_writes)
    return dict(after_base=after_base, mark=mark, on_crash=obs.on_crash, after_restart=obs.after_restart,
                quiet_mark=lambda eng, world, args: _quiet_mark(obs))


def _quiet_mark(obs):
    if obs.recording and not hasattr(obs, "rec_writes_until_quiet"):
        obs.rec_writes_until_quiet = list(obs.rec_writes)


def run_base(case, monitor, crashproc):
    """the uncrashed run: counts the crash points, checks every write boundary and every step's write order"""
    obs = CrashObs(crashproc, check_boundaries=True)
    marks = {}
    c = dict(case, schedule=case["schedule"] + [["drain"], ["hook", "mark"]])
    c.pop("resume_after_crash", None)
    res = EC.run_case(c, monitor, storage_factory="sqlite-file", hooks=_hooks(obs, marks), oracles=("index", "storage"))
    obs.check_shapes()
    obs.flush()
    return res, obs, marks


def run_crash(case, kind, k, monitor, crashproc, garbage=False, order=None):
    """the same run with the process dying at the k-th storage write (before it) / provider write (after it)"""
    obs = CrashObs(crashproc, check_boundaries=False)
    obs.inject_garbage = garbage
    marks = {}
    sched = [["crash", kind, k]] + case["schedule"] + [["drain"], ["hook", "mark"]]
    c = dict(case, schedule=sched)
    if order == "sync_first":
        # the restarted sync manager runs before the event managers have delivered anything: the half-recorded peer is
        # met through the provider (manager.py:706-715), not through its event (1139-1179 / 1634-1649)
        c["after_crash_steps"] = [["sync"], ["sync"], ["sync"]]
    elif order == "peer_first":
        c["after_crash_steps"] = [["intake", 1], ["intake", 0], ["sync"]]
    if c.get("resume_after_crash"):
        # the recovery runs to quiet first (run_case drains after the crash); its writes end there
        c["schedule"] = [["crash", kind, k]] + _with_quiet_mark(case["schedule"]) + [["drain"], ["hook", "mark"]]
    res = EC.run_case(c, monitor, storage_factory="sqlite-file", hooks=_hooks(obs, marks), oracles=("index", "storage"),
                      extra_rounds=3)
    if not hasattr(obs, "rec_writes_until_quiet"):
        obs.rec_writes_until_quiet = list(obs.rec_writes)
    obs.check_shapes()
    obs.flush()
    return res, obs


def _with_quiet_mark(schedule):
    # a hook action after every action: the first one executed after the crash (= after the post-crash drain) freezes
    # the list of recovery writes
    out = []
    for a in schedule:
        out.append(a)
        out.append(["hook", "quiet_mark"])
    return out


def use_ram_tmp():
    """the storage files of the runs go to a RAM file system when there is one: SQLite commits are then cheap, what is
    written and what survives a simulated process death are unchanged"""
    import os
    import tempfile
    if os.path.isdir("/dev/shm") and os.access("/dev/shm", os.W_OK):
        tempfile.tempdir = "/dev/shm"


def explore_base(args):
    """one base case and all its crash points -> stats, failures"""
    seed, idx, quick = args
    E.install()
    use_ram_tmp()
    if "monitor" not in _W:
        _W["monitor"] = fw.ModelProc("monitor")
        _W["crash"] = fw.ModelProc("crash")
    mon, cp = _W["monitor"], _W["crash"]
    if seed == "corpus":
        doc = json.load(open(idx))
        case = EC.unjson_case(doc["case"])
        case["_id"] = ["corpus", idx.split("/")[-1]]
        st, fails, hist = explore_case(case, mon, cp)
        st = collections.Counter({"corpus_" + k: v for k, v in st.items() if k in ("base_runs", "crash_runs")})
        return st, fails, None
    rng = random.Random("%s/c07/%d" % (seed, idx))
    case = base_case(rng, quick)
    case["_id"] = ["c07", idx]
    return explore_case(case, mon, cp, rng)


def explore_case(case, mon, cp, rng=None, max_points=None):
    st = collections.Counter()
    fails = []
    res, obs, marks = run_base(case, mon, cp)
    st["base_runs"] += 1
    st["boundaries_checked"] += obs.n_boundaries
    st["na_requests"] += obs.n_requests
    st.update(obs.stats)
    nu = sum(1 for a in case["schedule"] if a[0] == "user")
    st["user_ops"] += nu
    if res.verdict != []:
        fails.append(dict(kind="base", case=EC.jsonable_case(case), what="uncrashed run rejected: " + EC.describe(res)))
        return st, fails, None
    for what, ctx in obs.bad[:3]:
        fails.append(dict(kind="oracle", case=EC.jsonable_case(case), what=what, detail=ctx))
    ns, np_ = marks["s1"] - marks["s0"], marks["p1"] - marks["p0"]
    st["storage_crash_points"] += ns
    st["provider_crash_points"] += np_
    # claimed-clean domain of the resumed runs (history continues after the recovery): no folder rename in the history.
    # A process death between the row commits that follow a folder rename leaves the children's rows with their old
    # paths (finding F-C07-1, corpus/C07/F-C07-1-*.json, deterministic); a later operation on such a child is then mistaken.
    if case.get("resume_after_crash") and obs.stats["user_folder_renames"]:
        case = dict(case)
        case.pop("resume_after_crash")
        st["resume_dropped_folder_rename"] += 1
    if case.get("resume_after_crash"):
        st["base_runs_resumed_after_recovery"] += 1
    points = [("storage_before", k) for k in range(1, ns + 1)] + [("provider_after", k) for k in range(1, np_ + 1)]
    if max_points is not None and len(points) > max_points:
        points = (rng or random).sample(points, max_points)
    hist = dict(points=ns + np_, user_ops=nu, distinct=[], sample=None)
    base_key = fw.case_id(EC.jsonable_case(dict(f=case["flavour"], b=case.get("base"), s=case["schedule"], h=case.get("hash_mult"),
                                                 r=bool(case.get("resume_after_crash")))))[:16]
    n = 0
    for kind, k in points:
        n += 1
        garbage = (n % 7 == 3)
        order = (None, "sync_first", None, "peer_first", "sync_first")[n % 5]
        crash_case = dict(case, crash=[kind, k], garbage=garbage, order=order)
        try:
            r, o = run_crash(case, kind, k, mon, cp, garbage=garbage, order=order)
        except E.Token:
            # the crash index was not reached before the final quiet state (cannot happen for a deterministic run)
            fails.append(dict(kind="harness", case=EC.jsonable_case(crash_case), what="crash point not reached: the run is not deterministic"))
            continue
        except Exception as e:      # pylint: disable=broad-except
            fails.append(dict(kind="fatal", case=EC.jsonable_case(crash_case),
                              what="restart after the crash is fatal: %s: %s" % (type(e).__name__, str(e)[:200])))
            continue
        st["crash_runs"] += 1
        st["crash_runs_" + kind] += 1
        st["recovery_order_" + (order or "fair_rounds")] += 1
        if garbage:
            st["garbage_rows_injected"] += 1
        st.update(o.stats)
        st["na_requests"] += o.n_requests
        st["boundaries_checked"] += o.n_boundaries
        st["engine_calls"] += r.engine_calls
        if not r.extra.get("crashed"):
            fails.append(dict(kind="harness", case=EC.jsonable_case(crash_case), what="the crash did not happen"))
            continue
        if r.verdict != []:
            fails.append(dict(kind="monitor", case=EC.jsonable_case(crash_case), guard=EC.GUARDS.get(r.verdict[1], r.verdict[1]),
                              what="run with a crash rejected: " + EC.describe(r)[:400], tail=[repr(e)[:160] for e in r.events[-10:]]))
            continue
        # non-trivial: the restarted engine had something to do (it wrote to storage or to a provider)
        if r.extra.get("storage_writes", 0) + r.extra.get("provider_writes", 0) > 0:
            hist["distinct"].append("%s/%s/%d/%s" % (base_key, kind, k, order))
        o.judge_recovery(r.final_views) if not case.get("resume_after_crash") else o.judge_recovery_writes_only()
        if hist["sample"] is None and kind == "provider_after":
            hist["sample"] = dict(
                flavour=case["flavour"], resume_after_recovery=bool(case.get("resume_after_crash")),
                base=[a[:2] for a in case.get("base", [])],
                schedule=[(a if a[0] != "user" else ["user", a[1], [x if not isinstance(x, bytes) else "<%d bytes>" % len(x) for x in a[2]]])
                          for a in case["schedule"]],
                crash_points=dict(storage_before=ns, provider_after=np_),
                one_crash_run=dict(crash=[kind, k], order=order or "fair_rounds", verdict="accepted",
                                   recovery_writes=[list(w) for w in o.rec_writes_until_quiet][:8],
                                   recovery_storage_writes=r.extra.get("storage_writes")))
        st.update({k2: v for k2, v in o.stats.items() if k2.startswith("recover") or k2.startswith("crash_states")})
        for what, ctx in o.bad[:2]:
            fails.append(dict(kind="oracle", case=EC.jsonable_case(crash_case), what=what, detail=ctx))
    return st, fails, hist


def _judge_writes_only(self):
    """resumed runs: the final views belong to the whole history; only never-ahead and the recovery writes are compared"""
    ci = self.crash_info
    if ci is None or not ci["coherent"]:
        self.stats["crash_states_out_of_fragment"] += 1 if ci is not None else 0
        return
    ans = self.m.call([3, 1, ci["slots"], ci["nev"][0], ci["nev"][1], ci["cur"][0], ci["cur"][1]])
    self.n_requests += 1
    if ans == fw.MALFORMED:
        self.bad.append(("model could not decode the abstracted crash state", dict(slots=repr(ci["slots"])[:400])))
        return
    na, writes, outcome = ans
    self.stats["recoveries_judged"] += 1
    predicted = collections.Counter()
    for sid, ws in enumerate(writes):
        for w in ws:
            predicted[(sid, w[0])] += 1
    real = collections.Counter(self.rec_writes_until_quiet)
    if na != 1:
        self.bad.append(("durable never ahead fails on the slot abstraction of the crash state", dict(slots=repr(ci["slots"])[:600])))
    if predicted != real:
        self.bad.append(("recovery writes differ from the model's recovery plan (per object; 2 create 3 upload 4 rename 5 delete "
                         "6 conflict-rename)", dict(predicted=sorted(predicted.items()), real=sorted(real.items(), key=repr))))
    else:
        self.stats["recovery_writes_equal"] += 1
        self.stats["recovery_provider_writes"] += sum(real.values())
        if not real:
            self.stats["recoveries_without_provider_write"] += 1


CrashObs.judge_recovery_writes_only = _judge_writes_only
_W = {}


def explore(ctx, n_base, procs=16, quick=True, seed=None, corpus_files=()):
    seed = ctx.seed if seed is None else seed
    jobs = [("corpus", path, quick) for path in corpus_files] + [(seed, i, quick) for i in range(n_base)]
    tot = collections.Counter()
    fails = []
    hists = []
    if procs <= 1:
        results = [explore_base(j) for j in jobs]
    else:
        with mp.get_context("fork").Pool(procs) as pool:
            results = pool.map(explore_base, jobs, chunksize=1)
    for st, fl, hist in results:
        tot.update(st)
        fails += fl
        if hist:
            hists.append(hist)
    return tot, fails, hists
