"""Coordinator tool: replace one '### Cxx' section of DESIGN.md by the text of notes/Cxx_design.md.
usage: python harness/design_tool.py C20 [C12 ...]   (sections end at the next '### ' / '## ' / '---' rule line)"""
import os, re, sys
VERIF = os.path.dirname(os.path.dirname(os.path.abspath(__file__)))


def replace(pid):
    dp = os.path.join(VERIF, "DESIGN.md")
    lines = open(dp).read().split("\n")
    new = open(os.path.join(VERIF, "notes", pid + "_design.md")).read().rstrip("\n").split("\n")
    if not new[0].startswith("### "):
        new = ["### %s" % pid] + new
    new[0] = re.sub(r"\s+— proposed replacement.*$", "", new[0])
    start = None
    for i, l in enumerate(lines):
        if re.match(r"^### %s\b" % pid, l):
            start = i
            break
    if start is None:
        raise SystemExit("no section for " + pid)
    end = len(lines)
    for j in range(start + 1, len(lines)):
        if lines[j].startswith("### ") or lines[j].startswith("## ") or lines[j].startswith("-----"):
            end = j
            break
    lines[start:end] = new + [""]
    open(dp, "w").write("\n".join(lines))
    print(pid, "section replaced (%d -> %d lines)" % (end - start, len(new)))


if __name__ == "__main__":
    for p in sys.argv[1:]:
        replace(p)
