"""Coordinator tool: replace one '### Cxx' section of DESIGN.md by the text of notes/Cxx_design.md.
usage: python harness/design_tool.py C20 [C12 ...]   (sections end at the next '### ' / '## ' / '---' rule line)"""
import os, re, sys
VERIF = os.path.dirname(os.path.dirname(os.path.abspath(__file__)))


def replace(pid):
    dp = os.path.join(VERIF, "DESIGN.md")
    lines = open(dp).read().split("\n")
    new = open(os.path.join(VERIF, "notes", pid + "_design.md")).read().rstrip("\n").split("\n")
    if not new[0].startswith("### "):
        new = ["### %s" % pid] + new
    new[0] = re.sub(r"\s+— proposed replacement.*$", "", new[0])
    start = None
    for i, l in enumerate(lines):
        if re.match(r"^### %s\b" % pid, l):
            start = i
            break
    if start is None:
        raise SystemExit("no section for " + pid)
    end = len(lines)
    for j in range(start + 1, len(lines)):
        if lines[j].startswith("### ") or lines[j].startswith("## ") or lines[j].startswith("-----"):
            end = j
            break
    lines[start:end] = new + [""]
    open(dp, "w").write("\n".join(lines))
    print(pid, "section replaced (%d -> %d lines)" % (end - start, len(new)))




def findings_table():
    import json
    k = json.load(open(os.path.join(VERIF, "known_findings.json")))
    out = ["| id | properties | what fails (open known finding; matched by exact case id" + ", and guard where given) | listed cases |",
           "|---|---|---|---|"]
    for f in k["findings"]:
        what = f["what"].replace("|", "/").replace("\n", " ")
        if len(what) > 330:
            what = what[:327] + "..."
        out.append("| `%s` | %s | %s | %d |" % (f["id"], " ".join(f["properties"]), what, len(f.get("case_ids", []))))
    out.append("")
    out.append("Repaired in `/repo` (each a `fix:` commit; the witnesses stay in the corpora as regression cases; a `fixed:` entry suppresses nothing):")
    out.append("")
    for f in k["fixed"]:
        t = f.replace("|", "/").replace("\n", " ")
        if len(t) > 420:
            t = t[:417] + "..."
        out.append("* " + t)
    return "\n".join(out) + "\n"


def refresh_findings():
    dp = os.path.join(VERIF, "DESIGN.md")
    txt = open(dp).read()
    block = "<!-- findings-begin -->\n" + findings_table() + "<!-- findings-end -->"
    if "<!-- findings-begin -->" in txt:
        txt = re.sub(r"<!-- findings-begin -->.*?<!-- findings-end -->", lambda m: block, txt, flags=re.S)
    else:
        marker = "## 8. Build history"
        txt = txt.replace(marker, "### 7.4 Current list (generated from `known_findings.json` by `python harness/design_tool.py --findings`)\n\n"
                          + block + "\n\n---------------------------------------------------------------------------\n\n" + marker, 1)
    open(dp, "w").write(txt)
    print("findings table refreshed")


if __name__ == "__main__":
    for p in sys.argv[1:]:
        if p == "--findings":
            refresh_findings()
        else:
            replace(p)
