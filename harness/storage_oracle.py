"""Storage-vs-memory oracles for C08 (reusable from the engine driver).

    compare_storage_with_memory(state, storage, tag) -> list of differences
        decodes storage.read_all(tag) and compares it, field by field, with the live (non-trash)
        entries of `state`: no stale rows, no missing rows, no shared row ids, every sync-relevant
        field equal.  Call it after a storage_commit() (entries still in state._dirtyset are skipped
        unless skip_dirty=False).
    compare_reload(state, storage, tag) -> list of differences
        loads a fresh SyncState from the storage (through a read-only proxy: nothing is deleted) and
        compares oid lookups, path lookups and the pending set with the live state.

A difference is a tuple whose first item is its kind:
    ("missing-row", storage_id, oids)            live entry without a row (or without storage_id)
    ("stale-row", row_id)                        row that no live entry owns
    ("shared-id", storage_id)                    two live entries with the same storage_id
    ("undecodable-row", row_id, exc)             row that msgpack cannot decode
    ("field", storage_id, where, name, memory_value, stored_value)
    ("row-dropped-on-load", row_id)              SyncState.__init__ would delete this row
    ("lookup-oid", side, oid, live_sid, reloaded_sid)
    ("lookup-path", side, path, live_sids, reloaded_sids)
    ("pending", only_live_sids, only_reloaded_sids)
Nothing here touches /repo; the real classes are imported from it.
"""
import msgpack

SIDE_KEYS = ("otype", "side", "hash", "changed", "sync_hash", "path", "sync_path", "oid", "exists",
             "temp_file", "size", "mtime", "_saved_exists")


def decode_row(b):
    """the stored dict, arrays as tuples; int map keys tolerated so that the row can be shown"""
    return msgpack.loads(b, use_list=False, raw=False, strict_map_key=False)


def wire(v):
    """what msgpack makes of a Python value: list -> tuple, bytearray -> bytes (recursively)"""
    if isinstance(v, (list, tuple)):
        return tuple(wire(x) for x in v)
    if isinstance(v, dict):
        return {wire(k): wire(x) for k, x in v.items()}
    if isinstance(v, bytearray):
        return bytes(v)
    return v


def same(a, b):
    """equality that distinguishes bool/int/float and str/bytes, recursively"""
    if type(a) is not type(b):
        return False
    if isinstance(a, tuple):
        return len(a) == len(b) and all(same(x, y) for x, y in zip(a, b))
    if isinstance(a, dict):
        if len(a) != len(b):
            return False
        for k, x in a.items():
            hit = [kk for kk in b if same(kk, k)]
            if not hit or not same(x, b[hit[0]]):
                return False
        return True
    return a == b


def side_memory(ent, side):
    s = ent[side]
    return dict(otype=s.otype.value if s.otype is not None else None, side=s.side, hash=s.hash, changed=s.changed,
                sync_hash=s.sync_hash, path=s.path, sync_path=s.sync_path, oid=s.oid, exists=s.exists.value,
                temp_file=s.temp_file, size=s.size, mtime=s.mtime,
                _saved_exists=None if s._saved_exists is None else s._saved_exists.value)


def all_entries(state):
    """every entry the state indexes (discarded and conflicted ones included), each once"""
    seen, out = set(), []
    for side in (0, 1):
        for ent in state._oids[side].values():
            if id(ent) not in seen:
                seen.add(id(ent))
                out.append(ent)
    return out


def live_entries(state):
    return [e for e in all_entries(state) if not e.is_trash]


def compare_storage_with_memory(state, storage, tag, skip_dirty=True, include_priority=False, exact_shapes=False):
    """-> list of differences between storage.read_all(tag) and the live non-trash entries.

    exact_shapes=False compares memory values modulo the wire (a list-valued hash equals its stored
    tuple); exact_shapes=True reports such shape changes too.  Priority is never restored by a load,
    it is compared only with include_priority=True."""
    diffs = []
    rows = storage.read_all(tag)
    dirty = set(id(e) for e in state._dirtyset) if skip_dirty else set()
    owners = {}
    for ent in live_entries(state):
        sid = ent.storage_id
        if id(ent) in dirty:
            if sid is not None:
                owners.setdefault(sid, []).append(ent)
            continue
        if sid is None or sid not in rows:
            diffs.append(("missing-row", sid, (ent[0].oid, ent[1].oid)))
            continue
        owners.setdefault(sid, []).append(ent)
        try:
            d = decode_row(rows[sid])
        except Exception as e:        # pylint: disable=broad-except
            diffs.append(("undecodable-row", sid, repr(e)))
            continue
        for side in (0, 1):
            mem = side_memory(ent, side)
            st = d.get("side%d" % side)
            if not isinstance(st, dict):
                diffs.append(("field", sid, "side%d" % side, "*", mem, st))
                continue
            for k in SIDE_KEYS:
                mv = mem[k] if exact_shapes else wire(mem[k])
                if k not in st or not same(mv, st[k]):
                    diffs.append(("field", sid, "side%d" % side, k, mem[k], st.get(k, "<absent>")))
        if d.get("ignored") != ent.ignored.value:
            diffs.append(("field", sid, "entry", "ignored", ent.ignored.value, d.get("ignored", "<absent>")))
        if include_priority and not same(d.get("priority"), ent.priority):
            diffs.append(("field", sid, "entry", "priority", ent.priority, d.get("priority", "<absent>")))
    for sid, es in owners.items():
        if len(es) > 1:
            diffs.append(("shared-id", sid))
    for rid in rows:
        if rid not in owners:
            diffs.append(("stale-row", rid))
    return diffs


class _ReadOnly:
    """read-only view of a storage: a load through it deletes nothing, the deletions are recorded"""

    def __init__(self, storage):
        self._s = storage
        self.deleted = []

    def read_all(self, tag=None):
        return self._s.read_all(tag) if tag is not None else self._s.read_all()

    def read(self, tag, eid):
        return self._s.read(tag, eid)

    def delete(self, tag, eid):
        self.deleted.append(eid)

    def create(self, tag, serialization):
        raise RuntimeError("read-only storage view")

    def update(self, tag, serialization, eid):
        raise RuntimeError("read-only storage view")


def load_fresh(state, storage, tag):
    """a new SyncState over a read-only view of the storage -> (fresh_state, dropped_row_ids)"""
    ro = _ReadOnly(storage)
    fresh = type(state)(state.providers, ro, tag)
    return fresh, list(ro.deleted)


def _hashable(k):
    try:
        hash(k)
        return True
    except TypeError:
        return False


def compare_reload(state, storage, tag, none_key=False):
    """-> differences between the live state and a state reloaded from storage: oid lookups, path
    lookups (stale ones included), pending set.  Entries are identified by storage_id.
    The reloaded state additionally indexes sides WITHOUT oid: the last loaded such entry under the
    oid key None, and under its path with the inner key None (the live state never indexes a side
    without oid); those index entries are compared only with none_key=True."""
    diffs = []
    fresh, dropped = load_fresh(state, storage, tag)
    for rid in dropped:
        diffs.append(("row-dropped-on-load", rid))
    for side in (0, 1):
        lo = {k: v for k, v in state._oids[side].items() if k is not None or none_key}
        fo = {k: v for k, v in fresh._oids[side].items() if k is not None or none_key}
        for k in list(lo) + [k for k in fo if k not in lo]:
            a = lo[k].storage_id if k in lo else "<absent>"
            b = fo[k].storage_id if k in fo else "<absent>"
            if k in lo and lo[k].is_trash and k not in fo:
                continue
            if a != b:
                diffs.append(("lookup-oid", side, k, a, b))
        lp = {p for p in state._paths[side] if p}
        fp = {p for p in fresh._paths[side] if p}
        for p in sorted(lp | fp, key=repr):
            a = sorted((e.storage_id for e in state.lookup_path(side, p, stale=True)
                        if not e.is_trash and (none_key or e[side].oid is not None)), key=repr)
            b = sorted((e.storage_id for e in fresh.lookup_path(side, p, stale=True)
                        if none_key or e[side].oid is not None), key=repr)
            if a != b:
                diffs.append(("lookup-path", side, p, a, b))
    la = {e.storage_id for e in state._changeset if not e.is_trash}
    # the loader makes an entry pending when `changed` is set on any side, the live state only when
    # that side also has an oid; entries pending through oid-less sides only belong to the same family
    fa = {e.storage_id for e in fresh._changeset
          if none_key or any(e[s].changed and e[s].oid is not None for s in (0, 1))}
    if not none_key:
        la = {e.storage_id for e in state._changeset
              if not e.is_trash and any(e[s].changed and e[s].oid is not None for s in (0, 1))}
    if la != fa:
        diffs.append(("pending", sorted(la - fa, key=repr), sorted(fa - la, key=repr)))
    return diffs
