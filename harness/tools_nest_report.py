"""Build-time tool (never run by a check): breakdown of the listed known findings of the enumerated Stream B scope
(streamb_gen2 / streamb_gen3, families sb_nest* / sb_reuse*) by property, guard, history length, id style of the acting side, flavour, schedule
and history (--nest / --reuse: only the families of generator 2 / 3).  Runs no engine: it recomputes the case id of every enumerated case and looks it up in the auto entries of
known_findings.json.  Usage: python -m harness.tools_nest_report [C01 C03 C04] [--histories]"""
import collections
import json
import sys

from . import framework as fw
from . import streamb
from . import streamb_gen2 as G2
from . import streamb_gen3 as G3

FAMS = {"sb_nest": (G2, G2.case, G2.BLOCKS_ALL, G2.N_ALL), "sb_nest_one": (G2, G2.one, G2.BLOCKS_ONE, G2.N_ONE),
        "sb_nest_two": (G2, G2.two, G2.BLOCKS_TWO, G2.N_TWO),
        "sb_reuse": (G3, G3.case, G3.BLOCKS_ALL, G3.N_ALL), "sb_reuse_one": (G3, G3.one, G3.BLOCKS_ONE, G3.N_ONE),
        "sb_reuse_two": (G3, G3.two, G3.BLOCKS_TWO, G3.N_TWO)}


def main():
    args = [a for a in sys.argv[1:] if not a.startswith("--")]
    show_hist = "--histories" in sys.argv
    only = "sb_reuse" if "--reuse" in sys.argv else ("sb_nest" if "--nest" in sys.argv else None)
    props = args or ["C01", "C03", "C04"]
    data = json.load(open(fw.KNOWN))
    for prop in props:
        for fam, nq, nt in streamb.PLAN[prop]["families"]:
            if fam not in FAMS:
                continue
            G, gen, blocks, n_all = FAMS[fam]
            if only and not fam.startswith(only):
                continue
            ids = {}
            for k in data["findings"]:
                if k.get("auto") and k["id"].startswith("%s-SB-%s-" % (prop, fam)):
                    guard = k["id"].split("-")[-1]
                    for cid in k["case_ids"]:
                        ids[cid] = guard
            tot = collections.Counter()
            by_style = collections.Counter()
            by_flav = collections.Counter()
            by_sched = collections.Counter()
            by_hist = collections.Counter()
            n_by_style = collections.Counter()
            found = 0
            for i in range(nt):
                variant, hist, h, fl, side, s = G.coords(i, blocks)
                fk = G.FLAVOUR_KEYS[fl]
                style = "path-style" if fk[0][side] else "id-style"
                n_by_style[(variant, len(hist), style)] += 1
                cid = streamb.case_key(prop, gen(i))      # as in streamb.run: the generator's case, keyed with the property
                if cid not in ids:
                    continue
                found += 1
                g = ids[cid]
                names = ",".join((G.A_NAMES if a == "A" else G.H_NAMES)[j] for a, j in hist)
                tot[(g, "quick" if i < nq else "thorough-only")] += 1
                by_style[(variant, len(hist), style, g)] += 1
                by_flav[("oip=%s cs=%s" % (fk[0], fk[1]), "side=%d" % side, style, g)] += 1
                by_sched[((G.SCHEDULES[s] if hasattr(G, "SCHEDULES") else G.schedule_names(len(hist))[s]), g)] += 1
                by_hist[(variant, names, style, g)] += 1
            print("== %s %s (%s): %d cases enumerated, %d listed ids, %d matched" % (prop, fam, G.VERSION, nt, len(ids), found))
            for k, v in sorted(tot.items()):
                print("   guard/tier  ", k, v)
            for k, v in sorted(by_style.items()):
                print("   variant/len/acting-style/guard", k, v, "of", n_by_style[k[:3]])
            for k, v in sorted(by_flav.items()):
                print("   flavour     ", k, v)
            for k, v in sorted(by_sched.items()):
                print("   schedule    ", k, v)
            print("   distinct failing (variant, history, acting style, guard):", len(by_hist))
            if show_hist:
                for k, v in sorted(by_hist.items()):
                    print("   history     ", k, v)


if __name__ == "__main__":
    main()
