"""./check ALGO — the algorithm layer (stepwise tie AlgoModel.v vs the real engine); see c01_algo.py"""
from .c01_algo import run, algo_stream  # noqa: F401
