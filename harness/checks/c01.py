"""C01 — two-way convergence in a bounded number of steps."""
from ._engine import engine_check


def run(ctx):
    return engine_check(ctx, "PropC01", [("one_sided", 1200, 40000), ("disjoint", 1200, 40000), ("conflicts", 1200, 40000), ("edit_vs_delete", 1000, 20000),
                         ("tree_delete_vs_child_change", 800, 20000)],
                        "run rejected by the monitor (C01: views differ at quiet, or no quiet state within the step bound)",
                        stream_b="C01", algo=True)
