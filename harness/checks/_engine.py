"""Shared body of the engine-level checks: Coq gate + exploration of case families judged by the
extracted Coq monitor + Stream B (deterministic set with listed known findings)."""
import json
import os
import time

from .. import explore as X
from .. import enginecheck as EC
from .. import framework as fw

TRUSTED = [
    "Coq 8.16.1 kernel (coqc); no native_compute; vm_compute only inside Examples",
    "extraction: ExtrOcamlBasic only (Extract Inductive bool/option/unit/prod/list/sumbool/sumor); OCaml 4.13.1; coq/ocaml/driver.ml",
    "the observation harness (harness/engine.py, enginecheck.py): in-process wrappers around the provider and storage "
    "instances, virtual clock, serial object ids and SyncEntry hashes, in-process replacement of the logging helper debug_sig",
    "MockProvider as the file tree both users and engine act on (tied to TreeModel.apply_op after every user operation: guard TIE)",
    "modelled, not verified: the engine's algorithm itself (cloudsync/sync/manager.py, state.py, event.py) — theorems are about the "
    "acceptor and the tree specification; every explored real run must be accepted; unexplored runs are not covered",
]


def engine_check(ctx, prop_file, families, what, relevant=None, stream_b=None, runner_name=None, extra_cov=None,
                 entry_predicates=False, algo=False):
    """families: list of (family function name, n_quick, n_thorough)."""
    if ctx.replay:
        return replay_case(ctx, runner_name, what)
    g = ctx.coq_gate(prop_file)
    cov = ctx.coverage
    tot_runs = 0
    distinct = 0
    streams = {}
    samples = []
    if g is not None:
        default_runner = runner_name
        for entry in families:
            fam, nq, nt = entry[:3]
            runner_name = entry[3] if len(entry) > 3 else default_runner      # a family may bring its own runner
            n = nq if ctx.quick else nt
            t0 = time.time()
            st, fails = X.explore(ctx, fam, n, runner=runner_name)
            tie = [f for f in fails if f[1][1] == 1]
            other = [f for f in fails if f[1][1] != 1]
            streams[fam] = dict(runs=st["runs"], user_ops=st["user_ops"], engine_provider_calls=st["engine_calls"],
                                observations=st["obs"], drain_rounds=st["rounds"], op_kinds=st["opkinds"],
                                flavours=st["flavours"], rejected=len(fails), wall_s=round(time.time() - t0, 1))
            tot_runs += st["runs"]
            distinct += st["distinct"]
            samples += st["samples"][:2]
            if tie:
                # the tree model no longer describes what MockProvider does for a user operation
                case, verdict, descr, tail = tie[0]
                ctx.violation("TreeModel.apply_op and MockProvider disagree on a user operation: " + descr,
                              dict(kind="correspondence", family=fam, case=case, trace_tail=tail), no_input=True,
                              theorem="correspondence TreeModel.apply_op vs MockProvider (guard TIE)")
            runner = getattr(__import__("harness.families", fromlist=["x"]), runner_name) if runner_name else None
            X.report_failures(ctx, other, runner=runner, what=what, relevant=relevant)
        if stream_b:
            from .. import streamb
            streamb.run(ctx, stream_b, streams, what)
    cov["evaluations"] = tot_runs
    cov["distinct_nontrivial"] = distinct
    cov["traces_validated_against_impl"] = tot_runs
    cov["rule"] = ("seeded histories of user operations interleaved with engine steps in the claimed-clean domain (DESIGN §4.3), each "
                   "executed on the real engine over two MockProviders; the observed trace (user ops, engine-issued provider "
                   "mutations, step and quiet markers, both full trees after each) is judged by the extracted Coq acceptor; "
                   "a run is non-trivial when it has >= 1 user operation and >= 1 engine-issued provider mutation; distinct = "
                   "distinct (flavour, base, schedule)")
    cov["streams"] = streams
    cov["samples"] = samples[:4]
    if algo and g is not None:
        # algorithm layer (DESIGN 3.3): PropAlgo.v is re-checked by the kernel and the stepwise tie of AlgoModel (the
        # engine's own closed loop on fragment F1..F3) against the real engine runs as one more stream
        from .. import build
        from . import c01_algo
        ga = build.prop_gate("PropAlgo")
        cov["algo_theorems"] = ga["theorems"]
        ok_a = [t for t in ga["theorems"] if ga["assumptions"].get(t) == []]
        if not ga["ok"] or len(ok_a) != len(ga["theorems"]):
            ctx.violation("algorithm-layer theorems no longer check: " + (ga.get("error") or "assumptions")[:300],
                          dict(kind="proof", file="PropAlgo.v", error=ga.get("error")), no_input=True, theorem="PropAlgo.v")
        else:
            cov["obligations"] = cov.get("obligations", 0) + len(ga["theorems"])
            cov["discharged"] = cov.get("discharged", 0) + len(ok_a)
            cov["theorems"] = list(cov.get("theorems", [])) + ga["theorems"]
        c01_algo.algo_stream(ctx, streams, plan=c01_algo.PLAN_LIGHT)
        cov["streams"] = streams
    if entry_predicates and g is not None:
        # second tie for the decision predicates the engine's algorithm rests on (needs_sync, is_creation, hash_conflict,
        # ...): regenerated from the current source, proved equal to the hand model, laws re-checked, truth table vs the
        # real SideState / SyncEntry (harness/entrypred.py, PropEntryPred.v)
        from .. import entrypred
        entrypred.entrypred_gate(ctx)
    if extra_cov:
        cov.update(extra_cov)
    tb = list(TRUSTED) + ["axioms per theorem as printed by Print Assumptions: " +
                          (", ".join(cov.get("axioms_used", [])) or "none (closed under the global context)")]
    return ctx.finish(tb)


def replay_case(ctx, runner_name, what):
    """./check Cxx --replay <file>: re-run the engine case stored in a replay file on the current tree and have the
    monitor judge it again (exit 1 + VIOLATION when it is still rejected)."""
    from .. import engine as E
    from .. import families as F
    data = json.load(open(ctx.replay))
    c = data.get("case", {})
    case = c.get("case") if isinstance(c.get("case"), dict) else c
    if not isinstance(case, dict) or "schedule" not in case:
        print("replay file has no engine case (kind=%r): nothing to re-run" % c.get("kind"))
        return ctx.finish(["(replay)"])
    runner = (getattr(F, runner_name, None) if runner_name else None) or getattr(F, c.get("runner") or "", None) or EC.run_case
    E.install()
    mon = fw.ModelProc("monitor")
    res = runner(EC.unjson_case(case), mon)
    mon.close()
    print("replay: " + EC.describe(res))
    for e in res.events[-15:]:
        print("   ", repr(e)[:200])
    ctx.coverage["evaluations"] = 1
    if res.verdict != []:
        ctx.violation("%s [replay]: %s" % (what, EC.describe(res)), dict(kind="engine-run", replay_of=os.path.basename(ctx.replay), case=case))
    return ctx.finish(["(replay of %s)" % os.path.basename(ctx.replay)])
