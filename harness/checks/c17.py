"""C17 — scheduling laws.  Theorems: coq/theories/PropC17.v about SchedModel.v.

Tie: the extracted model (coq/bin/sched) against the real cloudsync.sync.state.SyncState /
SyncEntry / SideState / SyncManager.finished under a virtual clock patched into
cloudsync.sync.state.time:
  (i)  tables: 1-12 entries built in a REAL SyncState (created through state.update, then the
       underscore fields _changed/_priority written directly so that arbitrary exact values are
       reached, and the change set chosen directly); state.change(age) vs the model's pick, with
       the real iteration order list(state._changeset) handed to the model;
  (ii) operation sequences through the public setters (update / mark_changed / punt / priority
       assignment incl. the prioritize callback / SyncManager.finished / set_aged / set_force_sync
       / raw `changed` assignment / oid set+clear / change): full scheduling state compared after
       every operation, exact Fractions (the model rounds like a double: fl53);
  (iii) the laws of the property evaluated directly on the real picks (search for a failing input);
  (iv) second tie: harness/c17_translator.py regenerates coq/theories/GenSched.v (gen_eligible,
       gen_sort_key) from the CURRENT source of SyncState.change; SchedGenEq.v proves them equal to the
       model; an AST outside the whitelist is a VIOLATION ... no-failing-input-found;
  (v)  corpus first: boundary table; age_zero_same_tick.json, the regression case of the defect fixed in
       /repo 5c0d808 (a revert is reported as a VIOLATION with that replay); the witnesses of the open known
       finding C17-last-notification-either-side, one of them replayed end to end on the real engine
       (CloudSync over two MockProviders, virtual clock in state/manager/mock/event).
change() is compared and judged with the threshold the code computes since 5c0d808 + ed9e461 (now - age on the
clock; raised to _last_changed_time when age <= 0); the table stream sets _last_changed_time directly (below,
at and above the clock reading) and uses ages > 0, = 0 and < 0.
All values are compared as exact rationals; no float is ever compared or printed into a case id."""
import glob
import json
import os
import time as _time
import types
from fractions import Fraction as F

from .. import build, c17_translator, envfix, framework as fw

CORPUS = os.path.join(fw.VERIF, "corpus", "C17")


# ------------------------------------------------------------------ virtual clock / hash control
class Clock:
    def __init__(self):
        self.t = 1.0

    def time(self):
        return self.t

    def __getattr__(self, k):
        return getattr(_time, k)


CLOCK = Clock()
HASHES = {}          # id(entry) -> hash, drawn from the case's PRNG at first use
HASH_SRC = [None]


def _ent_hash(self):
    h = HASHES.get(id(self))
    if h is None:
        h = HASH_SRC[0]() if HASH_SRC[0] else len(HASHES)
        HASHES[id(self)] = h
    return h


_env = {}


def setup():
    if _env:
        return _env
    envfix.install()
    import cloudsync.sync.state as S
    from cloudsync.sync.manager import SyncManager
    from cloudsync.providers.mock import MockProvider
    from cloudsync.types import FILE
    S.time = CLOCK
    S.SyncEntry.__hash__ = _ent_hash
    _env.update(S=S, SyncManager=SyncManager, MockProvider=MockProvider, FILE=FILE)
    return _env


def new_state(punt_l, punt_r, last0, hash_rng):
    """a real SyncState over two MockProviders; _punt_secs = default_sleep / 10 as the code computes it"""
    env = setup()
    HASHES.clear()
    HASH_SRC[0] = (lambda: hash_rng.randrange(0, 64)) if hash_rng else None
    pa = env["MockProvider"](False, True)
    pb = env["MockProvider"](False, True)
    pa.default_sleep = float(punt_l) * 10.0
    pb.default_sleep = float(punt_r) * 10.0
    CLOCK.t = float(last0)
    st = env["S"].SyncState((pa, pb))
    assert F(st._punt_secs[0]) == F(punt_l) and F(st._punt_secs[1]) == F(punt_r), st._punt_secs
    return st


# ------------------------------------------------------------------ exact values on the wire
LIMB = 1 << 32


def big_sx(n):
    out = []
    while n:
        out.append(n % LIMB)
        n //= LIMB
    return out


def sx_big(l):
    n = 0
    for d in reversed(l):
        n = n * LIMB + d
    return n


def q_sx(x):
    f = F(x)
    return [1 if f < 0 else 0, big_sx(abs(f.numerator)), big_sx(f.denominator)]


def stamp_sx(v):
    if v is None or v is False:
        return []
    return [q_sx(v)]


def sx_q(t):
    s, n, d = t
    n, d = sx_big(n), sx_big(d)
    return F(-n if s else n, d)


def q_js(x):
    """JSON-able exact value"""
    f = F(x)
    return [f.numerator, f.denominator]


def js_q(t):
    return F(t[0], t[1])


def js_val(t):
    """JSON value -> the Python value to write into the real state (None / False / int / float)"""
    if t is None or t is False:
        return t
    if len(t) == 3:
        return int(t[0])
    return float(js_q(t))


def val_js(v):
    if v is None or v is False:
        return v
    if isinstance(v, int):
        return [v, 1, "int"]
    return q_js(v)


def truthy(v):
    return bool(v)


# ------------------------------------------------------------------ the laws, on real values
def real_et(now, age, last):
    """what the code computes (/repo 5c0d808 + ed9e461): now - age, raised to _last_changed_time when age <= 0"""
    et = float(now) - float(age)
    if float(age) <= 0:
        et = max(et, float(last))
    return F(et)


def key_of(pri, chl, chr_):
    return (F(pri), max(F(chl or 0), F(chr_ or 0)))


def eligible_py(et, pri, chl, chr_):
    return bool((chl and F(chl) <= et) or (chr_ and F(chr_) <= et) or F(pri) < 0)


def laws_on_pick(rows, pick, now, age, last):
    """rows: [(pri, chL, chR)] in iteration order of the real change set; pick: index into rows or None.
    -> list of violated law names (mirrors PropC17: picked_is_eligible, picked_is_min, stable_on_ties,
    not_before_aged, none_means_nothing_eligible, age_zero (partial form))."""
    et = real_et(now, age, last)
    bad = []
    el = [eligible_py(et, *r) for r in rows]
    keys = [key_of(*r) for r in rows]
    if pick is None:
        if any(el):
            bad.append("none_but_eligible")
    else:
        if not el[pick]:
            bad.append("picked_is_eligible")
        for j, r in enumerate(rows):
            if el[j] and keys[j] < keys[pick]:
                bad.append("picked_is_min")
                break
        for j in range(pick):
            if el[j] and keys[j] == keys[pick]:
                bad.append("stable_on_ties")
                break
        pri, chl, chr_ = rows[pick]
        if F(pri) >= 0 and not ((chl and F(chl) <= et) or (chr_ and F(chr_) <= et)):
            bad.append("not_before_aged")
    if F(age) <= 0 and rows:
        # C17_age_zero_eligible / C17_age_zero_change_some: a truthy stamp <= last change stamp (or <= now - age)
        en = max(F(last), F(float(now) - float(age)))
        due = [bool((r[1] and F(r[1]) <= en) or (r[2] and F(r[2]) <= en)) for r in rows]
        if any(d and not e for d, e in zip(due, el)) or (any(due) and pick is None):
            bad.append("age_zero_eligible")
    return bad


# ------------------------------------------------------------------ stream (i): tables
PRI_POOL = [0, 0, 0, 0, 0, 1, 1, 2, 3, 5, -1, -1, -2, 0.1, -0.1, 0.5, 1.1, 2.5, -0.5, 10]


def gen_table(rng):
    n = rng.choice([1, 1, 2, 2, 3, 3, 4, 5, 6, 8, 10, 12])
    base = rng.choice([0.0, 1.0, 100.0, 1000.5, 1700000000.0, 4096.25])
    age = rng.choice([0, 0, 0.002, 0.25, 1, 1, 5, 5, 0.01, 30, rng.randrange(0, 64) / 8.0, -1, -0.25])
    now = base + rng.choice([0, 1, 5, 5.25, 10, 0.002, rng.randrange(0, 200) / 16.0])
    et = now - age

    def stamp():
        r = rng.random()
        if r < 0.12:
            return rng.choice([None, None, False, 0, 0.0])
        if r < 0.16:
            return 1                                   # set_aged
        if r < 0.40:
            return et + rng.choice([0, 0, 0.001, -0.001, 0.25, -0.25, 1, -1])     # around the boundary
        if r < 0.43:
            return -rng.randrange(1, 50) / 4.0
        return base + rng.randrange(-40, 160) / 8.0 + rng.choice([0, 0, 0.001, 0.002])

    rows = []
    shared = [stamp(), stamp()]
    mode = rng.random()
    pool = PRI_POOL if mode < 0.35 else [p for p in PRI_POOL if p >= 0]
    tie_heavy = mode > 0.8                            # few distinct keys: ties decided by iteration order
    if tie_heavy:
        pool = [0, 0, 1]
        shared = [et - 1, et, et - 1]
    for _ in range(n):
        pri = rng.choice(pool)
        a, b = stamp(), stamp()
        if rng.random() < 0.35 or tie_heavy:
            b = None if rng.random() < 0.7 else 0
        if rng.random() < 0.25 or (tie_heavy and rng.random() < 0.8):
            a = rng.choice(shared)
        if rng.random() < 0.1:
            a, b = b, a
        rows.append([val_js(pri), val_js(a), val_js(b)])
    members = [1 if rng.random() < 0.9 else 0 for _ in range(n)]
    hashes = [rng.randrange(0, 64) for _ in range(n)]
    r = rng.random()
    if r < 0.5:
        last = min(now, base)                        # no stamp ahead of the clock
    elif r < 0.75:
        last = now + rng.choice([0.001, 0.002, 0.25, 1, 5, age, age + 0.001])      # stamps ahead of the clock
    else:
        last = et + rng.choice([0, 0.001, -0.001, 1])
    return dict(kind="table", now=q_js(now), last=q_js(last), age=q_js(age), rows=rows, members=members, hashes=hashes)


def build_table(case):
    """-> (state, entries) with the fields written into a real SyncState"""
    env = setup()
    st = new_state(0.25, 0.25, 1.0, None)
    ents = []
    CLOCK.t = 1.0
    hs = list(case["hashes"])
    HASH_SRC[0] = lambda: hs[len(HASHES)] if len(HASHES) < len(hs) else 0
    for i, (pri, a, b) in enumerate(case["rows"]):
        st.update(i % 2, env["FILE"], "o%d" % i, path="/f%d" % i, hash=b"h", exists=True)
        e = st.lookup_oid(i % 2, "o%d" % i)
        ents.append(e)
    st._changeset_storage = set()
    for e, (pri, a, b), m in zip(ents, case["rows"], case["members"]):
        e._priority = js_val(pri)
        e[0]._changed = js_val(a)
        e[1]._changed = js_val(b)
        if m:
            st._changeset_storage.add(e)
    st._last_changed_time = float(js_q(case.get("last", [1, 1])))
    return st, ents


def canon_stamp(v):
    if v is None or v is False:
        return None
    return F(v)


def run_table_impl(case):
    """-> (order, pick_pos, rows_in_order, pure) on the real code"""
    st, ents = build_table(case)
    idx = {id(e): i for i, e in enumerate(ents)}
    order = [idx[id(e)] for e in st._changeset]
    before = [(F(e._priority), canon_stamp(e[0]._changed), canon_stamp(e[1]._changed)) for e in ents]
    CLOCK.t = float(js_q(case["now"]))
    got = st.change(float(js_q(case["age"])))
    after = [(F(e._priority), canon_stamp(e[0]._changed), canon_stamp(e[1]._changed)) for e in ents]
    order_after = [idx[id(e)] for e in st._changeset]
    pick = None if got is None else order.index(idx[id(got)])
    rows = [(ents[i]._priority, ents[i][0]._changed, ents[i][1]._changed) for i in order]
    return order, pick, rows, (before == after and order == order_after)


def table_request(case, order):
    rows = case["rows"]
    return [0, [q_sx(js_q(case["now"])), q_sx(js_q(case.get("last", [1, 1])))], q_sx(js_q(case["age"])),
            [[q_sx(js_q(rows[i][0])), stamp_sx(None if rows[i][1] in (None, False) else js_q(rows[i][1])),
              stamp_sx(None if rows[i][2] in (None, False) else js_q(rows[i][2]))] for i in order]]


# ------------------------------------------------------------------ stream (ii): operation sequences
GRID = 1024


def grid(rng, lo, hi):
    return rng.randrange(int(lo * GRID), int(hi * GRID) + 1) / GRID


class Real:
    """drives the real objects; every method returns nothing and may raise"""

    def __init__(self, case):
        env = setup()
        self.env = env
        import random
        self.st = new_state(js_q(case["punt"][0]), js_q(case["punt"][1]), js_q(case["last0"]),
                            random.Random(case["hash_seed"]))
        self.ents = []
        self.cb_value = None
        self.cb_keep = None
        self.st.prioritize = self._prioritize
        self.fake_mgr = types.SimpleNamespace(state=self.st, clean_temps=env["SyncManager"].clean_temps)

    def _prioritize(self, side, path):
        if self.cb_value is not None:
            return self.cb_value
        return self.cb_keep.priority if self.cb_keep is not None else 0

    def apply(self, op):
        """op: JSON list.  -> pick (serial or None) for 'change', else None"""
        k = op[0]
        st = self.st
        if k == "create":                 # ["create", side, path, pri, clock]
            _, side, path, pri, clock = op
            CLOCK.t = float(js_q(clock))
            self.cb_value = js_val(pri)
            self.cb_keep = None
            oid = "o%d_%d" % (len(self.ents), side)
            try:
                st.update(side, self.env["FILE"], oid, path=path, hash=b"h", exists=True)
            finally:
                self.cb_value = None
            e = st.lookup_oid(side, oid)
            assert e is not None and all(e is not x for x in self.ents)
            self.ents.append(e)
            return None
        e = self.ents[op[1]] if k != "change" else None
        if k == "attach":                 # ["attach", i, side, path, pri|None]
            _, i, side, path, pri = op[:5]
            self.cb_keep = e
            self.cb_value = None if pri is None else js_val(pri)
            try:
                e[side].oid = "x%d_%d_%d" % (i, side, op[5])
                if path is not None:
                    e[side].path = path
            finally:
                self.cb_value = None
        elif k == "repath":               # ["repath", i, side, path, pri]
            _, i, side, path, pri = op
            self.cb_keep = e
            self.cb_value = js_val(pri)
            try:
                e[side].path = path
            finally:
                self.cb_value = None
        elif k == "mark":                 # ["mark", i, side, clock]
            CLOCK.t = float(js_q(op[3]))
            e[op[2]].mark_changed()
        elif k == "punt":
            e.punt()
        elif k == "setpri":               # ["setpri", i, v]
            e.priority = js_val(op[2])
        elif k == "finished":             # ["finished", i, side]
            self.env["SyncManager"].finished(self.fake_mgr, op[2], e)
        elif k == "aged":
            e[op[2]].set_aged()
        elif k == "force":                # ["force", i, side, clock]
            CLOCK.t = float(js_q(op[3]))
            e[op[2]].set_force_sync()
        elif k == "raw":                  # ["raw", i, side, value]
            e[op[2]].changed = js_val(op[3])
        elif k == "clearoid":
            e[op[2]].oid = None
        elif k == "discard":
            from cloudsync.types import IgnoreReason
            e.ignored = IgnoreReason.DISCARDED
        elif k == "change":               # ["change", now, age]
            CLOCK.t = float(js_q(op[1]))
            got = st.change(float(js_q(op[2])))
            if got is None:
                return None
            for i, x in enumerate(self.ents):
                if x is got:
                    return i
            raise AssertionError("change() returned an unknown entry")
        else:
            raise AssertionError("unknown op " + str(k))
        return None

    def order(self):
        idx = {id(e): i for i, e in enumerate(self.ents)}
        return [idx[id(e)] for e in self.st._changeset]

    def rel_mask(self, i):
        e = self.ents[i]
        return [1 if e.is_related_to(x) else 0 for x in self.ents]

    def snapshot(self):
        inset = set(id(e) for e in self.st._changeset)
        return [q_sx(self.st._last_changed_time),
                [[q_sx(e._priority), stamp_sx(e[0]._changed), stamp_sx(e[1]._changed), 1 if id(e) in inset else 0]
                 for e in self.ents]]


def model_ops(op, real, pre_order=None, pre_rel=None):
    """the model operations one harness operation stands for"""
    k = op[0]
    if k == "create":
        _, side, path, pri, clock = op
        i = len(real.ents) - 1           # already created on the real side
        return [[0], [8, i, side], [3, i, q_sx(js_q(pri))], [1, i, side, q_sx(js_q(clock))]]
    if k == "attach":
        _, i, side, path, pri = op[:5]
        out = [[8, i, side]]
        if path is not None and pri is not None:
            out.append([3, i, q_sx(js_q(pri))])
        return out
    if k == "repath":
        return [[3, op[1], q_sx(js_q(op[4]))]]
    if k == "mark":
        return [[1, op[1], op[2], q_sx(js_q(op[3]))]]
    if k == "punt":
        return [[2, op[1]]]
    if k == "setpri":
        return [[3, op[1], q_sx(js_q(op[2]))]]
    if k == "finished":
        return [[4, op[1], op[2], pre_rel]]
    if k == "aged":
        return [[5, op[1], op[2]]]
    if k == "force":
        return [[6, op[1], op[2], q_sx(js_q(op[3]))]]
    if k == "raw":
        v = op[3]
        return [[7, op[1], op[2], stamp_sx(None if v in (None, False) else js_q(v))]]
    if k == "clearoid":
        return [[10, op[1], op[2]]]
    if k == "discard":
        return [[11, op[1]]]
    if k == "change":
        return [[9, q_sx(js_q(op[1])), q_sx(js_q(op[2])), pre_order]]
    raise AssertionError(k)


def gen_sequence(rng):
    """-> case (ops are generated while executing them on the real side so that they stay applicable)"""
    punt = [rng.choice([0.25, 0.5, 1, 0.125, 2, 0.0009765625]), rng.choice([0.25, 0.5, 1, 3, 0.0009765625])]
    last0 = grid(rng, 1, 50)
    case = dict(kind="seq", punt=[q_js(punt[0]), q_js(punt[1])], last0=q_js(last0), hash_seed=rng.randrange(1 << 30),
                ops=[])
    real = Real(case)
    clock = last0
    nops = rng.choice([4, 8, 12, 20, 30, 40])
    nmax = rng.choice([1, 2, 3, 4, 6, 8, 12])
    serial = [0]
    hazard = rng.random() < 0.2          # allow states that can make the `changed` setter recurse
    trace = []                            # (op, model_ops, impl_result) filled by exec_sequence

    def tick():
        nonlocal clock
        r = rng.random()
        if r < 0.55:
            clock += grid(rng, 0, 3)
        elif r < 0.75:
            pass                                   # the clock did not advance
        elif r < 0.85:
            clock = max(0.0, clock - grid(rng, 0, 2))     # the clock went backwards
        else:
            clock += grid(rng, 3, 40)
        return clock

    def fresh_path(parent=None):
        serial[0] += 1
        if parent is not None:
            return parent + "/n%d" % serial[0]
        return "/p%d" % serial[0]

    def some_path_of(e):
        for s in (0, 1):
            if e[s].path:
                return e[s].path
        return None

    def pick_pri():
        return rng.choice(PRI_POOL)

    ops = []
    for _ in range(nops):
        n = len(real.ents)
        kinds = []
        if n < nmax:
            kinds += ["create"] * (6 if n < 2 else 2)
        if n:
            kinds += ["mark"] * 5 + ["punt"] * 4 + ["change"] * 6 + ["finished"] * 4 + ["setpri"] * 2 + \
                     ["attach"] * 2 + ["repath"] + ["aged"] + ["force"] + ["raw"] * 2 + ["discard"]
            if hazard:
                kinds += ["clearoid"] * 4
        k = rng.choice(kinds)
        i = rng.randrange(n) if n else 0
        if k == "create":
            parent = None
            if n and rng.random() < 0.6:
                parent = some_path_of(real.ents[rng.randrange(n)])
            op = ["create", rng.randrange(2), fresh_path(parent), val_js(pick_pri() if rng.random() < 0.4 else 0),
                  q_js(max(tick(), 1 / GRID))]
        elif k == "attach":
            e = real.ents[i]
            sides = [s for s in (0, 1) if not e[s].oid]
            if not sides:
                continue
            s = rng.choice(sides)
            serial[0] += 1
            if e[s].path:
                op = ["attach", i, s, None, None, serial[0]]
            else:
                parent = some_path_of(real.ents[rng.randrange(n)]) if rng.random() < 0.5 else None
                op = ["attach", i, s, fresh_path(parent), val_js(pick_pri()) if rng.random() < 0.3 else None, serial[0]]
        elif k == "repath":
            e = real.ents[i]
            sides = [s for s in (0, 1) if e[s].oid]
            if not sides:
                continue
            parent = some_path_of(real.ents[rng.randrange(n)]) if rng.random() < 0.5 else None
            op = ["repath", i, rng.choice(sides), fresh_path(parent), val_js(pick_pri())]
        elif k == "mark":
            e = real.ents[i]
            sides = [s for s in (0, 1) if e[s].oid] or ([0, 1] if hazard else [])
            if rng.random() < 0.1 and hazard:
                sides = [0, 1]
            if not sides:
                continue
            op = ["mark", i, rng.choice(sides), q_js(tick())]
        elif k == "punt":
            op = ["punt", i]
        elif k == "setpri":
            op = ["setpri", i, val_js(pick_pri())]
        elif k == "finished":
            e = real.ents[i]
            sides = [s for s in (0, 1) if e[s].changed] or [0, 1]
            op = ["finished", i, rng.choice(sides)]
        elif k == "aged":
            e = real.ents[i]
            sides = [s for s in (0, 1) if e[s].oid] or ([0, 1] if hazard else [])
            if not sides:
                continue
            op = ["aged", i, rng.choice(sides)]
        elif k == "force":
            e = real.ents[i]
            sides = [s for s in (0, 1) if e[s].oid] or ([0, 1] if hazard else [])
            if not sides:
                continue
            op = ["force", i, rng.choice(sides), q_js(tick())]
        elif k == "raw":
            e = real.ents[i]
            sides = [s for s in (0, 1) if e[s].oid] or ([0, 1] if hazard else [])
            if not sides:
                continue
            v = rng.choice([None, 0, 0, False, 1, grid(rng, 0, 60), clock, -grid(rng, 0, 4)])
            op = ["raw", i, rng.choice(sides), val_js(v)]
        elif k == "discard":
            if real.ents[i].is_discarded:
                continue
            op = ["discard", i]
        elif k == "clearoid":
            e = real.ents[i]
            sides = [s for s in (0, 1) if e[s].oid]
            if not sides:
                continue
            op = ["clearoid", i, rng.choice(sides)]
        else:
            age = rng.choice([0, 0, 0.25, 1, 1, 2, 5, 0.0009765625, grid(rng, 0, 8), -0.5])
            op = ["change", q_js(tick()), q_js(age)]
        ops.append(op)
        stop = exec_one(real, op, trace)
        if stop:
            break
    case["ops"] = ops
    return case, trace


def exec_one(real, op, trace):
    """run one harness op on the real side; append (op, model_ops, impl_result); -> True when the run must stop"""
    pre_order = real.order() if op[0] == "change" else None
    pre_rel = real.rel_mask(op[1]) if op[0] == "finished" else None
    pre_rows = None
    if op[0] == "change":
        pre_rows = [(real.ents[i]._priority, real.ents[i][0]._changed, real.ents[i][1]._changed) for i in pre_order]
    pre_last = F(real.st._last_changed_time)
    pre_ent = None
    if op[0] == "punt":
        e = real.ents[op[1]]
        pre_ent = (e._priority, e[0]._changed, e[1]._changed, bool(e[0].oid), bool(e[1].oid))
    try:
        pick = real.apply(op)
        status = 0
    except RecursionError:
        pick, status = None, 1
    mops = model_ops(op, real, pre_order, pre_rel)
    res = dict(status=status, pick=pick, snap=real.snapshot() if status == 0 else None,
               pre_order=pre_order, pre_rows=pre_rows, pre_ent=pre_ent, pre_last=pre_last)
    trace.append((op, mops, res))
    return status != 0


def replay_sequence(case):
    real = Real(case)
    trace = []
    for op in case["ops"]:
        if exec_one(real, op, trace):
            break
    return trace


def seq_request(case, trace):
    flat = []
    for (_, mops, _) in trace:
        flat += mops
    return [1, [q_sx(js_q(case["punt"][0])), q_sx(js_q(case["punt"][1])), q_sx(js_q(case["last0"]))], flat]


def compare_sequence(trace, mout):
    """-> None or (op index, description)"""
    pos = 0
    for n, (op, mops, res) in enumerate(trace):
        outs = mout[pos:pos + len(mops)]
        pos += len(mops)
        if res["status"] == 1:                      # no state of the model raises since /repo ccb41ee
            return n, "impl RecursionError, model %r" % (outs[-1:] or "nothing")
        if len(outs) < len(mops) or outs[-1][0] != 0:
            return n, "model status %r, impl ok" % (outs[-1] if outs else None)
        last = outs[-1]
        if op[0] == "change":
            mp = last[1][0] if last[1] else None       # (pick) wrapper
            mp = mp[0] if mp else None
            if mp != res["pick"]:
                return n, "pick: model %r impl %r" % (mp, res["pick"])
        if last[2] != res["snap"]:
            return n, "state after op: model %r impl %r" % (last[2], res["snap"])
    return None


def laws_on_trace(case, trace):
    """history-level laws on the real run -> list of (law, op index)"""
    bad = []
    pl, pr = js_q(case["punt"][0]), js_q(case["punt"][1])
    nt = {}                     # (entry, side) -> clock of the notification the stamp derives from | None (hatch/raw)
    marks = []
    for n, (op, mops, res) in enumerate(trace):
        if res["status"] != 0:
            break
        k = op[0]
        snap = res["snap"]
        if k == "create":
            i = len(snap[1]) - 1
            nt[(i, op[1])] = js_q(op[4])
            st = snap[1][i][1 + op[1]]
            marks.append(sx_q(st[0]) if st else None)
        elif k == "mark":
            nt[(op[1], op[2])] = js_q(op[3])
            st = snap[1][op[1]][1 + op[2]]
            marks.append(sx_q(st[0]) if st else None)
            if st and sx_q(st[0]) < js_q(op[3]):
                bad.append(("stamp_not_before_notification", n))
        elif k == "force":
            nt[(op[1], op[2])] = js_q(op[3])
        elif k in ("aged", "raw"):
            nt[(op[1], op[2])] = None
        elif k == "punt" and res["pre_ent"] is not None:
            pri0, a0, b0, oa, ob = res["pre_ent"]
            e = snap[1][op[1]]
            if F(pri0) >= 0 and (not a0 or oa) and (not b0 or ob):
                if sx_q(e[0]) != F(float(pri0) + 1):
                    bad.append(("punt_priority_plus_one", n))
                for s, v0, p in ((0, a0, pl), (1, b0, pr)):
                    if v0 and F(float(v0) + float(p)) != 0:
                        if not e[1 + s] or sx_q(e[1 + s][0]) != F(float(v0) + float(p)):
                            bad.append(("punt_shifts_stamp", n))
                        elif sx_q(e[1 + s][0]) < F(v0):
                            bad.append(("punt_never_earlier", n))
        elif k == "change":
            rows = res["pre_rows"]
            order = res["pre_order"]
            pick = None if res["pick"] is None else order.index(res["pick"])
            for law in laws_on_pick(rows, pick, js_q(op[1]), js_q(op[2]), res["pre_last"]):
                bad.append((law, n))
            if pick is not None and F(rows[pick][0]) >= 0:
                et = real_et(js_q(op[1]), js_q(op[2]), res["pre_last"])
                ok = False
                for s in (0, 1):
                    v = rows[pick][1 + s]
                    if v and F(v) <= et:
                        t = nt.get((res["pick"], s), None)
                        if t is None or t <= et:
                            ok = True
                if not ok:
                    bad.append(("not_before_aged_history", n))
    seen = [m for m in marks if m is not None]
    for a, b in zip(seen, seen[1:]):
        if not a < b:
            bad.append(("change_times_strictly_increase", -1))
            break
    return bad


# ------------------------------------------------------------------ rounding tie
def check_fl53(ctx, model, rng, n):
    reqs, exp = [], []
    for _ in range(n):
        r = rng.random()
        if r < 0.3:
            q = F(rng.randrange(-10 ** 6, 10 ** 6), rng.randrange(1, 10 ** 4))
        elif r < 0.6:
            q = F(rng.random() * 10 ** rng.randrange(-8, 12)) + F(0.001)
        elif r < 0.8:
            q = F(rng.randrange(1, 1 << 60), 1 << rng.randrange(0, 70)) + F(rng.randrange(0, 3), 1 << 80)
        else:
            m = rng.randrange(1 << 52, 1 << 53)
            q = F(2 * m + 1, 2) * F(2) ** rng.randrange(-60, 40)            # exact ties
        reqs.append([2, q_sx(q)])
        exp.append(q_sx(F(float(q))))
    outs = model.batch(reqs)
    badn = 0
    for rq, o, e in zip(reqs, outs, exp):
        if o != e:
            badn += 1
            ctx.violation("model rounding fl53 differs from CPython float(): %s -> model %s, float %s" % (rq, o, e),
                          dict(kind="fl53", request=rq, model=o, impl=e), no_input=True,
                          theorem="correspondence: SchedModel.fl53 vs IEEE double rounding")
            break
    return len(reqs), badn


# ------------------------------------------------------------------ end-to-end replay (corpus only)
def run_engine_case(case):
    """Deterministic replay of one scripted scenario on the real engine (CloudSync over two MockProviders) under
    the virtual clock.  Monitor: an engine step that changes a provider tree at virtual time t must satisfy
    t >= (time of the last user change) + aging.  -> list of (law, step index)"""
    import io
    env = setup()
    import cloudsync.sync.manager as M
    import cloudsync.providers.mock as MK
    import cloudsync.event as EV
    from cloudsync import CloudSync

    class EClock(Clock):
        def sleep(self, x):
            pass

    clk = EClock()
    saved = [(m, m.time) for m in (env["S"], M, MK, EV)]
    for m, _ in saved:
        m.time = clk
    HASHES.clear()
    HASH_SRC[0] = None
    bad = []
    try:
        provs = (env["MockProvider"](False, True), env["MockProvider"](False, True))
        for p in provs:
            p.connect({"key": "x"})
        roots = ("/local", "/remote")
        cs = CloudSync(provs, roots=roots, storage=None, sleep=None)
        provs[0].mkdir(roots[0])
        provs[1].mkdir(roots[1])

        def tree():
            out = []
            for sd, p in enumerate(provs):
                for info in sorted(p.walk(roots[sd]), key=lambda i: i.path):
                    data = None
                    if info.otype == env["FILE"]:
                        b = io.BytesIO()
                        p.download(info.oid, b)
                        data = b.getvalue()
                    out.append((sd, info.path, data))
            return out

        last_user = None
        for n, op in enumerate(case["script"]):
            k = op[0]
            if k == "clock":
                clk.t = float(js_q(op[1]))
            elif k == "aging":
                cs.aging = float(js_q(op[1]))
            elif k == "create":
                provs[op[1]].create(op[2], io.BytesIO(op[3].encode()))
                last_user = clk.t
            elif k == "rename":
                provs[op[1]].rename(provs[op[1]].info_path(op[2]).oid, op[3])
                last_user = clk.t
            elif k == "upload":
                provs[op[1]].upload(provs[op[1]].info_path(op[2]).oid, io.BytesIO(op[3].encode()))
                last_user = clk.t
            elif k == "intake":
                cs.emgrs[0].do()
                cs.emgrs[1].do()
            elif k == "drain":                      # settle with the clock advancing; not monitored
                for _ in range(op[1]):
                    clk.t += 1.0
                    cs.emgrs[0].do()
                    cs.emgrs[1].do()
                    cs.smgr.do()
                last_user = None
            elif k == "sync":
                before = tree()
                cs.smgr.do()
                if tree() != before and last_user is not None and F(clk.t) < F(last_user) + F(cs.aging):
                    bad.append(("engine_write_before_aged", n))
            else:
                raise AssertionError(k)
        cs.smgr.done()
    finally:
        for m, t in saved:
            m.time = t
        setup()["S"].time = CLOCK
    return bad


# ------------------------------------------------------------------ corpus
def load_corpus():
    out = []
    for p in sorted(glob.glob(os.path.join(CORPUS, "*.json"))):
        with open(p) as f:
            out.append((os.path.basename(p), json.load(f)))
    return out


def run_case(ctx, model, case, dist, stats, mismatches, label):
    """one table or sequence: correspondence + laws.  -> None"""
    if case["kind"] == "engine":
        stats["engine_replays"] = stats.get("engine_replays", 0) + 1
        for law, n in run_engine_case(case):
            ctx.violation("law %s fails on the real engine at script step %d" % (law, n), dict(case, law=law))
        return
    if case["kind"] == "table":
        order, pick, rows, pure = run_table_impl(case)
        out = model.call(table_request(case, order))
        mp = out[0][0] if out[0] else None
        mp2 = out[1][0] if out[1] else None
        stats["tables"] += 1
        if mp != pick or mp2 != pick:
            mismatches.append((label, case, "pick: model %r / %r impl %r" % (mp, mp2, pick)))
        if not pure:
            mismatches.append((label, case, "change() modified the scheduling fields"))
        for law in laws_on_pick(rows, pick, js_q(case["now"]), js_q(case["age"]), js_q(case.get("last", [1, 1]))) + case_laws(case, rows, pick):
            ctx.violation("law %s fails on the real SyncState.change" % law, dict(case, law=law))
        return
    trace = replay_sequence(case)
    mout = model.call(seq_request(case, trace))
    stats["sequences"] += 1
    d = compare_sequence(trace, mout)
    if d is not None:
        mismatches.append((label, case, "op %d %s: %s" % (d[0], case["ops"][d[0]][0], d[1])))
    for law, n in laws_on_trace(case, trace) + case_laws_seq(case, trace):
        ctx.violation("law %s fails on the real code at op %d" % (law, n), dict(case, law=law))


def case_laws(case, rows, pick):
    """full-strength laws a corpus case asks for explicitly (case['expect_full'])"""
    bad = []
    for law in case.get("expect_full", []):
        if law == "age_zero_every_pending_change_eligible":
            lst = js_q(case.get("last", [1, 1]))
            et = real_et(js_q(case["now"]), js_q(case["age"]), lst)
            en = max(F(lst), F(js_q(case["now"])))
            due = [r for r in rows if (truthy(r[1]) and F(r[1]) <= en) or (truthy(r[2]) and F(r[2]) <= en)]
            if F(js_q(case["age"])) == 0 and due and (pick is None or any(not eligible_py(et, *r) for r in due)):
                bad.append(law)
    return bad


def case_laws_seq(case, trace):
    bad = []
    for law in case.get("expect_full", []):
        if law == "age_zero_every_pending_change_eligible":
            for n, (op, mops, res) in enumerate(trace):
                if op[0] == "change" and res["status"] == 0 and js_q(op[2]) == 0:
                    # every pending change whose stamp is not ahead of max(clock, last change stamp) -- i.e. every
                    # stamp written by mark_changed and not punted since -- is eligible, and change(0) picks something
                    et = real_et(js_q(op[1]), 0, res["pre_last"])
                    en = max(F(res["pre_last"]), F(js_q(op[1])))
                    due = [r for r in res["pre_rows"]
                           if (truthy(r[1]) and F(r[1]) <= en) or (truthy(r[2]) and F(r[2]) <= en)]
                    if due and (res["pick"] is None or any(not eligible_py(et, *r) for r in due)):
                        bad.append((law, n))
        if law == "not_before_last_notification":
            for n, (op, mops, res) in enumerate(trace):
                if op[0] == "change" and res["status"] == 0 and res["pick"] is not None:
                    et = real_et(js_q(op[1]), js_q(op[2]), res["pre_last"])
                    r = res["pre_rows"][res["pre_order"].index(res["pick"])]
                    if F(r[0]) >= 0 and any(truthy(v) and F(v) > et for v in r[1:]):
                        bad.append((law, n))
        if law == "change_times_strictly_increase":
            marks = []
            for n, (op, mops, res) in enumerate(trace):
                if op[0] in ("create", "mark") and res["status"] == 0:
                    i = len(res["snap"][1]) - 1 if op[0] == "create" else op[1]
                    s = op[1] if op[0] == "create" else op[2]
                    v = res["snap"][1][i][1 + s]
                    marks.append(sx_q(v[0]) if v else None)
            if any(a is not None and b is not None and not a < b for a, b in zip(marks, marks[1:])):
                bad.append((law, -1))
    return bad


# ------------------------------------------------------------------ entry point
def run(ctx):
    setup()
    # second tie (DESIGN 2.4): regenerate GenSched.v from the current source of SyncState.change
    gen = dict(ok=False, regenerated=False)
    try:
        txt = c17_translator.translate_current()
        gen["ok"] = True
        path = os.path.join(build.THEORIES, "GenSched.v")
        old = open(path).read() if os.path.exists(path) else None
        if old != txt:
            with open(path, "w") as f:
                f.write(txt)
            gen["regenerated"] = True
    except c17_translator.TranslateError as e:
        ctx.violation("translator rejects the current source of SyncState.change: %s" % e,
                      dict(kind="translator", function="cloudsync.sync.state.SyncState.change", error=str(e)),
                      no_input=True, theorem="translator: SyncState.change -> GenSched.v (gen_eligible, gen_sort_key)")
    g = ctx.coq_gate("PropC17")
    dist = fw.Distinct()
    stats = dict(tables=0, sequences=0, corpus=0, seq_ops=0, picks_some=0, picks_none=0, ties_decided_by_order=0,
                 negative_priority_picks=0, recursion_errors=0, table_sizes={}, op_kinds={}, fl53_checked=0,
                 eligible_fraction_num=0, eligible_fraction_den=0, age_zero_tables=0)
    samples = []
    mismatches = []
    model = None
    try:
        # when the gate failed (e.g. a generated definition no longer equals the model) the streams still
        # run against the last built model: they are the search for a concrete failing input
        model = fw.ModelProc("sched")
    except Exception:
        model = None
    stats["translator"] = gen
    if model is not None:
        quick = ctx.quick
        NT = 5000 if quick else 100000
        NS = 1000 if quick else 25000
        n, _ = check_fl53(ctx, model, ctx.sub_rng("fl53"), 2000 if quick else 20000)
        stats["fl53_checked"] = n
        # ---- corpus first
        for name, case in load_corpus():
            stats["corpus"] += 1
            run_case(ctx, model, {k: v for k, v in case.items() if not k.startswith("_")}, dist, stats, mismatches,
                     "corpus/" + name)
        if ctx.replay:
            with open(ctx.replay) as f:
                rp = json.load(f)
            if isinstance(rp.get("case"), dict) and rp["case"].get("kind") in ("table", "seq", "engine"):
                c = {k: v for k, v in rp["case"].items() if k not in ("law",)}
                run_case(ctx, model, c, dist, stats, mismatches, "replay")
        # ---- stream (i): tables
        rng = ctx.sub_rng("tables")
        B = 500
        done = 0
        while done < NT:
            cases, impl, reqs = [], [], []
            for _ in range(min(B, NT - done)):
                case = gen_table(rng)
                order, pick, rows, pure = run_table_impl(case)
                cases.append(case)
                impl.append((order, pick, rows, pure))
                reqs.append(table_request(case, order))
            outs = model.batch(reqs)
            for case, (order, pick, rows, pure), out in zip(cases, impl, outs):
                mp = out[0][0] if out[0] else None
                mp2 = out[1][0] if out[1] else None
                stats["tables"] += 1
                sz = str(len(case["rows"]))
                stats["table_sizes"][sz] = stats["table_sizes"].get(sz, 0) + 1
                if mp != pick or mp2 != pick:
                    mismatches.append(("tables", case, "pick: model %r / %r impl %r" % (mp, mp2, pick)))
                if not pure:
                    mismatches.append(("tables", case, "change() modified the scheduling fields"))
                now, age, lst = js_q(case["now"]), js_q(case["age"]), js_q(case["last"])
                et = real_et(now, age, lst)
                el = [eligible_py(et, *r) for r in rows]
                stats["eligible_fraction_num"] += sum(el)
                stats["eligible_fraction_den"] += len(el)
                if age == 0:
                    stats["age_zero_tables"] += 1
                if pick is None:
                    stats["picks_none"] += 1
                else:
                    stats["picks_some"] += 1
                    if F(rows[pick][0]) < 0:
                        stats["negative_priority_picks"] += 1
                    kp = key_of(*rows[pick])
                    if sum(1 for j, r in enumerate(rows) if el[j] and key_of(*r) == kp) > 1:
                        stats["ties_decided_by_order"] += 1
                dist.add(("t", case["now"], case["last"], case["age"], case["rows"], order), nontrivial=len(rows) >= 2 and any(el))
                if lst > now:
                    stats["last_stamp_ahead_of_clock"] = stats.get("last_stamp_ahead_of_clock", 0) + 1
                for law in laws_on_pick(rows, pick, now, age, lst):
                    ctx.violation("law %s fails on the real SyncState.change" % law, dict(case, law=law))
                if len(samples) < 3 and pick is not None and len(rows) >= 3:
                    samples.append(dict(kind="table", now=str(now), age=str(age),
                                        rows_in_set_order=[[str(F(r[0])), str(r[1]), str(r[2])] for r in rows],
                                        picked_position=pick))
            done += len(cases)
        # ---- stream (ii): operation sequences
        rng = ctx.sub_rng("sequences")
        done = 0
        B = 200
        while done < NS:
            batch = []
            for _ in range(min(B, NS - done)):
                case, trace = gen_sequence(rng)
                batch.append((case, trace))
            outs = model.batch([seq_request(c, t) for c, t in batch])
            for (case, trace), mout in zip(batch, outs):
                stats["sequences"] += 1
                stats["seq_ops"] += len(trace)
                for (op, mops, res) in trace:
                    stats["op_kinds"][op[0]] = stats["op_kinds"].get(op[0], 0) + 1
                    if res["status"] == 1:
                        stats["recursion_errors"] += 1
                    if op[0] == "change" and res["status"] == 0:
                        if res["pre_last"] > js_q(op[1]):
                            stats["last_stamp_ahead_of_clock"] = stats.get("last_stamp_ahead_of_clock", 0) + 1
                        if res["pick"] is None:
                            stats["picks_none"] += 1
                        else:
                            stats["picks_some"] += 1
                d = compare_sequence(trace, mout)
                if d is not None:
                    mismatches.append(("sequences", case, "op %d %s: %s" % (d[0], case["ops"][d[0]][0], d[1])))
                for law, n in laws_on_trace(case, trace):
                    ctx.violation("law %s fails on the real code at op %d" % (law, n), dict(case, law=law))
                dist.add(("s", case["punt"], case["last0"], case["ops"]),
                         nontrivial=any(o[0] == "change" for o in case["ops"]) and len(case["ops"]) >= 4)
                if len(samples) < 5 and len(case["ops"]) >= 6:
                    samples.append(dict(kind="seq", ops=[" ".join(str(x) for x in o) for o in case["ops"][:8]]))
            done += len(batch)
        model.close()
        stats["model_calls"] = model.calls
        for (label, case, what) in mismatches[:5]:
            ctx.violation("model and implementation differ (%s): %s; no law of the property fails on the explored inputs"
                          % (label, what), dict(case, mismatch=what),
                          no_input=not any(v for v in ctx.violations if not v[2]),
                          theorem="correspondence SchedModel.run vs cloudsync.sync.state (SyncState.change / setters)")
        stats["mismatches"] = len(mismatches)
    cov = ctx.coverage
    cov["evaluations"] = dist.total
    cov["distinct_nontrivial"] = dist.nontrivial
    cov["rule"] = ("a table is non-trivial when it has >= 2 entries of which at least one is eligible; an operation "
                   "sequence when it has >= 4 operations including a change(); distinct = distinct canonical cases")
    cov["exhaustive"] = False
    cov["samples"] = samples
    cov["streams"] = stats
    cov["traces_validated_against_impl"] = stats.get("tables", 0) + stats.get("sequences", 0)
    tb = ["Coq 8.16.1 kernel (coqc); vm_compute only for the _refuted witnesses and non-vacuity examples; no native_compute",
          "axioms per theorem as printed by Print Assumptions: " + (", ".join(cov.get("axioms_used", [])) or "none (closed under the global context)"),
          "float arithmetic: theorems hold for every rounding function with the stated properties (ideal arithmetic satisfies them); "
          "that IEEE double rounding satisfies them for clock values below 2^43 s is not proved (fl53 = CPython float() is checked by sampling)",
          "Python set iteration order is an input of the model (taken from list(state._changeset)); theorems hold for every order",
          "is_related_to (path relation used by SyncState.finished) is an input of the model (taken from the real method)",
          "extraction: ExtrOcamlBasic only; OCaml 4.13.1; coq/ocaml/driver.ml",
          "translator harness/c17_translator.py (typed whitelist over the ast of SyncState.change; tuple comparison and "
          "`x and y` / `x or 0` truthiness semantics are built into it)",
          "correspondence harness harness/checks/c17.py: generators, virtual clock patched into cloudsync.sync.state.time, "
          "SyncEntry.__hash__ replaced by seeded hashes, harness.envfix (debug_sig replacement)",
          "not modelled: path fill-in (get_latest) inside change(), shuffle=True (random sort key), storage, threads"]
    return ctx.finish(tb)
