"""ALGO — the algorithm layer of C01/C03: stepwise tie between the real engine and AlgoModel.v.

Every generated history (harness/families_algo.py) is executed action by action on the REAL engine
(harness/engine.py: CloudSync over two MockProviders, virtual clock, serial ids) and on the extracted model
(coq/bin/algo); after EVERY action the abstraction of the real state must equal the model state:
  per entry and side: otype, oid (first-seen index), path, hash, sync_path, sync_hash, exists, changed stamp,
  force flag, _last_gotten, temp file present; ignore reason; priority; the change set; the clock of the
  last change; both providers object by object (path, id, kind, content, exists), event log length and
  cursor; the provider mutations the engine issued in that step (call, arguments, outcome, addressed paths).
An OutOfFragment answer of the model is counted (must be 0 on the in-fragment generators).  A difference is
shrunk to a minimal schedule and written as a replay.

    ./check ALGO --tier quick          (this module through harness/checks/algo.py)
    algo_stream(ctx, streams)          (for checks/c01.py, c03.py: runs the tie, fills streams["algo_*"])
"""
import hashlib
import json
import multiprocessing as mp
import os
import random
import time

from .. import engine as E
from .. import framework as fw
from .. import families_algo as FA

OT = {"dir": 0, "file": 1, "trashed": 2}
EX = {"unknown": 0, "exists": 1, "trashed": 2, "missing": 3, "likely-trashed": 4}
IGN = {"none": 0, "discarded": 1, "conflict": 2, "temp rename": 3, "irrelevant": 4}
ROOTS = ("/local", "/remote")
FLAVOUR = E.Flavour(oip=(False, False), cs=(True, True), filt=False, root_by="path", roots=ROOTS)

_REG = {"ents": None, "patched": False}


def _instrument():
    """in-process only: a registry of every SyncEntry made (creation order = model entry index)"""
    E.install()
    if _REG["patched"]:
        return
    import cloudsync.sync.state as st
    orig = st.SyncEntry.__init__

    def init(self, *a, **k):
        orig(self, *a, **k)
        if _REG["ents"] is not None:
            _REG["ents"].append(self)
    st.SyncEntry.__init__ = init
    _REG["patched"] = True


def S(s):
    return [ord(c) for c in s]


def comps(path):
    return [S(c) for c in path.split("/") if c]


def units(t):
    """virtual-clock value -> 1/1000"""
    return int(round(t * 1000))


class Tokens:
    def __init__(self):
        self.by_content = {}
        self.by_hash = {}

    def content(self, b):
        b = bytes(b)
        if b not in self.by_content:
            self.by_content[b] = len(self.by_content) + 1
            self.by_hash[hashlib.md5(b).digest()] = self.by_content[b]
        return self.by_content[b]

    def hash(self, h):
        if h is None:
            return None
        return self.by_hash.get(bytes(h), 999000 + (int.from_bytes(bytes(h)[:2], "big")))


class Real:
    """one real engine over a fresh pair of providers, driven action by action"""

    def __init__(self, hash_mult=1):
        _instrument()
        E.install(hash_mult)
        E.reset_serials()
        self.old_tick = E.CLOCK.tick
        E.CLOCK.tick = 1.0
        _REG["ents"] = []
        self.tok = Tokens()
        self.world = E.World(FLAVOUR)
        self.eng = E.Engine(self.world)
        self.st = self.eng.cs.state
        self.ents = _REG["ents"]
        self.loop_errors = 0

    def close(self):
        E.CLOCK.tick = self.old_tick
        _REG["ents"] = None
        try:
            self.eng.stop()
        except Exception:
            pass

    # ---- quiescence without side effects (CloudSync.busy queues events)
    def quiet(self):
        if self.st._changeset_storage:
            return False
        for sd in (0, 1):
            p = self.world.provs[sd]
            if p._cursor < p._latest_cursor or self.eng.cs.emgrs[sd]._queue:
                return False
        return True

    def settle(self, bound=40):
        for _ in range(bound):
            if self.quiet():
                return True
            self.eng.intake(0)
            self.eng.intake(1)
            self.eng.sync()
        return self.quiet()

    # ---- abstraction
    def objects(self, sd):
        seen = {}
        for o in self.world.provs[sd]._mock_fs._objects.values():
            seen[id(o)] = o
        return sorted(seen.values(), key=lambda o: int(o.oid[1:]))

    def oid_index(self, sd):
        return {o.oid: i for i, o in enumerate(self.objects(sd))}

    def abstract(self):
        oi = [self.oid_index(0), self.oid_index(1)]
        ents = []
        for e in self.ents:
            sides = []
            for sd in (0, 1):
                x = e[sd]
                ch = x._changed
                chg = [0] if ch is None else ([1] if ch is False else [2, units(ch)])
                oid = None if x._oid is None else oi[sd].get(x._oid, "?" + str(x._oid))
                tf = x._temp_file
                sides.append(dict(otype=OT[x._otype.value], oid=oid, path=x._path, hash=self.tok.hash(x._hash),
                                  spath=x._sync_path, shash=self.tok.hash(x._sync_hash), ex=EX[x._exists.value],
                                  chg=chg, force=bool(x._force_sync), lg=units(x._last_gotten),
                                  tfile=bool(tf and os.path.exists(tf))))
            ents.append(dict(sides=sides, ign=IGN[e._ignored.value], prio=units(e._priority) // 100))
        cset = sorted(self.ents.index(e) for e in self.st._changeset_storage)
        provs = []
        for sd in (0, 1):
            p = self.world.provs[sd]
            objs = []
            for o in self.objects(sd):
                objs.append([o.path, oi[sd][o.oid], 1 if o.type == o.DIR else 0,
                             0 if o.type == o.DIR else self.tok.content(o.contents or b""), bool(o.exists)])
            provs.append(dict(objs=objs, cursor=p._cursor + 1, log=len(p._events)))
        return dict(ents=ents, cset=cset, lastch=units(self.st._last_changed_time), provs=provs)

    def calls(self):
        out = []
        for rec in self.eng.trace:
            sd = rec["side"]
            oi = self.oid_index(sd)
            a = rec["args"]
            k = rec["call"]
            if k == "create":
                op = [0, comps(a[0]), self.tok.content(a[1])]
            elif k == "upload":
                op = [1, oi.get(a[0], a[0]), self.tok.content(a[1])]
            elif k == "delete":
                op = [2, oi.get(a[0], a[0])]
            elif k == "rename":
                op = [3, oi.get(a[0], a[0]), comps(a[1])]
            else:
                op = [4, comps(a[0])]
            out.append([sd, op, "error" not in rec, [comps(t) for t in rec.get("targets", [])]])
        self.eng.trace.clear()
        return out

    # ---- actions: each returns the model action (with the clock reading / set order of the real run)
    def user(self, side, op):
        k = op[0]
        root = ROOTS[side]
        w = self.world
        if k == "create":
            r = w.user(side, ["create", root + op[1], op[2]])
            return [0, side, [0, comps(op[1]), self.tok.content(op[2])]], r
        if k == "write":
            r = w.user(side, ["write", root + op[1], op[2]])
            return [0, side, [1, comps(op[1]), self.tok.content(op[2])]], r
        if k == "delete":
            r = w.user(side, ["delete", root + op[1]])
            return [0, side, [2, comps(op[1])]], r
        if k == "rename":
            r = w.user(side, ["rename", root + op[1], root + op[2]])
            return [0, side, [3, comps(op[1]), comps(op[2])]], r
        if k == "mkdir":
            r = w.user(side, ["mkdir", root + op[1]])
            return [0, side, [4, comps(op[1])]], r
        raise ValueError(k)

    def intake(self, side):
        clk = units(E.CLOCK.t)
        r = self.eng.intake(side)
        if r != "ok":
            self.loop_errors += 1
        return [1, side, clk], r

    def sync(self):
        clk = units(E.CLOCK.t)
        order = [self.ents.index(e) for e in self.st._changeset_storage]
        r = self.eng.sync()
        if r != "ok":
            self.loop_errors += 1
        return [2, order, clk], r


# ------------------------------------------------------------------ model side
def wire_cfg(level):
    return [comps(ROOTS[0]), comps(ROOTS[1]), 0, 0, 1, 1, 0, level]


def un_str(x):
    return "".join(chr(c) for c in x)


def un_opt(x, f=lambda v: v):
    return None if x == [] else f(x[0])


def un_side(x):
    otype, oid, path, h, spath, shash, ex, chg, force = x
    return dict(otype=otype, oid=un_opt(oid, lambda s: s[0] if len(s) == 1 else ["str"] + s), path=un_opt(path, un_str),
                hash=un_opt(h), spath=un_opt(spath, un_str), shash=un_opt(shash), ex=ex, chg=chg, force=bool(force))


def un_world(x):
    """model world (sx) -> the same shape as Real.abstract() + calls"""
    if x[0] == 1:
        return dict(oof=x[1])
    _, ents, xs, cset, clk, pl, pr, calls, _idx = x
    out = []
    for en, xx in zip(ents, xs):
        sides = []
        for sd in (0, 1):
            s = un_side(en[sd])
            s["lg"] = xx[sd][0]
            s["tfile"] = bool(xx[sd][1])
            sides.append(s)
        out.append(dict(sides=sides, ign=en[2], prio=en[3]))
    provs = []
    for p in (pl, pr):
        objs = []
        for path, key, kind, data, ex in p[0]:
            objs.append(["/" + "/".join(un_str(c) for c in path) if path else "/",
                         key[1] if key[0] == 0 else ["path", key[1]], kind, 0 if kind == 1 else data, bool(ex)])
        provs.append(dict(objs=objs, cursor=p[1], log=p[2]))
    cl = []
    for sd, op, ok, tg in calls:
        k = op[0]
        if k in (1, 2, 3):
            op = [k, op[1][1]] + op[2:]
        cl.append([sd, op, bool(ok), tg])
    return dict(ents=out, cset=cset, lastch=clk[1], now=clk[0], provs=provs, calls=cl)


def diff(real, model, real_calls, exact_stamps=True):
    """first difference between the abstraction of the real state and the model state, or None"""
    if "oof" in model:
        return "model: OutOfFragment %d" % model["oof"]
    if len(real["ents"]) != len(model["ents"]):
        return "number of entries: real %d model %d" % (len(real["ents"]), len(model["ents"]))
    for i, (a, b) in enumerate(zip(real["ents"], model["ents"])):
        for sd in (0, 1):
            x, y = a["sides"][sd], b["sides"][sd]
            for f in ("otype", "oid", "path", "hash", "spath", "shash", "ex", "force", "lg", "tfile"):
                if x[f] != y[f]:
                    return "entry %d side %d %s: real %r model %r" % (i, sd, f, x[f], y[f])
            cx, cy = x["chg"], y["chg"]
            if exact_stamps:
                if cx != cy:
                    return "entry %d side %d changed: real %r model %r" % (i, sd, cx, cy)
            elif (cx[0] == 2 and cx[1] != 0) != (cy[0] == 2 and cy[1] != 0):
                return "entry %d side %d changed!=0: real %r model %r" % (i, sd, cx, cy)
        if a["ign"] != b["ign"]:
            return "entry %d ignore reason: real %r model %r" % (i, a["ign"], b["ign"])
        if a["prio"] != b["prio"]:
            return "entry %d priority: real %r model %r" % (i, a["prio"], b["prio"])
    if real["cset"] != model["cset"]:
        return "change set: real %r model %r" % (real["cset"], model["cset"])
    if real["lastch"] != model["lastch"]:
        return "last change stamp: real %r model %r" % (real["lastch"], model["lastch"])
    for sd in (0, 1):
        a, b = real["provs"][sd], model["provs"][sd]
        if a["objs"] != b["objs"]:
            for i, (x, y) in enumerate(zip(a["objs"], b["objs"])):
                if x != y:
                    return "provider %d object %d: real %r model %r" % (sd, i, x, y)
            return "provider %d: number of objects real %d model %d" % (sd, len(a["objs"]), len(b["objs"]))
        if a["cursor"] != b["cursor"] or a["log"] != b["log"]:
            return "provider %d events: real cursor %d of %d, model %d of %d" % (sd, a["cursor"], a["log"], b["cursor"], b["log"])
    if real_calls != model["calls"]:
        return "engine-issued provider calls: real %r model %r" % (real_calls, model["calls"])
    return None


class CaseResult:
    def __init__(self):
        self.diff = None          # (action index, readable action, description) of the first difference
        self.oof = None
        self.actions = 0
        self.calls = 0
        self.rounds = 0
        self.loop_errors = 0
        self.in_frag = None
        self.stuck = False
        self.final_equal = None
        self.states = 0
        self.inv_fail = None      # (action index, readable action, failing clause) of the executable invariant
        self.inv_states = 0
        self.quiet_states = 0
        self.quiet_unequal = None


def run_case(case, model, exact_stamps=True, extra_rounds=2):
    """executes the case on the real engine, then the recorded actions on the model; compares every state"""
    res = CaseResult()
    R = Real(case.get("hash_mult", 1))
    try:
        if not R.settle():
            res.diff = (-1, "start", "the real engine does not settle on the empty roots")
            return res
        R.eng.trace.clear()
        init = R.abstract()
        t0 = init["lastch"]
        lg0 = init["ents"][0]["sides"][0]["lg"]
        acts, readable, snaps = [], [], []

        def record(ma, rd):
            acts.append(ma)
            readable.append(rd)
            snaps.append((R.abstract(), R.calls()))

        def rounds(n):
            for _ in range(n):
                for sd in (0, 1):
                    ma, r = R.intake(sd)
                    record(ma, ["intake", sd, r])
                ma, r = R.sync()
                record(ma, ["sync", r])

        for a in list(case["schedule"]) + [["drain"]]:
            k = a[0]
            if k == "user":
                ma, r = R.user(a[1], a[2])
                record(ma, ["user", a[1], a[2][0], a[2][1], r])
            elif k == "intake":
                ma, r = R.intake(a[1])
                record(ma, ["intake", a[1], r])
            elif k == "sync":
                ma, r = R.sync()
                record(ma, ["sync", r])
            elif k == "drain":
                n = 0
                while not R.quiet() and n < 60:
                    rounds(1)
                    n += 1
                res.rounds += n
                if not R.quiet():
                    res.stuck = True
                    break
            else:
                raise ValueError(k)
        if not res.stuck:
            rounds(extra_rounds)
        res.loop_errors = R.loop_errors
        res.final_equal = R.world.view(0) == R.world.view(1)
        res.actions = len(acts)
        res.calls = sum(len(c) for _, c in snaps)
        out = model.call([0, wire_cfg(case["level"]), t0, lg0, acts])
        res.in_frag = bool(model.call([1, wire_cfg(case["level"]), acts]))
        if True:
            # the coupling invariant of AlgoInv.v (fragment F1), evaluated by the extracted model on every world of the run
            # (equal to the real states by the comparison below); and, on every level, "quiescent => equal trees"
            inv = model.call([2, wire_cfg(case["level"]), t0, lg0, acts])
            for i, v in enumerate(inv):
                if v[0] == 999:
                    break
                if case["level"] == 1:
                    res.inv_states += 1
                    if v[0] != 0 and res.inv_fail is None:
                        res.inv_fail = (i - 1, readable[i - 1] if i else "initial state", v[0])
                if v[1]:
                    res.quiet_states += 1
                    if not v[2] and res.quiet_unequal is None:
                        res.quiet_unequal = (i - 1, readable[i - 1] if i else "initial state")
        m0 = un_world(out[0])
        d = diff(init, m0, [], exact_stamps)
        if d:
            res.diff = (-1, "initial state", d)
            return res
        for i, (real, calls) in enumerate(snaps):
            if i + 1 >= len(out):
                res.diff = (i, readable[i], "model produced no state")
                break
            m = un_world(out[i + 1])
            res.states += 1
            if "oof" in m:
                res.oof = (i, readable[i], m["oof"])
                res.diff = (i, readable[i], "model: OutOfFragment %d" % m["oof"])
                break
            d = diff(real, m, calls, exact_stamps)
            if d:
                res.diff = (i, readable[i], d)
                break
        return res
    finally:
        R.close()


# ------------------------------------------------------------------ exploration
_W = {}


def jsonable(case):
    def conv(x):
        if isinstance(x, (bytes, bytearray)):
            return {"b": bytes(x).decode("latin1")}
        if isinstance(x, (list, tuple)):
            return [conv(y) for y in x]
        if isinstance(x, dict):
            return {k: conv(v) for k, v in x.items()}
        return x
    return conv(case)


def unjson(x):
    if isinstance(x, dict) and set(x.keys()) == {"b"}:
        return x["b"].encode("latin1")
    if isinstance(x, list):
        return [unjson(y) for y in x]
    if isinstance(x, dict):
        return {k: unjson(v) for k, v in x.items()}
    return x


def _chunk(args):
    fam, seed, start, count = args
    if _W.get("pid") != os.getpid():       # never share the pipe of a model process inherited through fork
        _W["model"] = fw.ModelProc("algo")
        _W["pid"] = os.getpid()
    gen = getattr(FA, fam)
    st = dict(runs=0, actions=0, states=0, user_ops=0, engine_calls=0, rounds=0, oof=0, not_in_fragment=0, stuck=0,
              loop_errors=0, final_unequal=0, inv_states=0, quiet_states=0, opkinds={}, distinct=set(), samples=[])
    fails = []
    for i in range(start, start + count):
        rng = random.Random("%s/%s/%d" % (seed, fam, i))
        case = gen(rng)
        res = run_case(case, _W["model"])
        st["runs"] += 1
        st["actions"] += res.actions
        st["states"] += res.states
        st["engine_calls"] += res.calls
        st["rounds"] += res.rounds
        st["loop_errors"] += res.loop_errors
        st["stuck"] += int(res.stuck)
        st["oof"] += int(res.oof is not None)
        st["not_in_fragment"] += int(res.in_frag is False)
        st["final_unequal"] += int(res.final_equal is False)
        st["inv_states"] += res.inv_states
        st["quiet_states"] += res.quiet_states
        nu = 0
        for a in case["schedule"]:
            key = a[2][0] if a[0] == "user" else a[0]
            st["opkinds"][key] = st["opkinds"].get(key, 0) + 1
            nu += a[0] == "user"
        st["user_ops"] += nu
        if nu >= 1 and res.calls >= 1:
            st["distinct"].add(fw.case_id(jsonable(case))[:16])
        if len(st["samples"]) < 1:
            st["samples"].append(dict(family=fam, index=i, level=case["level"], actions=res.actions, engine_calls=res.calls,
                                      schedule=[a if a[0] != "user" else ["user", a[1], [a[2][0], a[2][1]]] for a in case["schedule"]][:12]))
        bad = None
        if res.diff:
            bad = ("difference", res.diff)
        elif res.stuck:
            bad = ("stuck", (res.actions, "drain", "the real engine did not become quiescent within the round bound"))
        elif res.loop_errors:
            bad = ("loop-error", (res.actions, "step", "an exception escaped an engine step (%d)" % res.loop_errors))
        elif res.in_frag is False:
            bad = ("domain", (-1, "generator", "generated history is outside the domain predicate of its level"))
        elif res.final_equal is False:
            bad = ("unequal", (res.actions, "end", "quiescent but the two views differ"))
        elif res.inv_fail:
            bad = ("invariant", (res.inv_fail[0], res.inv_fail[1], "coupling invariant (AlgoCheck.inv_code) fails: clause %d" % res.inv_fail[2]))
        elif res.quiet_unequal:
            bad = ("quiet-unequal", (res.quiet_unequal[0], res.quiet_unequal[1], "quiescent state with different relative trees"))
        if bad:
            fails.append((jsonable(dict(case, _id=[fam, i])), bad[0], list(bad[1])))
    st["distinct"] = list(st["distinct"])
    return st, fails


def explore(seed, fam, n, procs=4):
    chunk = max(10, min(100, n // (procs * 2) or 1))
    jobs = [(fam, seed, s, min(chunk, n - s)) for s in range(0, n, chunk)]
    if procs <= 1 or len(jobs) == 1:
        results = [_chunk(j) for j in jobs]
    else:
        with mp.get_context("fork").Pool(procs) as pool:
            results = pool.map(_chunk, jobs, chunksize=1)
    tot = None
    fails = []
    for st, f in results:
        fails += f
        if tot is None:
            tot = st
            tot["distinct"] = set(st["distinct"])
            continue
        for k, v in st.items():
            if isinstance(v, int):
                tot[k] += v
            elif k == "opkinds":
                for a, b in v.items():
                    tot[k][a] = tot[k].get(a, 0) + b
            elif k == "distinct":
                tot[k].update(v)
            elif k == "samples" and len(tot[k]) < 2:
                tot[k] += v
    tot["distinct"] = len(tot["distinct"])
    return tot, fails


def shrink(case, kind, model):
    """smallest schedule (greedy removal of actions) that still shows a failure of the same kind"""
    def fails(sched):
        c = dict(case, schedule=sched)
        r = run_case(c, model)
        if kind == "difference":
            return r.diff is not None
        if kind == "stuck":
            return r.stuck
        if kind == "unequal":
            return r.final_equal is False and not r.diff
        if kind == "invariant":
            return r.inv_fail is not None and not r.diff
        if kind == "quiet-unequal":
            return r.quiet_unequal is not None and not r.diff
        return False
    return dict(case, schedule=fw.shrink_list(case["schedule"], fails, max_rounds=120))


def corpus_cases():
    d = os.path.join(fw.VERIF, "corpus", "ALGO")
    out = []
    if os.path.isdir(d):
        for f in sorted(os.listdir(d)):
            if f.endswith(".json"):
                j = json.load(open(os.path.join(d, f)))
                out.append((f, unjson(j["case"]), j.get("expect", "agree")))
    return out


PLAN = [  # family, quick, thorough
    ("f1_one_sided", 120, 6000), ("f1_two_sided", 120, 6000),
    ("f2_one_sided", 60, 4000), ("f2_two_sided", 60, 4000),
    ("f3_one_sided", 60, 4000), ("f3_two_sided", 60, 4000),
]
# the share of the tie that C01 / C03 run as one of their streams: algo_stream(ctx, streams, plan=PLAN_LIGHT)
PLAN_LIGHT = [
    ("f1_one_sided", 40, 2000), ("f1_two_sided", 40, 2000),
    ("f2_one_sided", 24, 1000), ("f2_two_sided", 24, 1000),
    ("f3_one_sided", 24, 1000), ("f3_two_sided", 24, 1000),
]


def algo_stream(ctx, streams, plan=None, label="algo"):
    """runs corpus + seeded exploration; reports through ctx.violation; fills streams[...]; returns totals"""
    model = fw.ModelProc("algo")
    tot_runs = tot_states = tot_distinct = tot_oof = 0
    samples = []
    t0 = time.time()
    n_corpus = 0
    n_findings = 0
    for name, case, expect in corpus_cases():
        r = run_case(case, model)
        n_corpus += 1
        tot_states += r.states
        if r.diff or r.stuck or r.loop_errors or r.in_frag is None:
            ctx.violation("ALGO corpus case %s: model and engine differ: %r" % (name, r.diff or "stuck / loop error"),
                          dict(kind="algo-tie", corpus=name, case=jsonable(case), first_difference=list(r.diff or [])),
                          no_input=True, theorem="stepwise correspondence AlgoModel.algo_step vs the real engine")
        elif expect == "engine_diverges":
            # model and engine agree step by step, and BOTH end quiescent with different trees: a finding about the engine
            if r.final_equal is False:
                n_findings += 1
                ctx.violation("real engine quiescent with different trees on both sides (%s); AlgoModel reproduces every step" % name,
                              dict(kind="algo-finding", corpus=name, case=jsonable(case)))
            else:
                ctx.notes.append("corpus witness %s no longer diverges on this tree" % name)
        elif r.final_equal is False:
            ctx.violation("ALGO corpus case %s: real engine quiescent with different trees" % name,
                          dict(kind="algo-unequal", corpus=name, case=jsonable(case)))
    streams[label + "_corpus"] = dict(cases=n_corpus, engine_findings_reproduced=n_findings, wall_s=round(time.time() - t0, 1))
    for fam, nq, nt in (plan or PLAN):
        n = nq if ctx.quick else nt
        t1 = time.time()
        st, fails = explore(ctx.seed, fam, n)
        streams[label + "_" + fam] = dict(runs=st["runs"], actions=st["actions"], states_compared=st["states"], user_ops=st["user_ops"],
                                         engine_provider_calls=st["engine_calls"], drain_rounds=st["rounds"],
                                         out_of_fragment=st["oof"], outside_domain_predicate=st["not_in_fragment"],
                                         stuck=st["stuck"], loop_errors=st["loop_errors"], final_views_unequal=st["final_unequal"],
                                         invariant_evaluated_on_states=st["inv_states"], quiescent_states=st["quiet_states"],
                                         op_kinds=st["opkinds"], differences=len(fails), wall_s=round(time.time() - t1, 1))
        tot_runs += st["runs"]
        tot_states += st["states"]
        tot_distinct += st["distinct"]
        tot_oof += st["oof"]
        samples += st["samples"][:1]
        for case, kind, first in fails[:3]:
            c = unjson(case)
            c.pop("_id", None)
            small = c
            try:
                small = shrink(c, kind, model)
                r = run_case(small, model)
                first2 = list(r.diff) if r.diff else first
            except Exception as e:
                first2 = first + ["shrink failed: %r" % e]
            if kind == "invariant":
                ctx.violation("ALGO %s: the coupling invariant proved in AlgoInv.v fails on a state of an in-fragment run: %r" % (fam, first2),
                              dict(kind="algo-invariant", family=case.get("_id"), case=jsonable(small), original=case, first_difference=first2),
                              no_input=True, theorem="ALGO_inv_reachable (executable form AlgoCheck.inv_code)")
            elif kind in ("stuck", "unequal", "loop-error", "quiet-unequal"):
                # the real engine itself fails the property on this history: a failing input
                ctx.violation("ALGO %s: real engine %s on an in-fragment history: %r" % (fam, kind, first2),
                              dict(kind="algo-" + kind, family=case.get("_id"), case=jsonable(small), original=case,
                                   first_difference=first2))
            else:
                ctx.violation("ALGO %s: model and real engine differ after action %r: %s" % (fam, first2[1], first2[2]),
                              dict(kind="algo-tie", family=case.get("_id"), case=jsonable(small), original=case,
                                   first_difference=first2),
                              no_input=True, theorem="stepwise correspondence AlgoModel.algo_step vs the real engine")
    model.close()
    return dict(runs=tot_runs, states=tot_states, distinct=tot_distinct, oof=tot_oof, samples=samples)


TRUSTED = [
    "Coq 8.16.1 kernel (coqc); no native_compute; vm_compute only inside Examples and _refuted witnesses",
    "extraction: ExtrOcamlBasic only; OCaml 4.13.1; coq/ocaml/driver.ml",
    "the driver harness/engine.py (virtual clock, serial object ids and SyncEntry hashes, in-process replacement of the "
    "logging helper debug_sig) and the abstraction function of this check (harness/checks/c01_algo.py: Real.abstract)",
    "MockProvider as the file tree users and engine act on (ProvModel.v, tied by C16; here compared object by object after every action)",
    "the initial world (both roots paired after the first engine round on empty roots) is a constant of the model, compared with the real state at the start of every run",
    "not modelled: threads, storage back end, real clocks (the clock reading of every engine step is an input of the schedule), "
    "providers other than MockProvider, everything outside the fragment (answers OutOfFragment)",
]


def run(ctx):
    g = ctx.coq_gate("PropAlgo")
    cov = ctx.coverage
    streams = {}
    tot = dict(runs=0, states=0, distinct=0, oof=0, samples=[])
    if g is not None:
        tot = algo_stream(ctx, streams)
    cov["evaluations"] = tot["runs"]
    cov["distinct_nontrivial"] = tot["distinct"]
    cov["traces_validated_against_impl"] = tot["runs"]
    cov["states_compared"] = tot["states"]
    cov["out_of_fragment"] = tot["oof"]
    cov["rule"] = ("seeded in-fragment histories (harness/families_algo.py; domain predicate AlgoModel.in_Fk evaluated on the extracted "
                   "model for every case) with random schedules of user operations, per-side intake steps, sync steps and fair drains, "
                   "executed on the real engine and on the extracted model; after every action the abstraction of the real SyncState, "
                   "both provider object tables and the engine-issued provider calls of the step must equal the model's; a run is "
                   "non-trivial when it has >= 1 user operation and >= 1 engine-issued provider call; distinct = distinct cases")
    cov["streams"] = streams
    cov["samples"] = tot["samples"][:4]
    tb = list(TRUSTED) + ["axioms per theorem as printed by Print Assumptions: " +
                          (", ".join(cov.get("axioms_used", [])) or "none (closed under the global context)")]
    return ctx.finish(tb)
