"""C06 — restart resumes from persisted state; offline changes are synchronised."""
from ._engine import engine_check


def run(ctx):
    return engine_check(ctx, "PropC06", [("restarts", 1500, 40000), ("restarts_after_fault", 600, 15000, "run_restarts_after_fault"),
                         ("restarts_fallback_rename", 800, 15000)],
                        "run with restarts rejected (C06: outcome differs from the uninterrupted one, something was re-transferred or "
                        "conflicted, the stored cursor was ahead of the applied events, or storage/index differ from memory)",
                        stream_b="C06", runner_name="run_restarts",
                        extra_cov=dict(oracles="Monitor (spec at quiet, no echo, covered versions) + CursorModel acceptor on the observed "
                                               "cursor actions of both sides + C11 index clauses on every state + C08 storage == memory after every step"))
