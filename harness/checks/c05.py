"""C05 — conflict-resolution contract.  Exhaustive product: content pairs x resolver behaviours x conflict
shapes x flavours x all schedules of <= k engine steps after the conflict exists (+ fair drain); every run's
resolver call log and final views are judged by the extracted Coq acceptor (ResolverSpec.accept_conflict)."""
import io
import itertools
import multiprocessing as mp

from .. import engine as E
from .. import framework as fw

BEHAVIOURS = ["pick_local_keep", "pick_local_nokeep", "pick_remote_keep", "pick_remote_nokeep", "merged_nokeep",
              "none", "raises", "not_tuple", "wrong_len", "not_file_like"]
CONTENTS = {  # (local, remote)
    "equal": (b"same-bytes", b"same-bytes"),
    "empty_vs_nonempty": (b"", b"remote-data"),
    "distinct": (b"local-data", b"remote-data"),
    "large": (b"L" * 3072, b"R" * 3000 + b"tail"),
}
MERGED = b"merged<local+remote>"
STEPS = ["I0", "I1", "S"]
# longer systematic schedules for the path-style family: the sync step runs several times before the losing side's own
# events (the rename of the loser to '.conflicted') are taken in, and variants
LONG_SCHEDULES = [("I0", "I1", "S", "S", "S", "S", "S"), ("I1", "I0", "S", "S", "S", "S", "S"), ("I0", "S", "S", "S", "S", "S", "I1"),
                  ("I1", "S", "S", "S", "S", "S", "I0"), ("I0", "S", "I1", "S"), ("I1", "S", "I0", "S"), ("S", "I0", "I1", "S", "S", "S"),
                  ("I0", "I1", "S", "S", "I0", "S", "S", "I1"), ("I0", "I1", "S", "S", "I1", "S", "S", "I0")]


def make_resolver(beh):
    def pick(f1, f2, side):
        return f1 if f1.side == side else f2

    def resolver(f1, f2):
        if beh == "pick_local_keep":
            return (pick(f1, f2, 0), True)
        if beh == "pick_local_nokeep":
            return (pick(f1, f2, 0), False)
        if beh == "pick_remote_keep":
            return (pick(f1, f2, 1), True)
        if beh == "pick_remote_nokeep":
            return (pick(f1, f2, 1), False)
        if beh == "merged_nokeep":
            return (io.BytesIO(MERGED), False)
        if beh == "merged_keep":
            return (io.BytesIO(MERGED), True)
        if beh == "none":
            return None
        if beh == "raises":
            raise RuntimeError("resolver failed")
        if beh == "not_tuple":
            return "garbage"
        if beh == "wrong_len":
            return (f1,)
        if beh == "not_file_like":
            return ("not a file", True)
        raise ValueError(beh)
    return resolver


def answer_sx(beh, tok):
    return {"pick_local_keep": [0, 1], "pick_local_nokeep": [0, 0], "pick_remote_keep": [1, 1], "pick_remote_nokeep": [1, 0],
            "merged_nokeep": [2, tok(MERGED), 0]}.get(beh, [3])


def _md5_bytes(data):
    import hashlib
    return hashlib.md5(data).digest()


def _sha1_hex(data):
    import hashlib
    return hashlib.sha1(data).hexdigest()


def run_one(case, multihash=False):
    """case = (flavour key, shape, content class, behaviour, schedule tuple, first side); multihash: the two providers
    hash content with different functions and result types (md5 digest bytes vs sha1 hex string)"""
    fk, shape, ccls, beh, sched, first = case
    E.install()
    E.reset_serials()
    fl = E.Flavour.from_key(fk)
    world = E.World(fl, hash_funcs=(_md5_bytes, _sha1_hex) if multihash else None)
    eng = E.Engine(world, resolver=make_resolver(beh))
    toks = {}

    def tok(b):
        return toks.setdefault(bytes(b), len(toks) + 1)
    try:
        a, b = CONTENTS[ccls]
        name, cname = "f.txt", "f.conflicted.txt"
        if shape == "edit":
            world.user(0, ["create", fl.roots[0] + "/" + name, b"base-version"])
            if eng.drain(100) is None:
                return dict(case=case, error="base did not sync")
            ops = {0: ["write", fl.roots[0] + "/" + name, a], 1: ["write", fl.roots[1] + "/" + name, b]}
        else:
            eng.drain(50)
            ops = {0: ["create", fl.roots[0] + "/" + name, a], 1: ["create", fl.roots[1] + "/" + name, b]}
        world.user(first, ops[first])
        world.user(1 - first, ops[1 - first])
        for s in sched:
            if s == "I0":
                eng.intake(0)
            elif s == "I1":
                eng.intake(1)
            else:
                eng.sync()
        rounds = eng.drain(150)
        if rounds is None:
            return dict(case=case, error="engine still busy after 150 rounds", calls=len(eng.resolver_calls),
                        views=[repr(world.view(0)), repr(world.view(1))])
        calls = []
        for rec in eng.resolver_calls:
            by_side = dict(zip(rec["sides"], rec.get("bytes", [None, None])))
            if 0 not in by_side or 1 not in by_side or by_side[0] is None:
                calls.append([tok(b"<bad call>"), tok(b"<bad call 2>")])
            else:
                calls.append([tok(by_side[0]), tok(by_side[1])])

        def tree(view):
            out = []
            for p, node in sorted(view.items()):
                comps = [c for c in p.split("/") if c]
                ids = [{name: 1, cname: 2}.get(c, 50 + tok(c.encode())) for c in comps]
                out.append([ids, [] if node[0] == "D" else [tok(node[1])]])
            return out
        req = [[], 1, 2, tok(a), tok(b), answer_sx(beh, tok), calls, tree(world.view(0)), tree(world.view(1))]
        return dict(case=case, req=req, ncalls=len(calls), views=[repr(world.view(0)), repr(world.view(1))],
                    loop_errors=eng.loop_errors[:2])
    finally:
        eng.stop()


def run_interrupted(case):
    """case = (flavour key, behaviour, first side).  An edit/edit conflict that is preceded by an INTERRUPTED sync of the
    same file: the local save is downloaded to the engine's temp file, its upload to the remote is refused once with a
    temporary error, then both sides are edited again.  The resolver must still be handed the bytes the two sides hold
    NOW (not the superseded temp file) and the outcome must be the specified one."""
    fk, beh, first = case
    import cloudsync.exceptions as ex
    E.install()
    E.reset_serials()
    fl = E.Flavour.from_key(fk)
    world = E.World(fl)
    eng = E.Engine(world, resolver=make_resolver(beh))
    toks = {}

    def tok(b):
        return toks.setdefault(bytes(b), len(toks) + 1)
    try:
        name, cname = "f.txt", "f.conflicted.txt"
        world.user(0, ["create", fl.roots[0] + "/" + name, b"base-version"])
        if eng.drain(100) is None:
            return dict(case=case, error="base did not sync")
        world.user(0, ["write", fl.roots[0] + "/" + name, b"local-v2-superseded"])
        eng.intake(0)
        fired = [0]

        def plan(side, call, idx):
            if side == 1 and call == "upload" and not fired[0]:
                fired[0] = 1
                return ex.CloudTemporaryError("refused once")
            return None
        eng.fault_plan = plan
        eng.sync()
        eng.fault_plan = None
        a, b = b"local-v3", b"remote-v3-longer"
        ops = {0: ["write", fl.roots[0] + "/" + name, a], 1: ["write", fl.roots[1] + "/" + name, b]}
        world.user(first, ops[first])
        world.user(1 - first, ops[1 - first])
        rounds = eng.drain(150)
        if rounds is None:
            return dict(case=case, error="engine still busy after 150 rounds", calls=len(eng.resolver_calls), fault_fired=fired[0])
        calls = []
        for rec in eng.resolver_calls:
            by_side = dict(zip(rec["sides"], rec.get("bytes", [None, None])))
            if 0 not in by_side or 1 not in by_side or by_side[0] is None:
                calls.append([tok(b"<bad call>"), tok(b"<bad call 2>")])
            else:
                calls.append([tok(by_side[0]), tok(by_side[1])])

        def tree(view):
            out = []
            for p, node in sorted(view.items()):
                comps = [c for c in p.split("/") if c]
                ids = [{name: 1, cname: 2}.get(c, 50 + tok(c.encode())) for c in comps]
                out.append([ids, [] if node[0] == "D" else [tok(node[1])]])
            return out
        req = [[], 1, 2, tok(a), tok(b), answer_sx(beh, tok), calls, tree(world.view(0)), tree(world.view(1))]
        return dict(case=case, req=req, ncalls=len(calls), views=[repr(world.view(0)), repr(world.view(1))], fault_fired=fired[0])
    finally:
        eng.stop()


def _chunk(cases):
    return [run_one(c) for c in cases]


def run(ctx):
    g = ctx.coq_gate("PropC05")
    cov = ctx.coverage
    dist = fw.Distinct()
    stats = dict(runs=0, accepted=0, resolver_calls=0, by_behaviour={}, by_shape={}, schedules=0)
    samples = []
    if g is not None:
        E.install()
        k = 3 if ctx.quick else 4
        scheds = [()] + [s for n in range(1, k + 1) for s in itertools.product(STEPS, repeat=n)]
        flavours = [E.Flavour((False, False), cs, False, rb).key() for cs in [(True, True), (False, False)] for rb in ("path", "oid")]
        cases = []
        i = 0
        for fk in flavours:
            for shape in ("create", "edit"):
                for ccls in CONTENTS:
                    for beh in BEHAVIOURS:
                        for s in scheds:
                            i += 1
                            if ctx.quick and (i + ctx.seed) % 4 != 0:      # quick: a fixed quarter, rotated by the seed
                                continue
                            cases.append((fk, shape, ccls, beh, s, (i // 7) % 2))
        stats["schedules"] = len(scheds)
        chunks = [cases[j:j + 200] for j in range(0, len(cases), 200)]
        with mp.get_context("fork").Pool(16) as pool:
            results = [r for ch in pool.map(_chunk, chunks) for r in ch]
        model = fw.ModelProc("resolver")
        answers = model.batch([r["req"] for r in results if "req" in r])
        model.close()
        it = iter(answers)
        for r in results:
            stats["runs"] += 1
            fk, shape, ccls, beh, s, first = r["case"]
            dist.add(r["case"], nontrivial=ccls != "equal")
            stats["by_behaviour"][beh] = stats["by_behaviour"].get(beh, 0) + 1
            stats["by_shape"][shape] = stats["by_shape"].get(shape, 0) + 1
            casej = dict(flavour=fk, shape=shape, contents=ccls, behaviour=beh, schedule=list(s), first_side=first)
            if "req" not in r:
                ctx.violation("conflict run did not settle: %s (%s)" % (r.get("error"), casej),
                              dict(kind="conflict-run", case=casej, detail={k2: v for k2, v in r.items() if k2 != "case"}))
                continue
            ans = next(it)
            stats["resolver_calls"] += r["ncalls"]
            if ans == [1]:
                stats["accepted"] += 1
                if len(samples) < 3 and beh.startswith("pick") and ccls == "distinct":
                    samples.append(dict(case=casej, resolver_calls=r["ncalls"], final_views=r["views"]))
            else:
                ctx.violation("conflict outcome differs from the specified one (C05): %s; observed %d resolver call(s), views %s; "
                              "expected (calls, local, remote) = %s" % (casej, r["ncalls"], r["views"], ans[1:]),
                              dict(kind="conflict-run", case=casej, observed=dict(calls=r["ncalls"], views=r["views"]), expected=ans[1:]))
        # ---- deterministic family: the conflict is preceded by an interrupted sync of the same file (a filled temp file
        # of a superseded version exists when the conflict is handled)
        icases = [(fk, beh, first) for fk in flavours
                  for beh in ("pick_local_keep", "pick_local_nokeep", "pick_remote_keep", "pick_remote_nokeep", "none")
                  for first in (0, 1)]
        ires = [run_interrupted(c) for c in icases]
        model = fw.ModelProc("resolver")
        ians = model.batch([r["req"] for r in ires if "req" in r])
        model.close()
        it2 = iter(ians)
        stats["interrupted_sync"] = dict(runs=len(ires), fault_fired=sum(r.get("fault_fired", 0) for r in ires), accepted=0)
        for r in ires:
            fk, beh, first = r["case"]
            casej = dict(flavour=fk, shape="edit-after-interrupted-sync", behaviour=beh, first_side=first)
            if "req" not in r:
                ctx.violation("conflict after an interrupted sync did not settle: %s (%s)" % (r.get("error"), casej),
                              dict(kind="conflict-run", case=casej))
                continue
            ans = next(it2)
            if ans == [1]:
                stats["interrupted_sync"]["accepted"] += 1
            else:
                ctx.violation("conflict after an interrupted sync: outcome / resolver input differs from the specified one (C05): %s; "
                              "observed %d resolver call(s), views %s; expected (calls, local, remote) = %s"
                              % (casej, r["ncalls"], r["views"], ans[1:]),
                              dict(kind="conflict-run", case=casej, observed=dict(calls=r["ncalls"], views=r["views"]), expected=ans[1:]))
        # ---- deterministic family: providers with hash functions of different types (identical content on both sides must
        # still be merged without a resolver call; different content must still reach the resolver once)
        mcases = [(fk, shape, ccls, beh, sch, first) for fk in flavours[:2] for shape in ("create", "edit")
                  for ccls in ("equal", "distinct", "empty_vs_nonempty") for beh in ("none", "pick_local_keep", "raises")
                  for sch in ((), ("I1", "I0", "S")) for first in (0, 1)]
        mres = [run_one(c, multihash=True) for c in mcases]
        model = fw.ModelProc("resolver")
        mans = model.batch([r["req"] for r in mres if "req" in r])
        model.close()
        it3 = iter(mans)
        stats["multihash"] = dict(runs=len(mres), accepted=0)
        for r in mres:
            fk, shape, ccls, beh, sch, first = r["case"]
            casej = dict(flavour=fk, shape=shape, contents=ccls, behaviour=beh, schedule=list(sch), first_side=first, multihash=True)
            if "req" not in r:
                ctx.violation("conflict run with providers of different hash types did not settle: %s (%s)" % (r.get("error"), casej),
                              dict(kind="conflict-run", case=casej))
                continue
            ans = next(it3)
            if ans == [1]:
                stats["multihash"]["accepted"] += 1
            else:
                ctx.violation("conflict outcome differs from the specified one with providers of different hash types (C05): %s; observed "
                              "%d resolver call(s), views %s; expected (calls, local, remote) = %s" % (casej, r["ncalls"], r["views"], ans[1:]),
                              dict(kind="conflict-run", case=casej, observed=dict(calls=r["ncalls"], views=r["views"]), expected=ans[1:]))
        # ---- deterministic family: path-style ids (an object's id IS its path, so renaming the loser to '.conflicted' changes
        # its id) on one side or both, with the longer systematic schedules
        pflav = [E.Flavour(o, cs, False, "path").key() for o in [(False, True), (True, False), (True, True)] for cs in [(True, True), (False, False)]]
        pscheds = list(LONG_SCHEDULES) + ([] if ctx.quick else [s2 for n in range(0, 4) for s2 in itertools.product(STEPS, repeat=n)])
        pcases = [(fk, shape, ccls, beh, sch, first) for fk in pflav for shape in ("create", "edit")
                  for ccls in (("distinct", "equal") if ctx.quick else tuple(CONTENTS)) for beh in BEHAVIOURS for sch in pscheds for first in (0, 1)]
        pchunks = [pcases[j:j + 100] for j in range(0, len(pcases), 100)]
        with mp.get_context("fork").Pool(16) as pool:
            pres = [r for ch in pool.map(_chunk, pchunks) for r in ch]
        model = fw.ModelProc("resolver")
        pans = model.batch([r["req"] for r in pres if "req" in r])
        model.close()
        it4 = iter(pans)
        stats["path_style"] = dict(runs=len(pres), accepted=0, flavours=len(pflav), schedules=len(pscheds))
        for r in pres:
            fk, shape, ccls, beh, sch, first = r["case"]
            dist.add(("path_style",) + tuple(map(str, r["case"])), nontrivial=ccls != "equal")
            casej = dict(flavour=fk, shape=shape, contents=ccls, behaviour=beh, schedule=list(sch), first_side=first)
            if "req" not in r:
                ctx.violation("conflict run with path-style ids did not settle: %s (%s)" % (r.get("error"), casej),
                              dict(kind="conflict-run", case=casej))
                continue
            ans = next(it4)
            if ans == [1]:
                stats["path_style"]["accepted"] += 1
            else:
                ctx.violation("conflict outcome differs from the specified one with path-style ids (C05): %s; observed %d resolver call(s), "
                              "views %s; expected (calls, local, remote) = %s" % (casej, r["ncalls"], r["views"], ans[1:]),
                              dict(kind="conflict-run", case=casej, observed=dict(calls=r["ncalls"], views=r["views"]), expected=ans[1:]))
        # ---- deterministic probe: merged data with keep = True.  The property states no outcome for it, but whatever the
        # resolver answers the engine must reach a quiet state in a bounded number of steps (C01); it does not (finding E-7).
        stats["merged_keep_probe"] = {}
        for shape in ("create", "edit"):
            r = run_one((flavours[0], shape, "distinct", "merged_keep", (), 0))
            settled = "error" not in r
            stats["merged_keep_probe"][shape] = "settled" if settled else "%s after %s resolver calls" % (r.get("error"), r.get("calls"))
            if not settled:
                ctx.violation("resolver answering (merged data, keep=True): the engine never goes quiet, it keeps producing "
                              "'.conflicted.conflicted...' copies and calling the resolver again (%s, %s resolver calls in 150 rounds)"
                              % (shape, r.get("calls")),
                              dict(kind="conflict-run", case=dict(flavour=flavours[0], shape=shape, contents="distinct",
                                                                  behaviour="merged_keep", schedule=[], first_side=0)))
    cov["evaluations"] = dist.total
    cov["distinct_nontrivial"] = dist.nontrivial
    cov["exhaustive"] = not ctx.quick
    cov["traces_validated_against_impl"] = stats["accepted"]
    cov["rule"] = ("product of 4 flavours (case mode x root by path/oid, both sides id-stable, unfiltered) x {create/create, edit/edit} x 4 content "
                   "pairs (equal, empty vs non-empty, distinct, 3 KiB) x 10 resolver behaviours x every sequence of <= %d engine steps over "
                   "{intake local, intake remote, sync} after the conflict exists, then a fair drain; thorough enumerates it completely, quick a "
                   "fixed quarter rotated by the seed; non-trivial = contents differ (the resolver must be consulted); plus the deterministic families "
                   "interrupted_sync, multihash and path_style (6 flavours with path-style ids on one side or both x both shapes x contents x 10 "
                   "behaviours x 9 long schedules [thorough: + every schedule of <= 3 steps, all 4 content pairs] x first side)" % (3 if ctx.quick else 4))
    cov["streams"] = stats
    cov["samples"] = samples
    tb = ["Coq 8.16.1 kernel (coqc); no native_compute",
          "axioms per theorem as printed by Print Assumptions: " + (", ".join(cov.get("axioms_used", [])) or "none (closed under the global context)"),
          "extraction: ExtrOcamlBasic only; OCaml 4.13.1; coq/ocaml/driver.ml",
          "harness/engine.py observers (resolver wrapper reads both handles before delegating), virtual clock, serial ids",
          "modelled, not verified: the engine's conflict path itself (SyncManager.handle_hash_conflict/resolve_conflict) — the theorems "
          "are about the specified outcome; every explored schedule of the real engine must land on it",
          "resolver answer 'merged data, keep=True': no outcome is specified by the property; only probed for settling (open finding E-7: the engine never goes quiet); "
          "a resolver raising CloudTemporaryError (retried by design, so called more than once); path-style ids are explored by the "
          "path_style family only (systematic schedules, not the full product)"]
    return ctx.finish(tb)
