"""C18 — service loops (cloudsync/runnable.py) and notifications (cloudsync/notification.py).
Theorems: coq/theories/PropC18.v about LoopModel.v / NotifyModel.v.
Tie: (i) the sequential loop on a Runnable subclass with a virtual interruptable_sleep, exact Fractions;
(ii) model schedules of the two-thread machine replayed step by step on real threads (c18_replay.py): every
racy attribute access of the real code is a synchronisation point, the pending access is compared with the
model's program counter at every step; (iii) notification sequences with failing handlers on the real
NotificationManager (single-thread runs compared with the model, real-thread runs checked by the predicates).
The statements of the property are also evaluated directly on the observed real behaviour."""
import glob
import json
import os
import threading
from fractions import Fraction

from .. import envfix, framework as fw

F = Fraction
CORPUS = os.path.join(fw.VERIF, "corpus", "C18")
LIMB = 1 << 30


# ------------------------------------------------------------------ wire encoding
def big(n):
    out = []
    while n:
        out.append(n % LIMB)
        n //= LIMB
    return out


def unbig(l):
    n = 0
    for d in reversed(l):
        n = n * LIMB + d
    return n


def qx(q):
    q = F(q)
    return [1 if q < 0 else 0, big(abs(q.numerator)), big(q.denominator)]


def unq(x):
    s, n, d = x
    v = F(unbig(n), unbig(d))
    return -v if s else v


def params_sx(p):
    return [qx(p[0]), qx(p[1]), qx(p[2]), qx(p[3])]


def frs(q):
    q = F(q)
    return "%d/%d" % (q.numerator, q.denominator)


def unfrs(s):
    a, b = s.split("/")
    return F(int(a), int(b))


OUTCOMES = ["did", "noop", "backoff", "exc", "base"]


# ------------------------------------------------------------------ (i) sequential loop
class _Base2(BaseException):
    pass


class _MyErr(Exception):
    pass


EXC_CLASSES = [ValueError, KeyError, RuntimeError, _MyErr, OSError, AssertionError, StopIteration, MemoryError,
               TimeoutError]
BASE_CLASSES = [KeyboardInterrupt, SystemExit, GeneratorExit, _Base2]


def make_seq_class():
    from cloudsync.runnable import Runnable

    class SeqRunnable(Runnable):
        """do() plays a list of actions; interruptable_sleep is virtual (records, never sleeps)"""

        def __init__(self, p, acts, rng):
            self.min_backoff, self.max_backoff, self.mult_backoff = p[0], p[1], p[2]
            self.acts = acts
            self.i = 0
            self.events = []
            self.rng = rng

        def interruptable_sleep(self, secs):
            self.events.append(("sleep", F(secs)))

        def done(self):
            self.events.append(("done",))

        def do(self):
            self.events.append(("do",))
            a = self.acts[self.i]
            self.i += 1
            k = a[0]
            if k == "did":
                return
            if k == "noop":
                self.nothing_happened()
                return
            if k == "backoff":
                if a[1]:
                    self.nothing_happened()     # must make no difference
                self.backoff()
            if k == "exc":
                if a[1]:
                    self.nothing_happened()
                raise EXC_CLASSES[a[2] % len(EXC_CLASSES)]("x")
            if k == "base":
                raise BASE_CLASSES[a[2] % len(BASE_CLASSES)]()
            if k == "stop":
                self.stop(forever=a[1])
                return
            raise AssertionError(a)
    return SeqRunnable


def act_sx(a):
    if a[0] == "stop":
        return [5, 1 if a[1] else 0]
    return OUTCOMES.index(a[0])


def gen_params(rng, malformed=False):
    """(min, max, mult, sleep) as exact Fractions"""
    def frac(lo_den=1, hi_den=12, hi_num=30):
        return F(rng.randint(1, hi_num), rng.randint(lo_den, hi_den))
    r = rng.random()
    if malformed:
        mn = rng.choice([F(0), -frac(), frac(), frac()])
        mx = rng.choice([F(0), -frac(), frac(), mn / 2])
        mult = rng.choice([F(0), -frac(), F(1, 2), F(1, 3), frac(), F(1)])
        return (mn, mx, mult, rng.choice([F(0), frac(1, 1000, 3)]))
    if r < 0.15:        # the parameter triples the code base uses (floats are exact dyadics or Fraction(float))
        mn, mx, mult = rng.choice([(F(0.01), F(1.0), F(2.0)), (F(1), F(15), F(2)), (F(1, 100), F(1), F(2)),
                                   (F(3, 2), F(150), F(2)), (F(0.1), F(10.0), F(2))])
        return (mn, mx, mult, rng.choice([F(0.001), F(1, 10), F(1, 1000)]))
    mn = frac(1, 100, 20)
    mx = mn * rng.choice([1, 1, 2, 3, F(7, 2), 10, 100, 1000, F(13, 3)])
    mult = rng.choice([F(1), F(2), F(2), F(3, 2), F(3), F(11, 10), F(5, 4), F(10), frac(1, 4, 9) + 1])
    if mult < 1:
        mult = F(1)
    return (mn, mx, mult, frac(1, 1000, 5))


def gen_acts(rng, n, stop_prob=0.1):
    acts = []
    mode = rng.random()
    for _ in range(n):
        r = rng.random()
        if mode < 0.25:      # long failure runs
            k = "fail" if r < 0.8 else ("noop" if r < 0.9 else "did")
        else:
            k = "fail" if r < 0.45 else ("noop" if r < 0.65 else "did")
        if k == "fail":
            c = rng.choice(["backoff", "exc", "exc", "base"])
            acts.append((c, rng.random() < 0.3, rng.randint(0, 50)))
        else:
            acts.append((k,))
    if rng.random() < stop_prob:
        acts.append(("stop", rng.random() < 0.5))
    return acts


def seq_real(cls, p, acts, rng, float_mode=False):
    conv = (lambda x: float(x)) if float_mode else (lambda x: x)
    o = cls((conv(p[0]), conv(p[1]), conv(p[2])), acts, rng)
    o.run(until=lambda: o.i >= len(acts), sleep=conv(p[3]))
    return o.events, F(o.in_backoff), o


def seq_predicates(p, acts, events):
    """the statements of the property evaluated on the observed behaviour -> list of failures"""
    mn, mx, mult, slp = p
    bad = []
    dos = [e for e in events if e[0] == "do"]
    if len(dos) != len(acts):
        bad.append(("loop_survives", dict(do_calls=len(dos), outcomes=len(acts))))
    sleeps = [e[1] for e in events if e[0] == "sleep"]
    k = 0
    regular = mult >= 1 and 0 < mn <= mx
    for i, a in enumerate(acts[:-1]):           # the last call is followed by until()/stop, no sleep
        if a[0] in ("backoff", "exc", "base"):
            k += 1
        elif a[0] == "did":
            k = 0
        if i >= len(sleeps):
            bad.append(("sleep_missing", dict(index=i)))
            break
        w = sleeps[i]
        if regular:
            exp = slp if k == 0 else min(mx, mn * mult ** (k - 1))
            if w != exp:
                bad.append(("backoff_formula" if k else "backoff_reset", dict(index=i, k=k, got=frs(w), expected=frs(exp))))
            if k and not (mn <= w <= mx):
                bad.append(("backoff_bounded", dict(index=i, got=frs(w))))
    n_done = len([e for e in events if e[0] == "done"])
    final_stop = acts and acts[-1][0] == "stop" and acts[-1][1]
    if n_done != (1 if final_stop else 0):
        bad.append(("cleanup_iff_final", dict(done=n_done)))
    return bad


def ev_sx_to_py(es):
    out = []
    for e in es:
        if e[0] == 0:
            out.append(("do",))
        elif e[0] == 1:
            out.append(("sleep", unq(e[1])))
        else:
            out.append(("done",))
    return out


def stream_seq(ctx, model, dist, stats, samples, mism):
    cls = make_seq_class()
    rng = ctx.sub_rng("seq")
    n_cases = 1000 if ctx.quick else 40000
    reqs, reals, cases = [], [], []
    for i in range(n_cases):
        malformed = rng.random() < 0.12
        p = gen_params(rng, malformed)
        n = rng.choice([1, 2, 3, 5, 8, 13, 21, 34]) if rng.random() < 0.9 else rng.randint(35, 70)
        acts = gen_acts(rng, n)
        float_mode = (not malformed) and all(F(float(x)) == x for x in p) and p[2] in (1, 2, 4) and rng.random() < 0.7
        try:
            events, bk, obj = seq_real(cls, p, acts, rng, float_mode)
        except BaseException as e:     # nothing may escape run()
            ctx.violation("an outcome of do() escaped Runnable.run: %r" % (e,),
                          dict(kind="seq", params=[frs(x) for x in p], acts=[list(a) for a in acts], exc=repr(e)))
            continue
        stats["seq_cases"] += 1
        stats["seq_malformed" if malformed else "seq_regular"] += 1
        stats["seq_float_mode"] += 1 if float_mode else 0
        for a in acts:
            stats["act_" + a[0]] = stats.get("act_" + a[0], 0) + 1
        kmax = k = 0
        for a in acts:
            k = k + 1 if a[0] in ("backoff", "exc", "base") else (0 if a[0] == "did" else k)
            kmax = max(kmax, k)
        stats["seq_max_consecutive_failures"] = max(stats["seq_max_consecutive_failures"], kmax)
        capped = any(e[0] == "sleep" and e[1] == p[1] for e in events)
        stats["seq_reached_max"] += 1 if capped else 0
        case = dict(kind="seq", params=[frs(x) for x in p], acts=[list(a) for a in acts], float_mode=float_mode)
        dist.add(("seq", case["params"], [a[0] for a in acts]), nontrivial=kmax >= 1)
        for name, d in seq_predicates(p, acts, events):
            ctx.violation("statement %s of the property fails on the real Runnable: %r" % (name, d), dict(case, law=name))
        reqs.append([0, params_sx(p), qx(0), [act_sx(a) for a in acts]])
        reals.append((events, bk))
        cases.append(case)
        if i < 3:
            samples.append(dict(stream="sequential", params=case["params"], outcomes=[a[0] for a in acts],
                                sleeps=[frs(e[1]) for e in events if e[0] == "sleep"]))
    outs = model.batch(reqs)
    for case, mo, (events, bk) in zip(cases, outs, reals):
        if mo == fw.MALFORMED:
            mism.append(("seq", case, "model: malformed", None))
            continue
        mev, mbk = ev_sx_to_py(mo[0]), unq(mo[1])
        if mev != events or mbk != bk:
            mism.append(("seq", case, dict(model=[list(map(str, e)) for e in mev], model_backoff=frs(mbk)),
                         dict(impl=[list(map(str, e)) for e in events], impl_backoff=frs(bk))))


# ------------------------------------------------------------------ (ii) schedule replay on real threads
LPC_DESC = {1: ("w", "interrupt", True), 2: ("w", "stopped", False), 3: ("r", "stopping"), 4: ("r", "shutdown"),
            5: ("do",), 6: ("doret",), 7: ("r", "stopping"), 8: ("r", "shutdown"), 9: ("until",), 10: ("ewait",),
            11: ("eclear",), 12: ("w", "stopping", False), 13: ("w", "stopped", True), 14: ("w", "interrupt", False),
            15: ("r", "shutdown"), 16: ("done",)}
LPC_NAME = ["none", "R1", "R2", "H1", "H2", "do", "doret", "C1", "C2", "C3", "sleep", "clear", "F1", "F2", "F3", "F4",
            "done", "dead"]


def stage_desc(stage, f, variant):
    if stage == 0:
        return ("w", "stopping", True)
    if stage in (1, 2):
        return ("r", "interrupt")
    return ("w", "shutdown", True if variant[1] else bool(f))


def cpc_desc(c, variant):
    k = c[0]
    if k in (1, 3, 10):
        return ("alive",)
    if k == 2:
        return ("join", True)
    if k == 4:
        return ("w", "stopping", False)
    if k == 5:
        return ("w", "thread", True)
    if k == 6:
        return ("tstart",)
    if k == 7:
        return stage_desc(c[1], c[2], variant)
    if k == 8:
        return ("r", "interrupt")
    if k == 9:
        return ("join", bool(c[1][0] == 1 and c[1][1]))
    return None


def first_desc(op, variant):
    if op[0] == "stop":
        has_sd = (not variant[1]) or op[1]
        return stage_desc(3 if (variant[0] and has_sd) else 0, op[1], variant)
    if op[0] == "wake":
        return ("r", "interrupt")
    return None


def cret_py(r):
    k = r[0]
    return {0: None, 1: ["start_ok"], 2: ["start_refused"], 3: ["start_busy"], 6: ["woke"], 7: ["wake_ignored"],
            8: ["wake_raised"], 10: ["wait_timeout"]}.get(k) if k not in (4, 5, 9) else (
        ["stopped", bool(r[1]), bool(r[2])] if k == 4 else ["stop_raised", bool(r[1])] if k == 5 else ["waited", bool(r[1])])


def lab_json(lab):
    if lab[0] == "call":
        return ["call", list(lab[1])]
    return list(lab)


def lab_from_json(j):
    if j[0] == "call":
        return ("call", tuple(j[1]))
    return tuple(j)


class Observer:
    """evaluates the statements of the property on what the real threads did, while a replay runs"""

    def __init__(self):
        self.quiet_do = None         # number of do calls when a waiting stop()/wait() returned; None = not quiet
        self.final_begun = False     # a stop(forever=True) call has begun
        self.final_returned = False
        self.unfinal = False         # a stop(forever=False) call began after a stop(forever=True) call began
        self.live_final = False      # a stop(forever=True) call began while the loop thread had not reached its shutdown test
        self.joined_after_final = False
        self.fail_true = []          # failures of statements proved for the faithful model (violations)
        self.fail_full = []          # failures of the full-strength statements refuted for the faithful model
        self.raised = 0

    def n_do(self, r):
        return len([e for e in r.obj.obs if e[0] == "do"])

    def n_done(self, r):
        return len([e for e in r.obj.obs if e[0] == "done"])

    def before(self, r, lab):
        if lab[0] == "call":
            op = lab[1]
            if op[0] == "start":
                self._check_quiet(r)
                self.pending_start = True
            if op[0] == "stop":
                if op[1]:
                    self.final_begun = True
                    st = r.sched.state.get("loop")
                    if st == "parked" and r.sched.pending.get("loop") != ("done",):
                        self.live_final = True
                elif self.final_begun:
                    self.unfinal = True

    def _check_quiet(self, r):
        if self.quiet_do is not None and self.n_do(r) != self.quiet_do:
            self.fail_true.append(("no_do_after_stop_returns", dict(do_at_return=self.quiet_do, do_now=self.n_do(r))))
        self.quiet_do = None

    def after(self, r, n_rets_before):
        for ret in r.rets[n_rets_before:]:
            if ret[0] == "stopped" and ret[2] or ret == ["waited", True]:
                self.quiet_do = self.n_do(r)
                if r.sched.state.get("loop") != "finished":
                    self.fail_true.append(("stop_returned_while_loop_alive", dict(ret=ret)))
                if self.final_begun:
                    self.joined_after_final = True
            if ret[0] == "stopped" and ret[1]:
                self.final_returned = True
            if ret[0] in ("stop_raised", "wake_raised"):
                self.raised += 1
                self.fail_full.append(("stop_or_wake_raises_AttributeError", dict(ret=ret)))
            if ret == ["start_ok"] or ret == ["start_busy"]:
                if self.final_returned:
                    (self.fail_true if not self.unfinal else self.fail_full).append(
                        ("restart_refused_after_final_stop", dict(ret=ret)))

    def finish(self, r, swap):
        self._check_quiet(r)
        nd = self.n_done(r)
        if nd > 1:
            (self.fail_true if not self.unfinal else self.fail_full).append(("cleanup_at_most_once", dict(done=nd)))
        # exactly once: a final stop was called on a running service and the thread has been joined since
        if self.live_final and self.joined_after_final and not self.unfinal and self.raised == 0 and nd != 1:
            (self.fail_true if swap else self.fail_full).append(("cleanup_exactly_once_if_final", dict(done=nd)))


def gen_schedule_step(rng, r, hist):
    """choose the next label among those enabled in the real system"""
    en = sorted(r.enabled())
    if not en:
        return None
    # keep running the same thread for a while (bursts), otherwise switch
    last = hist[-1][0] if hist else None
    kind = None
    if last in ("loop",) and "loop" in en and rng.random() < 0.6:
        kind = "loop"
    elif last in ("call", "cont") and "cont" in en and rng.random() < 0.55:
        kind = "cont"
    if kind is None:
        kind = rng.choice(en)
    if kind == "loop":
        o = rng.choice(["did", "did", "noop", "backoff", "exc", "base"])
        return ("loop", o, rng.random() < 0.04)
    if kind == "cont":
        return ("cont",)
    has_thread = r.obj.raw("thread") is not None
    loop_state = r.sched.state.get("loop")
    x = rng.random()
    if not has_thread:
        op = ("start",) if x < 0.7 else rng.choice([("stop", False, True), ("stop", True, False), ("wake",), ("wait", False)])
    elif loop_state == "finished":
        op = ("start",) if x < 0.5 else rng.choice([("stop", True, True), ("stop", False, True), ("stop", False, False),
                                                    ("wake",), ("wait", False), ("wait", True)])
    else:
        op = rng.choice([("stop", True, True), ("stop", True, True), ("stop", False, True), ("stop", True, False),
                         ("stop", False, False), ("wake",), ("wake",), ("wait", True), ("start",)])
    return ("call", op)


def replay_case(ctx, model, variant, p, labels=None, rng=None, max_len=60, cls=None):
    """replay a fixed label list, or generate one adaptively; compare with the model -> (case, problems, observer, info)"""
    from . import c18_replay as R
    r = R.Replay((p[0], p[1], p[2]), p[3])
    if cls is not None:
        r.obj.__class__ = cls
    obs = Observer()
    done_labels = []
    not_replayable = None
    try:
        i = 0
        while True:
            if labels is not None:
                if i >= len(labels):
                    break
                lab = labels[i]
                if lab[0] not in r.enabled():
                    not_replayable = i
                    break
            else:
                if i >= max_len:
                    break
                lab = gen_schedule_step(rng, r, done_labels)
                if lab is None:
                    break
            nb = len(r.rets)
            obs.before(r, lab)
            r.do_label(lab)
            obs.after(r, nb)
            done_labels.append(lab)
            i += 1
        obs.finish(r, variant[0])
        fin = r.final()
        pend = dict(r.sched.pending)
        state = dict(r.sched.state)
        steps = list(r.steps)
        rets = list(r.rets)
        real_obs = list(r.obj.obs)
    finally:
        r.close()
    case = dict(kind="schedule", params=[frs(x) for x in p], labels=[lab_json(l) for l in done_labels])
    # ---- model side
    mo = model.call([1, [1 if b else 0 for b in variant], params_sx(p), [R.label_sx(l) for l in done_labels]])
    problems = []
    if mo == fw.MALFORMED:
        return case, [("model-malformed", None)], obs, dict(not_replayable=not_replayable)
    tr, ms, mlog = mo
    for j, (lab, t, stp) in enumerate(zip(done_labels, tr, steps)):
        en, lpc, cpc = t
        if not en:
            problems.append(("label enabled in the real system but not in the model", j))
            break
        if lab[0] == "loop":
            exp = LPC_DESC.get(lpc)
        elif lab[0] == "call":
            exp = first_desc(lab[1], variant)
        else:
            exp = cpc_desc(cpc, variant)
        if exp != stp[1]:
            problems.append(("step %d (%s): model pc expects access %r, the real thread performed %r" % (j, lab[0], exp, stp[1]), j))
            break
    m_lpc, m_cpc = ms[0], ms[1]
    m_fin = dict(stopping=bool(ms[2]), shutdown=bool(ms[3]), stopped=bool(ms[4]),
                 interrupt=None if ms[5] == [] else bool(ms[5][0]), thread=bool(ms[6]), in_backoff=unq(ms[7]))
    r_fin = {k: fin[k] for k in m_fin}
    if m_fin != r_fin:
        problems.append(("final flags differ: model %r impl %r" % (m_fin, r_fin), None))
    loop_state = state.get("loop")
    exp_state = None if m_lpc == 0 else ("finished" if m_lpc == 17 else "parked")
    if loop_state != exp_state or (exp_state == "parked" and pend.get("loop") != LPC_DESC[m_lpc]):
        problems.append(("loop thread position differs: model %s impl %s %r" % (LPC_NAME[m_lpc], loop_state, pend.get("loop")), None))
    if m_cpc[0] == 0:
        if state["caller"] != "idle" or cret_py(m_cpc[1]) != (rets[-1] if rets else None):
            problems.append(("caller result differs: model %r impl %r %r" % (cret_py(m_cpc[1]), state["caller"], rets[-1:]), None))
    else:
        if state["caller"] != "parked" or pend.get("caller") != cpc_desc(m_cpc, variant):
            problems.append(("caller position differs: model %r impl %r %r" % (m_cpc, state["caller"], pend.get("caller")), None))
    if ev_sx_to_py(mlog) != real_obs:
        problems.append(("do/sleep/done log differs: model %r impl %r" % (ev_sx_to_py(mlog), real_obs), None))
    # ghost flags against the observer's independent bookkeeping
    if bool(ms[8]) != obs.live_final:
        problems.append(("ghost g_live differs from the observed 'final stop called on a running service'", None))
    info = dict(not_replayable=not_replayable, n_labels=len(done_labels), rets=rets, final=fin, model_lpc=m_lpc,
                g_unfin=bool(ms[9]), n_done=len([e for e in real_obs if e[0] == "done"]),
                n_do=len([e for e in real_obs if e[0] == "do"]))
    return case, problems, obs, info


def detect_variant():
    """which order/shape of stop()/wake() does the current source have? -> (swap, sticky, wake1)"""
    from . import c18_replay as R
    o = R.Controlled()
    o.caller_real = threading.current_thread()
    o.stop(forever=True, wait=False)
    writes = [d[1] for (_, d) in o.trace if d[0] == "w"]
    swap = writes.index("shutdown") < writes.index("stopping")
    o.stop(forever=False, wait=False)
    sticky = bool(o.raw("shutdown"))
    o2 = R.Controlled()
    o2.caller_real = threading.current_thread()
    o2.__dict__["_v_interrupt"] = R.EventProxy(o2)
    o2.wake()
    wake1 = len([1 for (_, d) in o2.trace if d == ("r", "interrupt")]) == 1
    return (swap, sticky, wake1)


def make_patched_class():
    """Controlled with the proposed patch of stop()/wake() (test double for the `repaired` model variant)"""
    from . import c18_replay as R
    import logging
    import threading as th

    class Patched(R.Controlled):
        def wake(self):
            interrupt = self._Runnable__interrupt
            if interrupt is None:
                return
            interrupt.set()

        def stop(self, forever=True, wait=True):
            if forever:
                self._Runnable__shutdown = True
            self._Runnable__stopping = True
            self.wake()
            thread = self._Runnable__thread
            if thread:
                if th.current_thread() != thread:
                    if wait:
                        self.wait()
    return Patched


def stream_schedules(ctx, model, variant, dist, stats, samples, mism):
    rng = ctx.sub_rng("sched")
    n_cases = 250 if ctx.quick else 8000
    hits = {}
    for i in range(n_cases):
        p = gen_params(rng)
        case, problems, obs, info = replay_case(ctx, model, variant, p, rng=rng, max_len=rng.choice([25, 40, 60, 90]))
        stats["sched_cases"] += 1
        stats["sched_steps"] += info.get("n_labels", 0)
        kinds = [l[0] if l[0] != "call" else "call_" + l[1][0] for l in case["labels"]]
        for k in kinds:
            stats["lab_" + k] = stats.get("lab_" + k, 0) + 1
        for ret in info.get("rets", []):
            stats["ret_" + ret[0]] = stats.get("ret_" + ret[0], 0) + 1
        switches = sum(1 for a, b in zip(kinds, kinds[1:]) if (a == "loop") != (b == "loop"))
        dist.add(("sched", case["labels"]), nontrivial=switches >= 2 and info.get("n_do", 0) >= 1)
        for name, d in obs.fail_true:
            ctx.violation("statement %s of the property fails on the real Runnable under a replayed schedule: %r" % (name, d),
                          dict(case, law=name))
        for name, d in obs.fail_full:
            hits[name] = hits.get(name, 0) + 1
        for what, j in problems[:1]:
            mism.append(("schedule", case, what, None))
        if i < 2:
            samples.append(dict(stream="schedule", labels=case["labels"][:30], returns=info.get("rets"), done_calls=info.get("n_done")))
    stats["random_schedules_exhibiting_a_refuted_full_strength_statement"] = hits
    # the proposed patch as a test double against the `repaired` model variant (informative, not a verdict)
    patched = make_patched_class()
    rng = ctx.sub_rng("patched")
    pm = 0
    pfull = {}
    n_p = 60 if ctx.quick else 2000
    for i in range(n_p):
        p = gen_params(rng)
        case, problems, obs, info = replay_case(ctx, model, (True, True, True), p, rng=rng, max_len=60, cls=patched)
        pm += 1 if problems else 0
        for name, d in obs.fail_true + obs.fail_full:
            pfull[name] = pfull.get(name, 0) + 1
    stats["patched_double"] = dict(schedules=n_p, mismatches_vs_repaired_model=pm, statement_failures=pfull)


# ------------------------------------------------------------------ (iii) notifications
def make_nm_class():
    from cloudsync.notification import NotificationManager

    class NM(NotificationManager):
        """real NotificationManager; interruptable_sleep virtual when self.virtual"""
        virtual = True

        def interruptable_sleep(self, secs):
            if self.virtual:
                self.events.append(("sleep", F(secs)))
            else:
                super().interruptable_sleep(secs)

        def done(self):
            self.events.append(("done",))
    return NM


def nm_single(ctx, nmodel, dist, stats, samples, mism):
    """single-thread runs: queue filled first, then run() until the marker; compared with NotifyModel"""
    from cloudsync.notification import Notification, NotificationType, SourceEnum
    NM = make_nm_class()
    rng = ctx.sub_rng("notify")
    n_cases = 250 if ctx.quick else 8000
    ntypes = list(NotificationType)
    reqs, reals, cases = [], [], []
    for i in range(n_cases):
        p = gen_params(rng)
        n = rng.choice([0, 1, 2, 3, 5, 8, 13, 30])
        items = []
        for k in range(n):
            r = rng.random()
            items.append(None if r < 0.12 else (k, 0 if r < 0.6 else (1 if r < 0.9 else 2)))
        items.append(None)
        events = []

        def handler(e, events=events):
            k, h = e.tag
            events.append(("deliver", k))
            if h == 1:
                raise EXC_CLASSES[k % len(EXC_CLASSES)]("handler failed")
            if h == 2:
                raise BASE_CLASSES[k % len(BASE_CLASSES)]()
        nm = NM(handler)
        nm.events = events
        nm.min_backoff, nm.max_backoff, nm.mult_backoff = p[0], p[1], p[2]
        for it in items:
            if it is None:
                nm._NotificationManager__queue.put(None)      # what NotificationManager.stop() puts
            else:
                e = Notification(rng.choice(list(SourceEnum)), rng.choice(ntypes), "/p%d" % it[0])
                e.tag = it
                nm.notify(e)
        rest = list(items)
        runs = 0
        bk = F(0)
        while rest:
            before = len(events)
            try:
                nm.run(sleep=p[3])
            except BaseException as e:
                ctx.violation("NotificationManager.run raised %r" % (e,), dict(kind="notify", items=items, exc=repr(e)))
                break
            reqs.append([0, params_sx(p), qx(bk), [[] if it is None else [it[0], it[1]] for it in rest]])
            consumed = len([e for e in events[before:] if e[0] == "deliver"]) + 1
            reals.append((events[before:], F(nm.in_backoff), len(rest) - consumed))
            cases.append(dict(kind="notify", params=[frs(x) for x in p], items=[list(it) if it else None for it in rest]))
            rest = rest[consumed:]
            bk = F(nm.in_backoff)
            runs += 1
        stats["nm_cases"] += 1
        stats["nm_runs"] += runs
        stats["nm_items"] += len(items)
        stats["nm_handler_raises"] += len([1 for it in items if it and it[1]])
        # the statements of the property on the real behaviour
        got = [e[1] for e in events if e[0] == "deliver"]
        want = [it[0] for it in items if it is not None]
        if got != want:
            ctx.violation("fifo_exactly_once_in_order fails on the real NotificationManager: raised %r delivered %r" % (want, got),
                          dict(kind="notify", items=[list(it) if it else None for it in items], law="fifo_exactly_once_in_order"))
        dist.add(("nm", tuple(items)), nontrivial=len(want) >= 2 and any(it and it[1] for it in items))
        if i < 2:
            samples.append(dict(stream="notify", items=[list(it) if it else None for it in items], delivered=got))
    outs = nmodel.batch(reqs)
    for case, mo, (ev, bk, nrest) in zip(cases, outs, reals):
        if mo == fw.MALFORMED:
            mism.append(("notify", case, "model: malformed", None))
            continue
        mev = []
        for e in mo[0]:
            if e[0] == 0:
                mev.append(("deliver", e[1]))
            elif e[0] == 1:
                mev.append(("sleep", unq(e[1])))
        if mev != ev or unq(mo[1]) != bk or mo[2] != nrest or mo[3] != 0:
            mism.append(("notify", case, dict(model=repr(mev), bk=frs(unq(mo[1])), rest=mo[2], blocked=mo[3]),
                         dict(impl=repr(ev), bk=frs(bk), rest=nrest)))


def nm_restart(ctx, stats):
    """real threads, DETERMINISTIC schedules (the service's queue is replaced by one that signals when the service thread
    is blocked in get(); the handler can be held on an event): the notification service is stopped without finality
    (stop(forever=False), what CloudSync.stop(forever=False) does to it) and started again, one to three times; every
    notification raised before, while stopped and after the restarts must be delivered exactly once, in order, and the
    restarted service must stay up until somebody stops it.
      kind "idle": stop() arrives while the service thread waits in get() for the next item (the normal case);
      kind "busy": stop(wait=False) arrives while the handler is still running, then the handler returns, then wait()."""
    import queue as _queue
    from cloudsync.notification import Notification, NotificationType, SourceEnum
    NM = make_nm_class()
    rng = ctx.sub_rng("nmrestart")
    stats.setdefault("nmrestart_cases", 0)
    stats.setdefault("nmrestart_notifications", 0)
    stats.setdefault("nmrestart_inconclusive", 0)

    class WatchQueue(_queue.Queue):
        def __init__(self):
            super().__init__()
            self.in_get = threading.Event()

        def get(self, block=True, timeout=None):
            if self.empty():
                self.in_get.set()
            try:
                return super().get(block, timeout)
            finally:
                self.in_get.clear()

    plans = [("idle", 1, 0), ("idle", 2, 1), ("idle", 3, 2), ("busy", 1, 0), ("busy", 2, 1)]
    if not ctx.quick:
        plans = plans + [(k, c, w) for k in ("idle", "busy") for c in (1, 2, 3) for w in (0, 1, 2)]
    for (kind, cycles, while_stopped) in plans:
        delivered = []
        cond = threading.Condition()
        hold = threading.Event()
        hold.set()
        in_handler = threading.Event()

        def handler(e):
            in_handler.set()
            hold.wait(30)
            in_handler.clear()
            with cond:
                delivered.append(e.tag)
                cond.notify_all()
        nm = NM(handler)
        nm.virtual = False
        nm.events = []
        wq = WatchQueue()
        nm._NotificationManager__queue = wq
        raised = []

        def raise_n(k):
            for _ in range(k):
                e = Notification(SourceEnum.SYNC, NotificationType.TEMPORARY_ERROR, None)
                e.tag = len(raised)
                raised.append(e.tag)
                nm.notify(e)

        def wait_all(timeout=20.0):
            with cond:
                return cond.wait_for(lambda: len(delivered) >= len(raised), timeout)
        case = dict(kind="nm_restart", schedule=kind, cycles=cycles, raised_while_stopped=while_stopped,
                    law="fifo_exactly_once_in_order across a non-final stop and restart")
        nm.start(sleep=0.0001)
        raise_n(2)
        ok = wait_all()
        inconclusive = False
        for c in range(cycles):
            if not ok:
                break
            if kind == "idle":
                if not wq.in_get.wait(20):
                    inconclusive = True
                    break
                nm.stop(forever=False)
            else:
                hold.clear()
                raise_n(1)
                if not in_handler.wait(20):
                    inconclusive = True
                    hold.set()
                    break
                nm.stop(forever=False, wait=False)      # the service thread is inside the handler, not in get()
                hold.set()
                nm.wait(20)
            raise_n(while_stopped)
            nm.start(sleep=0.0001)
            raise_n(2)
            ok = wait_all()
        up = bool(nm.started)
        hold.set()
        nm.stop(forever=True)
        stats["nmrestart_cases"] += 1
        stats["nmrestart_notifications"] += len(raised)
        if inconclusive:
            stats["nmrestart_inconclusive"] += 1
            continue
        if not ok or delivered != raised:
            ctx.violation("notifications lost or reordered across stop(forever=False) + start() [%s]: raised %r delivered %r "
                          "(service still up afterwards: %s)" % (kind, raised, delivered, up), case)
        elif not up:
            ctx.violation("the notification service stopped by itself after a restart although nobody called stop() [%s]" % kind, case)


def nm_threads(ctx, stats):
    """real threads: producers raise notifications while the service runs; predicates only (prefix / exact)"""
    from cloudsync.notification import Notification, NotificationType, SourceEnum
    NM = make_nm_class()
    rng = ctx.sub_rng("nmthreads")
    n_cases = 12 if ctx.quick else 150
    for i in range(n_cases):
        n_prod = rng.choice([1, 1, 2, 3])
        per = rng.choice([1, 3, 8, 15])
        total = n_prod * per
        early_stop = rng.random() < 0.4
        fail = {(a, b) for a in range(n_prod) for b in range(per) if rng.random() < 0.3}
        delivered = []
        all_in = threading.Event()
        active = []

        def handler(e):
            active.append(1)
            if len(active) != 1:
                delivered.append(("overlap",))
            delivered.append(e.tag)
            active.pop()
            if len([d for d in delivered if d != ("overlap",)]) >= total:
                all_in.set()
            if e.tag in fail:
                raise ValueError("handler failed")
        nm = NM(handler)
        nm.virtual = False
        nm.events = []
        nm.start(sleep=0.0001)

        def produce(a):
            for b in range(per):
                e = Notification(SourceEnum.SYNC, NotificationType.TEMPORARY_ERROR, None)
                e.tag = (a, b)
                nm.notify(e)
        ts = [threading.Thread(target=produce, args=(a,)) for a in range(n_prod)]
        for t in ts:
            t.start()
        for t in ts:
            t.join(60)
        if not early_stop and total and not all_in.wait(60):
            ctx.violation("notifications were not delivered within 60 s: %d of %d" % (len(delivered), total),
                          dict(kind="nm_threads", n_prod=n_prod, per=per, law="fifo_exactly_once_in_order"))
        nm.stop(forever=True)
        stats["nmthr_cases"] += 1
        stats["nmthr_notifications"] += total
        stats["nmthr_early_stop"] += 1 if early_stop else 0
        case = dict(kind="nm_threads", n_prod=n_prod, per=per, early_stop=early_stop, delivered=[list(d) for d in delivered])
        if ("overlap",) in delivered:
            ctx.violation("two handler calls overlapped", dict(case, law="one_at_a_time"))
        if len(set(delivered)) != len(delivered):
            ctx.violation("a notification was delivered twice", dict(case, law="fifo_exactly_once_in_order"))
        for a in range(n_prod):
            mine = [d[1] for d in delivered if d[0] == a]
            if mine != list(range(len(mine))):
                ctx.violation("notifications of one producer delivered out of order or with a gap: %r" % (mine,),
                              dict(case, law="fifo_exactly_once_in_order"))
            if not early_stop and len(mine) != per:
                ctx.violation("notification lost: producer %d delivered %d of %d" % (a, len(mine), per),
                              dict(case, law="fifo_exactly_once_in_order"))
        if len([e for e in nm.events if e == ("done",)]) > 1:
            ctx.violation("done() ran twice", dict(case, law="cleanup_at_most_once"))


# ------------------------------------------------------------------ corpus (witnesses of the refuted statements)
def corpus_cases():
    out = []
    for f in sorted(glob.glob(os.path.join(CORPUS, "*.json"))):
        out.append((os.path.basename(f), json.load(open(f))))
    return out


def run_corpus(ctx, model, variant, stats, mism):
    for name, case in corpus_cases():
        if case.get("kind") != "schedule":
            continue
        p = tuple(unfrs(x) for x in case["params"])
        labels = [lab_from_json(j) for j in case["labels"]]
        c2, problems, obs, info = replay_case(ctx, model, variant, p, labels=labels)
        stats["corpus_cases"] += 1
        if info.get("not_replayable") is not None:
            stats["corpus_not_replayable"] = stats.get("corpus_not_replayable", 0) + 1
            ctx.notes.append("corpus witness %s: label %d is not enabled in the current code (the source changed)" % (name, info["not_replayable"]))
            continue
        for what, j in problems[:1]:
            mism.append(("corpus " + name, case, what, None))
        failed = obs.fail_true + obs.fail_full
        stats.setdefault("corpus_results", {})[name] = [f[0] for f in failed]
        for law, d in failed:
            ctx.violation("%s fails on the real Runnable under the witness schedule %s (model: PropC18 %s_refuted): %r; "
                          "returns %r, done() calls %d" % (law, name, law, d, info["rets"], info["n_done"]), case)


# ------------------------------------------------------------------ entry
def run(ctx):
    envfix.install()
    g = ctx.coq_gate("PropC18")
    dist = fw.Distinct()
    stats = dict(seq_cases=0, seq_regular=0, seq_malformed=0, seq_float_mode=0, seq_max_consecutive_failures=0,
                 seq_reached_max=0, sched_cases=0, sched_steps=0, nm_cases=0, nm_runs=0, nm_items=0, nm_handler_raises=0,
                 nmthr_cases=0, nmthr_notifications=0, nmthr_early_stop=0, corpus_cases=0)
    samples, mism = [], []
    if g is not None:
        model = fw.ModelProc("loop")
        nmodel = fw.ModelProc("notify")
        variant = detect_variant()
        stats["source_variant"] = dict(shutdown_assigned_before_stopping=variant[0], shutdown_sticky=variant[1],
                                       wake_reads_interrupt_once=variant[2])
        run_corpus(ctx, model, variant, stats, mism)
        stream_seq(ctx, model, dist, stats, samples, mism)
        stream_schedules(ctx, model, variant, dist, stats, samples, mism)
        nm_single(ctx, nmodel, dist, stats, samples, mism)
        nm_threads(ctx, stats)
        nm_restart(ctx, stats)
        stats["model_calls"] = model.calls + nmodel.calls
        model.close()
        nmodel.close()
        for (label, case, mo, io) in mism[:5]:
            ctx.violation("model and implementation differ (%s): %s / %s" % (label, str(mo)[:300], str(io)[:300]),
                          dict(kind="correspondence", stream=label, case=case, model=mo, impl=io),
                          no_input=not any(v for v in ctx.violations if not v[2]),
                          theorem="correspondence LoopModel.run / NotifyModel.run vs cloudsync.runnable / cloudsync.notification")
        stats["mismatches"] = len(mism)
    cov = ctx.coverage
    cov["evaluations"] = dist.total + stats["nmthr_cases"] + stats["corpus_cases"]
    cov["distinct_nontrivial"] = dist.nontrivial
    cov["rule"] = ("sequential: random outcome lists (did / no-op / backoff() / 9 Exception classes / 4 BaseException classes / "
                   "stop from inside do) x exact Fraction parameter 4-tuples, non-trivial = at least one failure outcome; "
                   "schedules: adaptively generated interleavings of the loop thread and one caller thread "
                   "(start/stop/wake/wait), replayed access by access on real threads, non-trivial = at least two thread "
                   "switches and one do(); notifications: queues with stop markers and failing handlers, non-trivial = "
                   "two or more notifications and a failing handler; distinct = distinct canonical cases")
    cov["exhaustive"] = False
    cov["samples"] = samples[:8]
    cov["streams"] = stats
    cov["traces_validated_against_impl"] = stats.get("model_calls", 0)
    cov["notes"] = ctx.notes
    tb = ["Coq 8.16.1 kernel (coqc); vm_compute used only for the ..._refuted witnesses and the Examples; no native_compute",
          "axioms per theorem as printed by Print Assumptions: " + (", ".join(cov.get("axioms_used", [])) or "none (closed under the global context)"),
          "extraction: ExtrOcamlBasic only; OCaml 4.13.1; coq/ocaml/driver.ml; rationals cross the wire as sign + base-2^30 limbs",
          "atomicity assumption of the two-thread model: one step = one access of a private attribute that the other thread "
          "also accesses (CPython attribute loads/stores are atomic under the GIL); accesses of attributes only one thread "
          "writes and nobody else reads are merged into the neighbouring step; one caller thread",
          "replay harness harness/checks/c18_replay.py: properties over the name-mangled attributes, Event/Thread proxies, "
          "virtual time (Event.wait returns its flag at once, a timed join expires at once)",
          "modelled, not verified: threading.Event/Thread/queue.Queue, the OS scheduler (fairness, when a sleeping loop wakes), "
          "time_helper's timeout, floating point rounding of the backoff product for parameters that are not exactly representable"]
    return ctx.finish(tb)
