"""C13 — path algebra.  Theorems: coq/theories/PropC13.v about PathModel.v.
Tie: the extracted model vs the real helpers on exhaustive small strings + random long paths,
for four conventions (case x win_paths) plus a no-alt-sep one; the laws of the property are
also evaluated directly on the real helpers (that is the search for a failing input)."""
import itertools
import json
import os
import types

from .. import build, envfix, framework as fw, translator

ALPHABET = ["/", "\\", "a", "A", "b", ".", " ", ":", "\u00e9", "\u00c9"]
CORE = ["/", "\\", "a", "A", ":", "."]       # thorough tier: longer pairs / triples over this sub-alphabet
EXTRA = ["\u4e2d", "\u00df", "z", "Z", "-", "_", "c", "C", "1"]   # used by the long random stream


def make_prov(cs, win, alt="\\"):
    from cloudsync.providers.mock import MockProvider
    cls = type("P_%s_%s_%s" % (cs, win, bool(alt)), (MockProvider,), dict(win_paths=win, alt_sep=alt))
    return cls(oid_is_path=False, case_sensitive=cs)


def conv_sx(cs, win, alt="\\"):
    return [ord("/"), [ord(alt)] if alt else [], 1 if cs else 0, 1 if win else 0]


def canon_sub(v):
    if v is False:
        return [0]
    if isinstance(v, str):
        return [1, [ord(c) for c in v]]
    return ["?", repr(v)]


def S(s):
    return [ord(c) for c in s]


class Impl:
    """the real helpers, results canonicalised like the model's"""

    def __init__(self, prov):
        self.p = prov

    def guard(self, f):
        try:
            return f()
        except IndexError:
            return [2]
        except ValueError:
            return [1]

    def nps(self, s):
        return self.guard(lambda: S(self.p.normalize_path_separators(s)))

    def join(self, parts):
        return self.guard(lambda: [0, S(self.p.join(*parts))])

    def split(self, s):
        def f():
            d, b = self.p.split(s)
            return [S(d), S(b)]
        return self.guard(f)

    def norm(self, s, disp):
        return self.guard(lambda: [0, S(self.p.normalize_path(s, disp))])

    def sub(self, f, t, strict):
        return self.guard(lambda: canon_sub(self.p.is_subpath(f, t, strict)))

    def rep(self, p, f, t):
        return self.guard(lambda: [0, S(self.p.replace_path(p, f, t))])

    def match(self, a, b, disp):
        return self.guard(lambda: [0, 1 if self.p.paths_match(a, b, disp) else 0])


def translate_impl(provs, roots, side, path):
    from cloudsync.cs import CloudSync
    fake = types.SimpleNamespace(roots=roots, providers=provs)
    try:
        r = CloudSync.translate(fake, side, path)
    except IndexError:
        return [2]
    return [0, [] if r is None else [S(r)]]


# ------------------------------------------------------------------ laws on the real code
# Each law below mirrors one theorem of coq/theories/PropC13.v (same name after "C13_"), with the same
# hypotheses as guards.  They are evaluated on the real helpers: that is the search for a failing input.
LAW_HITS = {}     # law -> number of inputs on which its hypotheses held (so the conclusion was evaluated)


def hit(law):
    LAW_HITS[law] = LAW_HITS.get(law, 0) + 1


def nps_of(p, s):
    return p.normalize_path_separators(s)


def abs_path(p, s):
    """PathLaws.abs_path: the separator-normalised string starts with the separator"""
    x = nps_of(p, s)
    return bool(x) and x[0] == p.sep


def dl(p, j):
    """PathLaws.dl: the drive-letter exception of join"""
    return bool(p.win_paths) and j[1:2] == ":"


def pc(p, s):
    """PathLaws.pc: components of a path"""
    x = s.replace(p.alt_sep, p.sep) if p.alt_sep else s
    return [c for c in x.split(p.sep) if c]


def per_char_lower(s):
    """the theorems model str.lower() as a per-character fold (fold_ok); True when that reading is exact for s"""
    return len(s.lower()) == len(s) and all(a.lower() == b for a, b in zip(s, s.lower()))


def lowk(p, l):
    """PathLaws.lowk"""
    return l if p.case_sensitive else [c.lower() for c in l]


def laws_unary(p, s, twin=None):
    """-> list of (law, detail) violated by the real helpers on string s."""
    bad = []
    try:
        x = nps_of(p, s)
        hit("nps_idem")
        if nps_of(p, x) != x:
            bad.append(("nps_idem", dict(s=s)))
        for disp in (False, True):
            n = p.normalize_path(s, disp)
            hit("normalize_idem"), hit("match_normalize"), hit("split_join"), hit("match_refl")
            if p.normalize_path(n, disp) != n:
                bad.append(("normalize_idem", dict(s=s, disp=disp, n=n, nn=p.normalize_path(n, disp))))
            if not p.paths_match(n, s, disp):
                bad.append(("match_normalize", dict(s=s, disp=disp, n=n)))
            d, b = p.split(s)
            if not p.paths_match(p.join(d, b), s, disp):
                bad.append(("split_join", dict(s=s, d=d, b=b, j=p.join(d, b), disp=disp)))
            if not p.paths_match(s, s, disp):
                bad.append(("match_refl", dict(s=s, disp=disp)))
        if p.case_sensitive:
            # match_case_sensitive: equality is equality of components
            pass
        elif per_char_lower(s):
            hit("match_case"), hit("display_keeps_leaf"), hit("display_same_class")
            if not p.paths_match(s, s.lower()):
                bad.append(("match_case", dict(s=s)))
            nd = p.normalize_path(s, True)
            # display mode keeps the leaf's case (compare with the case-sensitive twin) ...
            if twin is not None and p.basename(nd) != twin.basename(twin.normalize_path(s)):
                bad.append(("display_keeps_leaf", dict(s=s, nd=nd)))
            # ... and folds to the plain normal form
            if nd.lower() != p.normalize_path(s) or p.normalize_path(nd) != p.normalize_path(s):
                bad.append(("display_same_class", dict(s=s, nd=nd)))
    except Exception as e:  # a helper that raises breaks "laws hold for all paths"
        bad.append(("total", dict(s=s, exc=repr(e))))
    return bad


def laws_binary(p, f, r):
    bad = []
    try:
        m = {}
        for disp in (False, True):
            m1 = m[disp] = p.paths_match(f, r, disp)
            hit("match_sym"), hit("match_iff_norm")
            if m1 != p.paths_match(r, f, disp):
                bad.append(("match_sym", dict(a=f, b=r, disp=disp)))
            if m1 != (p.normalize_path(f, disp) == p.normalize_path(r, disp)):
                bad.append(("match_iff_norm", dict(a=f, b=r, disp=disp)))
        if m[True]:
            hit("match_display_plain")
            if not m[False]:
                bad.append(("match_display_plain", dict(a=f, b=r)))
        if p.case_sensitive:
            hit("match_case_sensitive")
        elif per_char_lower(f) and per_char_lower(r):
            hit("match_iff_components")
        if p.case_sensitive and m[False] != (pc(p, f) == pc(p, r)):
            bad.append(("match_case_sensitive", dict(a=f, b=r)))
        if not p.case_sensitive and per_char_lower(f) and per_char_lower(r) and \
                m[False] != (lowk(p, pc(p, f)) == lowk(p, pc(p, r))):
            bad.append(("match_iff_components", dict(a=f, b=r)))
        # join_inside / join_inside_exact: a folder joined with a relative part is inside the folder,
        # with that relative part.  Hypotheses: abs_path f, strip(nps r) non-blank, not the drive-letter form.
        rel = nps_of(p, r).strip(p.sep)
        if abs_path(p, f) and rel:
            j = p.join(f, r)
            if not dl(p, j):
                hit("join_inside"), hit("join_inside_exact")
                for strict in (False, True):
                    got = p.is_subpath(f, j, strict)
                    if got != p.sep + rel:
                        bad.append(("join_inside_exact", dict(f=f, r=r, j=j, got=got, strict=strict)))
                    if not got or not p.paths_match(got, r) or not p.paths_match(got, r, True):
                        bad.append(("join_inside", dict(f=f, r=r, j=j, got=got, strict=strict)))
        # prefix_sibling: a path that only shares a name prefix with the folder is not inside it
        ff = nps_of(p, f)
        if ff and ff != p.sep and r and r[0] != p.sep and r[0] != (p.alt_sep or None):
            sib = ff + r
            hit("prefix_sibling")
            for strict in (False, True):
                if p.is_subpath(f, sib, strict):
                    bad.append(("prefix_sibling", dict(f=f, sib=sib, got=p.is_subpath(f, sib, strict))))
        # subpath_strict / subpath_nonstrict: strict excludes equality only
        g = p.is_subpath(f, r)
        gs = p.is_subpath(f, r, strict=True)
        if gs:
            hit("subpath_strict")
        if g:
            hit("subpath_nonstrict")
        if gs and gs != g:
            bad.append(("subpath_strict", dict(f=f, t=r)))
        if g and not gs and g != p.sep:
            bad.append(("subpath_nonstrict", dict(f=f, t=r, g=g)))
        if g == "":
            bad.append(("subpath_rel_nonempty", dict(f=f, t=r)))
        # subpath_components: inside = components of the folder followed by those of the relative part
        if g and (p.case_sensitive or (per_char_lower(f) and per_char_lower(r))):
            hit("subpath_components")
            if lowk(p, pc(p, r)) != lowk(p, pc(p, f)) + lowk(p, pc(p, g)):
                bad.append(("subpath_components", dict(f=f, t=r, g=g)))
    except Exception as e:
        bad.append(("total", dict(f=f, r=r, exc=repr(e))))
    return bad


def laws_ternary(p, path, f, t):
    bad = []
    try:
        rel = p.is_subpath(f, path)
        try:
            out = p.replace_path(path, f, t)
        except ValueError:
            out = None
        hit("replace_iff_sub")
        if bool(rel) != (out is not None):
            bad.append(("replace_iff_sub", dict(path=path, f=f, t=t)))
        if rel and out is not None:
            exp = nps_of(p, t) + (rel if rel != p.sep else "")
            hit("replace_moves_rel")
            if out != exp:
                bad.append(("replace_moves_rel", dict(path=path, f=f, t=t, out=out, exp=exp)))
            if rel != p.sep and t:
                back = p.is_subpath(t, out)
                hit("replace_lands_inside_equiv")
                if nps_of(p, t) != p.sep:
                    hit("replace_lands_inside")
                # replace_lands_inside: exactly the same relative part unless the new folder is the root
                if nps_of(p, t) != p.sep and back != rel:
                    bad.append(("replace_lands_inside", dict(path=path, f=f, t=t, out=out, back=back, rel=rel)))
                # replace_lands_inside_equiv: always inside, with the same components
                if not back or pc(p, back) != pc(p, rel):
                    bad.append(("replace_lands_inside_equiv", dict(path=path, f=f, t=t, out=out, back=back, rel=rel)))
        # transitivity of paths_match
        for disp in (False, True):
            if p.paths_match(path, f, disp) and p.paths_match(f, t, disp):
                hit("match_trans")
            if p.paths_match(path, f, disp) and p.paths_match(f, t, disp) and not p.paths_match(path, t, disp):
                bad.append(("match_trans", dict(a=path, b=f, c=t, disp=disp)))
    except Exception as e:
        bad.append(("total", dict(path=path, f=f, t=t, exc=repr(e))))
    return bad


def laws_translate(provs, roots, path):
    """translate_outside / _inside / _lands_inside / _roundtrip, in both directions:
    path is taken as a path of side `frm`, translated to side `to` and back."""
    from cloudsync.cs import CloudSync
    fake = types.SimpleNamespace(roots=roots, providers=provs)
    bad = []
    for to in (1, 0):
        frm = 1 - to
        try:
            inside = provs[frm].is_subpath(roots[frm], path)
            there = CloudSync.translate(fake, to, path)
            if not inside:
                hit("translate_outside")
                if there is not None:
                    bad.append(("translate_outside", dict(path=path, to=to, there=there)))
                continue
            if there is None:
                bad.append(("translate_inside", dict(path=path, to=to)))
                continue
            hit("translate_inside")
            if there != provs[to].join(roots[to], inside):
                bad.append(("translate_inside", dict(path=path, to=to, there=there)))
            if abs_path(provs[to], roots[to]) and not dl(provs[to], there):
                hit("translate_lands_inside")
                if not provs[to].is_subpath(roots[to], there):
                    bad.append(("translate_lands_inside", dict(path=path, to=to, there=there)))
            # hypotheses of translate_roundtrip: same separators, absolute roots, not the drive-letter form
            if (abs_path(provs[0], roots[0]) and abs_path(provs[1], roots[1]) and not dl(provs[to], there)
                    and provs[0].sep == provs[1].sep and provs[0].alt_sep == provs[1].alt_sep):
                back = CloudSync.translate(fake, frm, there)
                hit("translate_roundtrip")
                if back is None or not provs[frm].paths_match(back, path):
                    bad.append(("translate_roundtrip", dict(path=path, to=to, there=there, back=back)))
        except Exception as e:
            bad.append(("total", dict(path=path, to=to, exc=repr(e))))
    return bad


MALFORMED_ALPHABET = ["/", "a", "A", "\u03a3", "\u0130", "\u00df", ":"]     # Sigma, I-with-dot, sharp s


def laws_beyond_fold(p, s, twin):
    """The case laws WITHOUT the per-character-fold guard, for strings on which str.lower() is not a
    per-character fold (outside fold_ok, so outside the theorems): the property still says "all paths"."""
    bad = []
    try:
        for disp in (False, True):
            n = p.normalize_path(s, disp)
            if p.normalize_path(n, disp) != n:
                bad.append(("normalize_idem", dict(s=s, disp=disp, n=n, nn=p.normalize_path(n, disp))))
        if not p.paths_match(s, s.lower()):
            bad.append(("match_case", dict(s=s, lower=s.lower())))
        nd = p.normalize_path(s, True)
        if p.basename(nd) != twin.basename(twin.normalize_path(s)):
            bad.append(("display_keeps_leaf", dict(s=s, nd=nd)))
        if p.normalize_path(nd) != p.normalize_path(s):
            bad.append(("display_same_class", dict(s=s, nd=nd)))
    except Exception as e:
        bad.append(("total", dict(s=s, exc=repr(e))))
    return bad


def fold_sweep():
    """fold_ok against str.lower() for every code point: per-character, idempotent, and exactly the
    separators / ':' map to themselves.  -> (checked, exceptions, failures)"""
    special = ["/", "\\", ":"]
    exceptions, failures, checked = [], [], 0
    for c in range(0x110000):
        if 0xD800 <= c <= 0xDFFF:
            continue
        ch = chr(c)
        lo = ch.lower()
        checked += 1
        if len(lo) != 1:
            exceptions.append(c)        # not a per-character fold: outside the theorems' hypothesis
            if any(x in lo for x in special):
                failures.append((c, "multi-character lower() contains a separator"))
            continue
        if lo.lower() != lo:
            failures.append((c, "lower not idempotent"))
        for x in special:
            if (lo == x) != (ch == x):
                failures.append((c, "lower maps to/from %r" % x))
    return checked, exceptions, failures


def strings_upto(n, alphabet=ALPHABET):
    for k in range(n + 1):
        for t in itertools.product(alphabet, repeat=k):
            yield "".join(t)


def random_path(rng, p):
    letters = ALPHABET[2:] + EXTRA
    comps = []
    for _ in range(rng.randint(1, 8)):
        comps.append("".join(rng.choice(letters) for _ in range(rng.randint(1, 7))))
    seps = ["/", "/", "/", "//", "\\", "/\\/"]
    s = ""
    if rng.random() < 0.8:
        s += rng.choice(["/", "/", "//", "\\"])
    elif rng.random() < 0.5:
        s += rng.choice(["c:", "C:\\", "c:/"])
    for i, c in enumerate(comps):
        s += c
        if i + 1 < len(comps):
            s += rng.choice(seps)
    if rng.random() < 0.3:
        s += rng.choice(["/", "//", "\\"])
    return s[:60]


def regenerate(ctx, stats):
    """second tie: rewrite coq/theories/GenPath.v from the current source of the four helpers (fail-closed)"""
    path = os.path.join(build.THEORIES, "GenPath.v")
    cls = type(make_prov(True, False))
    try:
        text = translator.generate(cls)
    except translator.Untranslatable as e:
        stats["translator"] = "untranslatable"
        ctx.violation("the source of a path helper left the translator's whitelist (%s); GenPath.v is stale, so the "
                      "equalities C13_gen_* say nothing about the current source" % e,
                      dict(kind="translator", error=str(e)), no_input=True,
                      theorem="second tie: C13_gen_nps/C13_gen_split/C13_gen_is_subpath/C13_gen_replace_path")
        return
    old = open(path, encoding="utf-8").read() if os.path.exists(path) else None
    if old != text:
        with open(path, "w", encoding="utf-8") as f:
            f.write(text)
        stats["translator"] = "GenPath.v regenerated (source differs from the committed translation)"
    else:
        stats["translator"] = "GenPath.v unchanged"
    stats["translated_functions"] = [f[0] for f in translator.FUNCS]


def run(ctx):
    envfix.install()
    pre = {}
    regenerate(ctx, pre)
    g = ctx.coq_gate("PropC13")
    LAW_HITS.clear()
    dist = fw.Distinct()
    stats = dict(unary=0, binary=0, ternary=0, translate=0, long=0, laws_checked=0, fold_alphabet_ok=0)
    stats.update(pre)
    samples = []
    # when the proofs no longer check (e.g. the regenerated definitions changed) the search for a failing
    # input still runs, against the last model executable that was built
    if g is not None or os.path.exists(os.path.join(build.BIN, "path")):
        model = fw.ModelProc("path")
        quick = ctx.quick
        U, B, T = (4, 2, 1) if quick else (5, 3, 2)
        NLONG = 2000 if quick else 30000
        confs = [(True, False, "\\"), (False, False, "\\"), (True, True, "\\"), (False, True, "\\"), (False, False, None)]
        # fold hypothesis tie: chr(c).lower() == chr(fold_std c) on every character the streams use
        probe = model.batch([[3, conv_sx(False, False), [ord(c)], 0] for c in ALPHABET + EXTRA])
        for c, r in zip(ALPHABET + EXTRA, probe):
            # normalize_path(c) for a non-separator c is "/" + lower(c)
            if c not in "/\\":
                if r != [0, [47] + [ord(x) for x in c.lower()]]:
                    ctx.violation("model case fold differs from str.lower() on %r" % c,
                                  dict(kind="fold", char=c), no_input=True, theorem="fold_std hypothesis")
                else:
                    stats["fold_alphabet_ok"] += 1
        # fold_ok against str.lower() on every code point (the hypothesis of the case-insensitive theorems)
        checked, multichar, fails = fold_sweep()
        stats["fold_sweep_code_points"] = checked
        stats["fold_sweep_not_per_character"] = ["U+%04X" % c for c in multichar]
        stats["fold_sweep_failures"] = len(fails)
        for c, why in fails[:5]:
            ctx.violation("str.lower() breaks the fold hypothesis of the C13 theorems at U+%04X: %s" % (c, why),
                          dict(kind="fold_ok", code_point=c, why=why), no_input=True, theorem="fold_ok hypothesis")
        mismatches = []

        def compare(reqs, impl_results, label):
            outs = model.batch([r for r in reqs])
            for rq, mo, io in zip(reqs, outs, impl_results):
                if mo != io:
                    mismatches.append((label, rq, mo, io))

        # ---- corpus first: boundary cases and the witnesses of the refuted statements, on every convention
        corpus = {}
        cdir = os.path.join(fw.VERIF, "corpus", "C13")
        for fn in sorted(os.listdir(cdir)) if os.path.isdir(cdir) else []:
            if fn.endswith(".json"):
                for k, v in json.load(open(os.path.join(cdir, fn), encoding="utf-8")).items():
                    if not k.startswith("_"):
                        corpus.setdefault(k, []).extend(v)
        stats["corpus"] = {k: len(v) for k, v in corpus.items()}

        def report(found, cs, win, alt):
            for law, d in found:
                ctx.violation("law %s fails on the real helpers: %r" % (law, d),
                              dict(kind="law", law=law, conv=[cs, win, alt], detail=d))

        for (cs, win, alt) in confs:
            p = make_prov(cs, win, alt)
            twin = make_prov(True, win, alt)
            im = Impl(p)
            cv = conv_sx(cs, win, alt)
            reqs, res = [], []
            for a in corpus.get("u", []):
                reqs += [[0, cv, S(a)], [1, cv, [S(a)]], [2, cv, S(a)], [3, cv, S(a), 0], [3, cv, S(a), 1]]
                res += [im.nps(a), im.join([a]), im.split(a), im.norm(a, False), im.norm(a, True)]
                report(laws_unary(p, a, twin), cs, win, alt)
                dist.add(("cu", cs, win, alt, a), nontrivial=bool(a))
            for (a, b) in corpus.get("b", []):
                reqs += [[4, cv, S(a), S(b), 0], [4, cv, S(a), S(b), 1], [6, cv, S(a), S(b), 0], [6, cv, S(a), S(b), 1], [1, cv, [S(a), S(b)]]]
                res += [im.sub(a, b, False), im.sub(a, b, True), im.match(a, b, False), im.match(a, b, True), im.join([a, b])]
                report(laws_binary(p, a, b), cs, win, alt)
                dist.add(("cb", cs, win, alt, a, b), nontrivial=bool(a) and bool(b))
            for (a, b, c) in corpus.get("t", []):
                reqs.append([5, cv, S(a), S(b), S(c)])
                res.append(im.rep(a, b, c))
                report(laws_ternary(p, a, b, c), cs, win, alt)
                dist.add(("ct", cs, win, alt, a, b, c), nontrivial=bool(a) and bool(b))
            if alt:
                p1 = make_prov(not cs, win, alt)
                for (r0, r1, path) in corpus.get("tr", []):
                    for side in (0, 1):
                        reqs.append([7, cv, conv_sx(not cs, win, alt), S(r0), S(r1), side, S(path)])
                        res.append(translate_impl((p, p1), (r0, r1), side, path))
                    for law, d in laws_translate((p, p1), (r0, r1), path):
                        ctx.violation("law %s fails on the real code: %r" % (law, d),
                                      dict(kind="law", law=law, detail=dict(d, roots=[r0, r1], cs=[cs, not cs], win=[win, win])))
                    dist.add(("ctr", cs, win, r0, r1, path), nontrivial=bool(path))
            compare(reqs, res, "corpus")
            stats["laws_checked"] += len(reqs)

        for (cs, win, alt) in confs:
            p = make_prov(cs, win, alt)
            twin = make_prov(True, win, alt)
            im = Impl(p)
            cv = conv_sx(cs, win, alt)
            # ---- unary, exhaustive
            reqs, res = [], []
            for s in strings_upto(U):
                reqs += [[0, cv, S(s)], [1, cv, [S(s)]], [2, cv, S(s)], [3, cv, S(s), 0], [3, cv, S(s), 1]]
                res += [im.nps(s), im.join([s]), im.split(s), im.norm(s, False), im.norm(s, True)]
                stats["unary"] += 1
                dist.add(("u", cs, win, alt, s), nontrivial=len(s) > 0)
                for law, d in laws_unary(p, s, twin):
                    ctx.violation("law %s fails on the real helpers: %r" % (law, d),
                                  dict(kind="law", law=law, conv=[cs, win, alt], detail=d))
                stats["laws_checked"] += 1
            compare(reqs, res, "unary")
            # ---- binary, exhaustive
            reqs, res = [], []
            small = list(strings_upto(2))
            pairs = list(itertools.product(small, repeat=2))
            if not quick:     # all pairs of length <= 3 over the core sub-alphabet as well
                core = list(strings_upto(B, CORE))
                seen = set(pairs)
                pairs += [pr for pr in itertools.product(core, repeat=2) if pr not in seen]
            for (a, b) in pairs:
                if True:
                    reqs += [[4, cv, S(a), S(b), 0], [4, cv, S(a), S(b), 1], [6, cv, S(a), S(b), 0],
                             [6, cv, S(a), S(b), 1], [1, cv, [S(a), S(b)]]]
                    res += [im.sub(a, b, False), im.sub(a, b, True), im.match(a, b, False),
                            im.match(a, b, True), im.join([a, b])]
                    stats["binary"] += 1
                    dist.add(("b", cs, win, alt, a, b), nontrivial=bool(a) and bool(b))
                    for law, d in laws_binary(p, a, b):
                        ctx.violation("law %s fails on the real helpers: %r" % (law, d),
                                      dict(kind="law", law=law, conv=[cs, win, alt], detail=d))
                    stats["laws_checked"] += 1
            compare(reqs, res, "binary")
            # ---- ternary, exhaustive
            reqs, res = [], []
            tiny = list(strings_upto(1)) if quick else list(strings_upto(T, CORE)) + ["b", " ", "\u00e9", "\u00c9"]
            # add structured triples so that replace_path succeeds often
            rng = ctx.sub_rng("tern%s%s%s" % (cs, win, alt))
            triples = list(itertools.product(tiny, repeat=3))
            for _ in range(600 if quick else 6000):
                f = rng.choice(["/a", "/A", "/a/b", "/", "/a b", "a", "/\u00e9", "\\a"])
                rel = rng.choice(["", "/b", "/B/a", "/.", "b", "//b/", "/\u00c9"])
                t = rng.choice(["/b", "/", "/A/b", "b", "/x/", "\\b"])
                triples.append((f + rel, rng.choice([f, f.upper(), f + "/", f.replace("/", "\\")]), t))
            for (a, b, c) in triples:
                reqs.append([5, cv, S(a), S(b), S(c)])
                res.append(im.rep(a, b, c))
                stats["ternary"] += 1
                dist.add(("t", cs, win, alt, a, b, c), nontrivial=bool(a) and bool(b))
                for law, d in laws_ternary(p, a, b, c):
                    ctx.violation("law %s fails on the real helpers: %r" % (law, d),
                                  dict(kind="law", law=law, conv=[cs, win, alt], detail=d))
                stats["laws_checked"] += 1
            compare(reqs, res, "ternary")
            # ---- long random paths
            rng = ctx.sub_rng("long%s%s%s" % (cs, win, alt))
            reqs, res = [], []
            for i in range(NLONG):
                s = random_path(rng, p)
                s2 = random_path(rng, p) if rng.random() < 0.5 else s + rng.choice(["/x", "x", "/", "\\y/z"])
                reqs += [[3, cv, S(s), 0], [3, cv, S(s), 1], [2, cv, S(s)], [4, cv, S(s), S(s2), 0], [6, cv, S(s), S(s2), 1]]
                res += [im.norm(s, False), im.norm(s, True), im.split(s), im.sub(s, s2, False), im.match(s, s2, True)]
                stats["long"] += 1
                dist.add(("l", cs, win, alt, s, s2))
                for law, d in laws_unary(p, s, twin) + laws_binary(p, s, s2[-5:]):
                    ctx.violation("law %s fails on the real helpers: %r" % (law, d),
                                  dict(kind="law", law=law, conv=[cs, win, alt], detail=d))
                stats["laws_checked"] += 1
                if i < 2 and len(samples) < 8:
                    samples.append(dict(conv=dict(cs=cs, win=win, alt=alt), path=s, other=s2,
                                        normalize=p.normalize_path(s), is_subpath=repr(p.is_subpath(s, s2))))
            compare(reqs, res, "long")
        # ---- malformed stream: strings whose lower() is not a per-character fold (real code only; deterministic)
        stats["beyond_fold"] = 0
        stats["beyond_fold_failures"] = 0
        for win in (False, True):
            p = make_prov(False, win)
            twin = make_prov(True, win)
            for s in strings_upto(3, MALFORMED_ALPHABET):
                if per_char_lower(s):
                    continue
                stats["beyond_fold"] += 1
                dist.add(("m", win, s))
                for law, d in laws_beyond_fold(p, s, twin):
                    stats["beyond_fold_failures"] += 1
                    ctx.violation("law %s fails on the real helpers (string outside the per-character-fold hypothesis): %r" % (law, d),
                                  dict(kind="law", law=law, conv=[False, win, "\\"], detail=d))
        # ---- translate: pairs of conventions and roots
        rng = ctx.sub_rng("translate")
        roots_pool = [("/local", "/remote"), ("/", "/r"), ("/a", "/"), ("/A/b", "/x y"), ("/a/", "\\r\\"), ("/a", "/a")]
        for (cs0, cs1, win0, win1) in [(True, True, False, False), (True, False, False, False), (False, True, False, False),
                                       (False, False, False, False), (False, False, True, True), (True, False, False, True)]:
            provs = (make_prov(cs0, win0), make_prov(cs1, win1))
            cvs = (conv_sx(cs0, win0), conv_sx(cs1, win1))
            reqs, res = [], []
            for roots in roots_pool:
                cands = list(strings_upto(3 if quick else 4, ["/", "a", "A", "b", "\\"]))
                for _ in range(300 if quick else 3000):
                    side_root = roots[rng.randint(0, 1)]
                    cands.append(side_root + rng.choice(["", "/", "x", "/x", "/x/Y", "2/x", "/\u00e9", "//z/", "/c:x", "/C:\\y/z"]))
                    cands.append(random_path(rng, provs[0]))
                for path in cands:
                    for side in (0, 1):
                        reqs.append([7, cvs[0], cvs[1], S(roots[0]), S(roots[1]), side, S(path)])
                        res.append(translate_impl(provs, roots, side, path))
                    stats["translate"] += 1
                    dist.add(("tr", cs0, cs1, win0, win1, roots, path), nontrivial=bool(path))
                    for law, d in laws_translate(provs, roots, path):
                        d = dict(d, roots=roots, cs=[cs0, cs1], win=[win0, win1])
                        ctx.violation("law %s fails on the real code: %r" % (law, d),
                                      dict(kind="law", law=law, detail=d))
                    stats["laws_checked"] += 1
            compare(reqs, res, "translate")
        model.close()
        stats["model_calls"] = model.calls
        # ---- correspondence verdict
        for (label, rq, mo, io) in mismatches[:5]:
            ctx.violation("model and implementation differ (%s): request %s model %s impl %s; no law of the property "
                          "fails on the explored inputs" % (label, fw.sx_dump(rq)[:200], mo, io),
                          dict(kind="correspondence", stream=label, request=rq, model=mo, impl=io),
                          no_input=not any(v for v in ctx.violations if not v[2]),
                          theorem="correspondence PathModel.run vs cloudsync.provider helpers")
        stats["mismatches"] = len(mismatches)
        stats["law_hypotheses_held"] = dict(sorted(LAW_HITS.items()))
    cov = ctx.coverage
    cov["evaluations"] = dist.total
    cov["distinct_nontrivial"] = dist.nontrivial
    cov["rule"] = ("exhaustive strings over the 10-letter alphabet {/ \\ a A b . space : e-acute E-acute}: unary helpers up to "
                   "length %s, pairs up to length 2 (thorough: also up to %s over the 6-letter core {/ \\ a A : .}), triples up to "
                   "length 1 (thorough: up to %s over the core) + structured triples, random long paths, translate over 6 root "
                   "pairs x 6 case/win_paths combinations; 5 conventions (case x win_paths, and one without alt_sep); a case is "
                   "non-trivial when its strings are non-empty; distinct = distinct (convention, strings) tuples"
                   % (4 if ctx.quick else 5, 3, 2))
    cov["exhaustive"] = False
    cov["samples"] = samples
    cov["streams"] = stats
    cov["traces_validated_against_impl"] = stats.get("model_calls", 0)
    tb = ["Coq 8.16.1 kernel (coqc); vm_compute not needed by the C13 theorems; no native_compute",
          "axioms per theorem as printed by Print Assumptions: " + (", ".join(cov.get("axioms_used", [])) or "none (closed under the global context)"),
          "hypothesis fold_ok of the case-insensitive theorems (per-character case fold: idempotent; exactly the separator, the alt "
          "separator and ':' map to themselves); checked against str.lower() for every Unicode code point in every run "
          "(exceptions, i.e. characters whose lower() is not one character, are listed in streams.fold_sweep_not_per_character); "
          "the executable model's fold_std is proved to satisfy fold_ok (fold_std_ok) and compared with str.lower() on the stream alphabet",
          "extraction: ExtrOcamlBasic only (Extract Inductive bool/option/unit/prod/list/sumbool/sumor); OCaml 4.13.1; coq/ocaml/driver.ml",
          "correspondence harness harness/checks/c13.py (generators, canonicalisation); CPython str semantics",
          "second tie: harness/translator.py (fail-closed ast -> Gallina for normalize_path_separators, split, is_subpath, replace_path) and "
          "the Gallina readings of CPython primitives in GenPrims.v/Str.v (slices, len, rfind, replace, rstrip, startswith); cross-checked by "
          "the proofs gen_* = hand model together with the correspondence run of the hand model",
          "modelled, not verified: str.lower() beyond per-character folds (U+0130, context-dependent final sigma), Unicode normalisation forms; "
          "nested list arguments of join(); join() of more than the argument shapes used by the theorems is covered by pc_join only up to components"]
    return ctx.finish(tb)
