"""C03 — one-sided changes mirror exactly; origin side untouched; no echo."""
from ._engine import engine_check


def run(ctx):
    return engine_check(ctx, "PropC03", [("one_sided", 4000, 100000), ("case_only_rename", 800, 20000)],
                        "one-sided run rejected by the monitor (C03: mirror / origin untouched / no echo / no conflicted artefact)",
                        stream_b="C03", entry_predicates=True, algo=True)
