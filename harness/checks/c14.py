"""C14 — events are hints: duplicated, delayed, reordered, replayed events change nothing.

Theorems: coq/theories/PropC14.v about EventModel.v (EventManager._process_event, SyncEntry.get_latest,
_last_gotten) on top of StateModel.v (SyncState.update, C11).
Tie (i)  harness/c14_seq.py: random event sequences on the real EventManager + SyncState, compared with the extracted
         model after every operation; the state-level statements evaluated on the real behaviour.
Tie (ii) harness/families_c14.py: every clean-domain history is run twice on the real engine - prompt in-order delivery
         and mangled delivery (duplication, batching, delay, permutation, walks, dropped paths); oracles: Monitor
         acceptance of both runs, equal final trees, the engine-issued tree-changing calls (equal in window form; in free
         form no version transferred twice and no more calls of a kind than user operations of that kind).
The two ties run in separate worker pools (they patch cloudsync's clock differently); the parent process imports
neither."""
import glob
import json
import multiprocessing as mp
import os
import random
import time

from .. import framework as fw

PAIR_KINDS = {"monitor": "the mangled run is rejected by the monitor",
              "reference": "the reference run (prompt in-order delivery) is rejected by the monitor",
              "views": "the final trees of the mangled run differ from those of the reference run",
              "effects": "the tree-changing engine calls of the mangled run differ from those of the reference run",
              "retransfer": "the mangled run transfers the same version twice",
              "budget": "the mangled run issues more tree-changing calls of a kind than there are user operations of that kind",
              "stuck": "the mangled run does not become quiet",
              "walk": "a full walk of a quiet, synchronised tree made the engine busy again"}


# ------------------------------------------------------------------ engine pairs (worker side)
_W = {}


def _pair_init():
    from .. import engine as E
    E.install()
    _W["monitor"] = fw.ModelProc("monitor")


def _pair_stats():
    return dict(pairs=0, engine_runs=0, user_ops=0, plans={}, forms={}, families={}, flavours={}, opkinds={}, effects_ref=0, effects_mangled=0,
                long_held=0, long_holds_ended_by_quiet=0, events_held_7_or_more_sync_steps=0,
                extra_effects_free_form=0, missing_effects_free_form=0, noop_calls_ref=0, noop_calls_mangled=0,
                events=0, copies_delivered=0, dropped_paths=0, held=0, late_copies=0, forced_by_flush_rule=0, permuted_batches=0,
                walks=0, events_calls=0, distinct=set(), samples=[])


def _account(st, case, r):
    from .. import enginecheck as EC
    st["pairs"] += 1
    st["engine_runs"] += 2
    m = case["mangle"]
    st["plans"][m["name"]] = st["plans"].get(m["name"], 0) + 1
    st["forms"][m.get("form", "free")] = st["forms"].get(m.get("form", "free"), 0) + 1
    fk = json.dumps(case["flavour"])
    st["flavours"][fk] = st["flavours"].get(fk, 0) + 1
    nu = 0
    for a in case["schedule"]:
        k = a[2][0] if a[0] == "user" else a[0]
        st["opkinds"][k] = st["opkinds"].get(k, 0) + 1
        nu += a[0] == "user"
    st["user_ops"] += nu
    st["effects_ref"] += r["n_eff_ref"]
    st["effects_mangled"] += r["n_eff_man"]
    if not r["strict"]:
        st["extra_effects_free_form"] += r["extra_effects"]
        st["missing_effects_free_form"] += r["missing_effects"]
    st["noop_calls_ref"] += r["noop_ref"]
    st["noop_calls_mangled"] += r["noop_man"]
    for side in (0, 1):
        ms = r["mangler"].get(side)
        if ms:
            st["events"] += ms["events"]
            st["copies_delivered"] += ms["copies"]
            st["dropped_paths"] += ms["dropped_paths"]
            st["held"] += ms["held"]
            st["late_copies"] += ms["late"]
            st["forced_by_flush_rule"] += ms["forced"]
            st["permuted_batches"] += ms["permuted"]
            st["events_calls"] += ms["calls"]
            st["long_held"] += ms["long_held"]
            st["long_holds_ended_by_quiet"] += ms["long_released_by_quiet"]
            st["events_held_7_or_more_sync_steps"] += int(ms["max_sync_steps_held"] >= 7)
    st["walks"] += r["mangler"].get("walks", 0)
    st["walks_of_quiet_engine"] = st.get("walks_of_quiet_engine", 0) + r["mangler"].get("quiet_walks", 0)
    if nu >= 1 and r["n_eff_man"] >= 1:
        st["distinct"].add(fw.case_id(EC.jsonable_case(dict(f=case["flavour"], s=case["schedule"], b=case.get("base"), m=m)))[:16])
    if len(st["samples"]) < 1:
        st["samples"].append(dict(flavour=case["flavour"], mangle=m, user_ops=nu, schedule_len=len(case["schedule"]),
                                  effects_ref=r["n_eff_ref"], effects_mangled=r["n_eff_man"], problems=[p[0] for p in r["problems"]]))


def _pair_chunk(args):
    fam, seed, start, count = args
    if "monitor" not in _W:
        _pair_init()
    from .. import enginecheck as EC
    from .. import families_c14 as FC
    st = _pair_stats()
    fails = []
    for i in range(start, start + count):
        rng = random.Random("%s/C14/%s/%d" % (seed, fam, i))
        case = getattr(FC, fam)(rng)
        r = FC.run_pair(case, _W["monitor"])
        _account(st, case, r)
        st["families"][fam] = st["families"].get(fam, 0) + 1
        if r["problems"]:
            fails.append(([fam, i], EC.jsonable_case(case), r["problems"], [repr(e)[:160] for e in r["man"].events[-10:]]))
    st["distinct"] = list(st["distinct"])
    return st, fails


def _pair_corpus(paths):
    if "monitor" not in _W:
        _pair_init()
    from .. import enginecheck as EC
    from .. import families_c14 as FC
    out = []
    for fn in paths:
        doc = json.load(open(fn))
        case = EC.unjson_case(doc["case"]["case"])
        r = FC.run_pair(case, _W["monitor"])
        out.append((os.path.basename(fn), doc, [list(p) for p in r["problems"]], dict(eff_ref=r["n_eff_ref"], eff_man=r["n_eff_man"])))
    return out


def _pair_shrink(args):
    """delta-debugging of a failing pair (schedule groups that keep folder operations bracketed by drains)"""
    case_j, kinds = args
    if "monitor" not in _W:
        _pair_init()
    from .. import enginecheck as EC
    from .. import families_c14 as FC
    case = EC.unjson_case(case_j)

    def bad(c):
        r = FC.run_pair(c, _W["monitor"])
        return any(p[0] in kinds for p in r["problems"])

    def groups(sched):
        g, i = [], 0
        while i < len(sched):
            if (sched[i][0] == "drain" and i + 2 < len(sched) and sched[i + 1][0] == "user"
                    and sched[i + 1][2][0] in ("rename", "delete") and sched[i + 2][0] == "drain"):
                g.append(sched[i:i + 3])
                i += 3
            else:
                g.append([sched[i]])
                i += 1
        return g

    def flat(g):
        return [a for x in g for a in x]
    try:
        if not bad(case):
            return case_j, None
        g = fw.shrink_list(groups(case["schedule"]), lambda gg: bad(dict(case, schedule=flat(gg))), max_rounds=120)
        c2 = dict(case, schedule=flat(g))
        if case.get("base"):
            b = fw.shrink_list(case["base"], lambda bb: bad(dict(c2, base=bb)), max_rounds=40)
            if bad(dict(c2, base=b)):
                c2 = dict(c2, base=b)
        r = FC.run_pair(c2, _W["monitor"])
        return EC.jsonable_case(c2), [list(p) for p in r["problems"]]
    except Exception as e:      # shrinking must never hide the original failure
        return case_j, [["shrink-failed", repr(e)]]


def _merge(a, b):
    for k, v in b.items():
        if isinstance(v, dict):
            _merge(a.setdefault(k, {}), v)
        elif isinstance(v, (set, list)):
            if k == "distinct":
                a.setdefault(k, set()).update(v)
            elif k == "samples":
                a.setdefault(k, [])
                a[k] += v[:max(0, 3 - len(a[k]))]
        else:
            a[k] = a.get(k, 0) + v


# ------------------------------------------------------------------ the check
def run(ctx):
    g = ctx.coq_gate("PropC14")
    cov = ctx.coverage
    streams = {}
    total = 0
    distinct = 0
    samples = []
    if g is not None:
        from .. import c14_seq as Q
        cdir = os.path.join(fw.VERIF, "corpus", "C14")
        seq_files = sorted(glob.glob(os.path.join(cdir, "seq-*.json")))
        pair_files = sorted(glob.glob(os.path.join(cdir, "pair-*.json")))
        nw = 16
        mpc = mp.get_context("fork")
        # ================= tie (i): event sequences (own pool: patches cloudsync.sync.state.time with the C11 clock)
        t0 = time.time()
        nseq = 2400 if ctx.quick else 48000
        with mpc.Pool(nw) as pool:
            # ---- corpus first
            parts = [seq_files[k::nw] for k in range(nw) if seq_files[k::nw]]
            cres = [x for part in pool.map(Q.corpus_worker, parts) for x in part] if parts else []
            for fn, doc, r in sorted(cres, key=lambda x: x[0]):
                case = doc["case"]
                if r["mismatch"]:
                    ctx.violation("corpus case %s: model and implementation differ at step %d: model %s impl %s"
                                  % (fn, r["mismatch"]["step"], str(r["mismatch"]["model"])[:150], str(r["mismatch"]["impl"])[:150]),
                                  case, no_input=not r["claimed"], theorem="correspondence EventModel.run vs cloudsync.event / cloudsync.sync.state")
                for stp, tag, text in r["claimed"][:1]:
                    ctx.violation("corpus case %s: %s (step %d)" % (fn, text, stp), case)
                if r["unmet"]:
                    # the witness of a kept refutation no longer behaves as the model says on the real code
                    ctx.violation("corpus case %s (%s): %s" % (fn, doc.get("what", "")[:120], "; ".join(r["unmet"])), case,
                                  no_input=True, theorem="witness of a refuted statement in PropC14.v replayed on the real code")
            # ---- seeded stream
            jobs = [("%s/C14/seq/%d" % (ctx.seed, w), nseq // nw) for w in range(nw)]
            outs = pool.map(Q.worker, jobs)
            sst = {}
            nbad = 0
            seen = set()
            reported = 0
            for o in outs:
                Q.C11._merge(sst, o["stats"])
                total += o["total"]
                seen.update(o["seen"])
                samples += o["samples"][:1]
                nbad += o["nbad"]
                for b in o["bad"]:
                    if reported >= 4:
                        break
                    reported += 1
                    case = b["case"]
                    if b["claimed"]:
                        tags = sorted({t for _, t, _ in b["claimed"]})
                        small = pool.apply(_seq_shrink, ((case, "claimed", tags),))
                        ctx.violation("C14 statement(s) %s fail on the real EventManager/SyncState: %s" % (tags, b["claimed"][0][2]), small)
                    if b["mismatch"]:
                        small = pool.apply(_seq_shrink, ((case, "mismatch", None),))
                        ctx.violation("model and implementation differ at step %d: model %s impl %s"
                                      % (b["mismatch"]["step"], str(b["mismatch"]["model"])[:150], str(b["mismatch"]["impl"])[:150]),
                                      small, no_input=not b["claimed"],
                                      theorem="correspondence EventModel.run vs cloudsync.event / cloudsync.sync.state")
            sst["corpus_cases"] = len(cres)
            sst["cases_with_difference_or_violation"] = nbad
            sst["wall_s"] = round(time.time() - t0, 1)
            streams["event_sequences"] = sst
            distinct += len(seen)
        # ================= tie (ii): engine pairs (own pool: harness.engine.install)
        t0 = time.time()
        npairs = 900 if ctx.quick else 32000
        with mpc.Pool(nw, initializer=_pair_init) as pool:
            parts = [pair_files[k::nw] for k in range(nw) if pair_files[k::nw]]
            cres = [x for part in pool.map(_pair_corpus, parts) for x in part] if parts else []
            ncorpus_bad = 0
            for fn, doc, problems, info in sorted(cres, key=lambda x: x[0]):
                kinds = sorted({p[0] for p in problems})
                exp = sorted(doc.get("expect", {}).get("problems", []))
                if problems:
                    # the real engine violates the property on this exact case: known finding or VIOLATION
                    ncorpus_bad += 1
                    ctx.violation("corpus case %s: %s: %s" % (fn, doc.get("what", "")[:200], "; ".join("%s (%s)" % (PAIR_KINDS.get(p[0], p[0]), p[1][:120]) for p in problems)),
                                  doc["case"])
                if exp != kinds:
                    ctx.notes.append("corpus case %s expected %s, observed %s" % (fn, exp, kinds))
                    if exp and not kinds:
                        print("# corpus case %s no longer fails (expected %s)" % (fn, exp))
            chunk = 25
            nreuse = 400 if ctx.quick else 10000
            jobs = [("mangled", ctx.seed, s, min(chunk, npairs - s)) for s in range(0, npairs, chunk)]
            jobs += [("reuse_folder", ctx.seed, s, min(chunk, nreuse - s)) for s in range(0, nreuse, chunk)]
            res = pool.map(_pair_chunk, jobs, chunksize=1)
            pst = _pair_stats()
            fails = []
            for st, fl in res:
                _merge(pst, st)
                fails += fl
            ndist = len(pst.pop("distinct"))
            samples += pst.pop("samples")[:3]
            by_kind = {}
            for i, case_j, problems, tail in fails:
                for p in problems:
                    by_kind[p[0]] = by_kind.get(p[0], 0) + 1
            reported = 0
            for i, case_j, problems, tail in sorted(fails, key=lambda f: len(f[1]["schedule"])):
                if reported >= 3:
                    break
                reported += 1
                kinds = sorted({p[0] for p in problems})
                small, sp = pool.apply(_pair_shrink, ((case_j, kinds),))
                problems2 = sp if sp else problems
                ctx.violation("mangled event delivery changes the outcome (plan %s, %s form): %s"
                              % (case_j["mangle"]["name"], case_j["mangle"].get("form"),
                                 "; ".join("%s (%s)" % (PAIR_KINDS.get(p[0], p[0]), str(p[1])[:160]) for p in problems2)),
                              dict(kind="engine-pair", family=i, case=small, original=case_j, trace_tail=tail))
            pst.update(corpus_cases=len(cres), corpus_cases_failing=ncorpus_bad, pairs_with_problem=len(fails), problems_by_kind=by_kind,
                       wall_s=round(time.time() - t0, 1))
            streams["engine_pairs"] = pst
            total += pst["engine_runs"]
            distinct += ndist
    cov["evaluations"] = total
    cov["distinct_nontrivial"] = distinct
    cov["traces_validated_against_impl"] = streams.get("event_sequences", {}).get("steps", 0) + streams.get("engine_pairs", {}).get("engine_runs", 0)
    cov["rule"] = ("(i) a case = provider flavours (oid_is_path x case sensitivity per side, root by (path, oid) or none) + a sequence of 2-18 "
                   "operations: provider events (ordinary, id-less, folder deletion by path, echo of a stored entry as a walk yields it, root "
                   "events, prior_oid renames, deletions of ids never seen, accurate flag), re-deliveries of earlier events (immediately or "
                   "late, as event or as walk event), get_latest with a stubbed provider answer, mark_dirty, and the engine-like state "
                   "operations of the C11 alphabet; compared with the model after every operation; non-trivial = at least 2 executed operations. "
                   "(ii) a case = clean-domain history (one-sided or disjoint; acting sides id-stable; unfiltered events; DESIGN §4.3) + a "
                   "mangling plan, or (family reuse_folder) a folder deleted and, after a drain, re-created under the same name with content while the "
                   "new folder's events are held for 6-12 sync steps; executed twice on the real engine (2 engine runs per pair); non-trivial = at least one user operation "
                   "and one tree-changing engine call in the mangled run; distinct = distinct (flavour, base, schedule, plan).")
    cov["exhaustive"] = False
    cov["samples"] = samples[:6]
    cov["streams"] = streams
    cov["oracles"] = ("Monitor acceptance of the reference and of the mangled run (C01 convergence, spec, no '.conflicted', covered versions, "
                      "origin side untouched, no echo after quiet); equal final trees of the two runs; tree-changing engine calls: equal "
                      "multisets when user operations come in bursts separated by drains (window form), otherwise no content version "
                      "transferred twice and no more calls of a kind than user operations of that kind; calls that change no tree are "
                      "counted (noop_calls_*), not judged")
    tb = ["Coq 8.16.1 kernel (coqc); vm_compute used by the _refuted witnesses (idxj_check reflection, concrete updates); no native_compute",
          "axioms per theorem as printed by Print Assumptions: " + (", ".join(cov.get("axioms_used", [])) or "none (closed under the global context)"),
          "extraction: ExtrOcamlBasic only; OCaml 4.13.1; coq/ocaml/driver.ml",
          "StateModel.v / StateProofs.v (C11): SyncState.update and the index invariant IdxJ, tied by harness/checks/c11.py; PathModel (C13)",
          "harness/c14_seq.py on top of harness/checks/c11.py: generators, canonicalisation, the C11 clock patched into cloudsync.sync.state.time, "
          "entry serials, recording (not altering) of set iteration orders; provider.info_oid / hash_oid / info_path replaced by tables "
          "(the provider's answers are inputs of the model); EventManager constructed but never started, _process_event called directly",
          "harness/families_c14.py: the event-stream mangler installed as provider.events on the provider instances, the flush rule that "
          "keeps deliveries inside the window between two drains, EventManager.need_walk set from the schedule, the pairing of two runs",
          "harness/engine.py / enginecheck.py and the Monitor acceptor (C01-C04): observation of the real engine, virtual clock, serial ids",
          "modelled, not verified: the sync manager's algorithm (decisions after the re-read), CPython dict/set semantics; not modelled: "
          "Exists.CORRUPT, size, mtime, notifications, storage behind storage_commit, provider exceptions during intake, event filtering"]
    return ctx.finish(tb)


def _seq_shrink(args):
    case, mode, tags = args
    from .. import c14_seq as Q
    Q.C11.instrument()
    model = fw.ModelProc("event")
    try:
        if mode == "mismatch":
            return Q.shrink_case(model, case, lambda r: r["mismatch"] is not None)
        return Q.shrink_case(model, case, lambda r: any(t in tags for _, t, _ in r["props"]))
    except Exception:
        return case
    finally:
        model.close()
