"""C04 — non-conflicting concurrent changes merge exactly."""
from ._engine import engine_check


def run(ctx):
    return engine_check(ctx, "PropC04", [("disjoint", 4000, 100000), ("create_then_rename_folder", 1000, 25000)],
                        "disjoint two-sided run rejected by the monitor (C04: merged tree = base + both sides' changes, no resurrection, no conflicted artefact)",
                        stream_b="C04", entry_predicates=True)
