"""C16 — offline providers honour the provider contract.

Theorems: coq/theories/PropC16.v about ProvModel.v (a faithful model of MockProvider/MockFS).
Tie: random API call sequences run on the real MockProvider (4 flavours: oid_is_path x case_sensitive)
and on the extracted model; every result / exception class / appended event / final tree compared.
The contract predicates of the property are also evaluated directly on the real providers
(that is the search for a failing input); FileSystemProvider is a second target on a temp directory.
"""
import glob
import io
import json
import os
import shutil
import tempfile
import time

from .. import envfix, framework as fw

FLAVOURS = [(False, True), (False, False), (True, True), (True, False)]   # (oid_is_path, case_sensitive)

# names: case variants, unicode, dots, spaces.  Every character c satisfies
# chr(c).lower() == chr(fold_std c) (checked in run()).
NAMES = ["a", "A", "b", "B", "ab", "Ab", "aB", "AB", "c", "é", "É", "中", "a.b", "A.B", ".a", "a.",
         "a b", " ", "ß", "x.txt", "X.TXT", "f1", "F1", "d", "D", "éÉ", "...", "àÀ.Z"]
DOT_NAMES = [".", ".."]          # ordinary names for the mock; resolved by the OS for the filesystem provider

ERR = {"CloudFileExistsError": 1, "CloudFileNotFoundError": 2, "CloudFileNameError": 3, "AssertionError": 4}
OPNAMES = ["create", "mkdir", "rename", "upload", "delete", "info_path", "info_oid", "listdir", "exists_path",
           "exists_oid", "download", "hash_oid", "events", "set_cursor", "tree"]
MUTATORS = {"create", "mkdir", "rename", "upload", "delete"}


def fold_std(c):
    if 65 <= c <= 90:
        return c + 32
    if 192 <= c <= 222 and c != 215:
        return c + 32
    return c


def make_pool():
    """content tokens -> bytes; all distinct; every size class of the property, with near-collisions."""
    import random
    r = random.Random(1616)
    pool = [b"", b"a", b"b", b"A", b"ab", r.randbytes(17), r.randbytes(512), r.randbytes(1023)]
    k1 = r.randbytes(1024)
    pool += [k1, k1[:-1] + bytes([k1[-1] ^ 1]), r.randbytes(1025), r.randbytes(1500), r.randbytes(2047)]
    k2 = r.randbytes(2048)
    pool += [k2, k2[:1024] + bytes([k2[1024] ^ 1]) + k2[1025:]]
    k3 = r.randbytes(2049)
    pool += [k3, k3[:1024] + bytes([k3[1024] ^ 1]) + k3[1025:], k3[:-1] + bytes([k3[-1] ^ 1])]
    k4 = r.randbytes(5000)
    pool += [k4, k4[:2500] + bytes([k4[2500] ^ 255]) + k4[2501:], r.randbytes(70000)]
    assert len(set(pool)) == len(pool)
    return pool


POOL = make_pool()


def size_class(n):
    return 0 if n == 0 else 1 if n < 1024 else 2 if n <= 2048 else 3


TOK_BY_CLASS = {c: [i for i, b in enumerate(POOL) if size_class(len(b)) == c] for c in range(4)}


def pstr(p):
    return "/" + "/".join(p)


def pparse(s):
    if s is None:
        return ["none"]
    return [[ord(c) for c in n] for n in s.split("/") if n]


def pwire(p):
    return [[ord(c) for c in n] for n in p]


# ------------------------------------------------------------------ one provider under test
class MockTarget:
    """A real MockProvider plus the bookkeeping to canonicalise what it returns."""

    def __init__(self, oip, cs):
        from cloudsync.providers.mock import MockProvider
        self.oip, self.cs = oip, cs
        self.p = MockProvider(oip, cs)
        self.p.connect({"key": "val"})
        self.serial = {}          # real oid -> model serial (id-style)
        self.rev = {}
        self.hash2tok = {}
        for i, b in enumerate(POOL):
            self.hash2tok.setdefault(self.p.hash_data(io.BytesIO(b)), i)
        self.nlog = 0
        if not oip:
            self._see(self.p.info_path("/").oid)

    # ---- oids
    def _see(self, oid):
        if oid not in self.serial:
            n = len(self.serial)
            self.serial[oid] = n
            self.rev[n] = oid
        return self.serial[oid]

    def enc_oid(self, oid, learn=False):
        if oid is None:
            return ["none"]
        if isinstance(oid, str) and oid.startswith("/"):
            return [1, pparse(oid)]
        if self.oip:
            return ["weird", repr(oid)]
        if learn:
            return [0, self._see(oid)]
        return [0, self.serial.get(oid, 10 ** 9)]

    def dec_key(self, k):
        """model key -> the string handed to the provider"""
        if k[0] == 1:
            return pstr(k[1])
        return self.rev.get(k[1], "9%08d" % k[1])

    # ---- canonical values
    def tok(self, h):
        if h is None:
            return []
        return [self.hash2tok.get(h, 10 ** 9)]

    def info(self, i, learn=False):
        if i is None:
            return []
        return [0 if i.otype.value == "file" else 1, self.enc_oid(i.oid, learn), self.tok(i.hash), pparse(i.path),
                [ord(c) for c in (i.name or "")]]

    def new_events(self):
        """internal MockEvent log entries appended since the last call, canonical"""
        evs = self.p._events[self.nlog:]
        self.nlog = len(self.p._events)
        out = []
        for e in evs:
            d = e.serialize()
            out.append([["provider create", "provider rename", "provider modify", "provider delete"].index(d["action"]),
                        0 if d["object type"] == "mock file" else 1, self.enc_oid(d["id"]), pparse(d["path"]),
                        0 if d["trashed"] else 1, [] if d["prior_oid"] is None else [self.enc_oid(d["prior_oid"])]])
        return out

    def tree(self):
        seen, out = set(), []
        for k, o in self.p._mock_fs._objects.items():
            if k.startswith("/") and o.exists and id(o) not in seen:
                seen.add(id(o))
                out.append([pparse(o.path), 0 if o.type == "mock file" else 1,
                            self.hash2tok.get(self.p._hash_func(o.contents), 10 ** 9) if o.type == "mock file" else 0])
        return sorted(out, key=lambda e: ([tuple(n) for n in e[0]]))

    # ---- run one op (model-shaped tuple) on the real provider -> canonical result
    def apply(self, op):
        p = self.p
        kind = op[0]
        try:
            if kind == "create":
                i = p.create(pstr(op[1]), io.BytesIO(POOL[op[2]]))
                r = self.info(i, learn=True)
                if i.size != len(POOL[op[2]]):
                    r = ["size", i.size]
            elif kind == "mkdir":
                r = self.enc_oid(p.mkdir(pstr(op[1])), learn=True)
            elif kind == "rename":
                r = self.enc_oid(p.rename(self.dec_key(op[1]), pstr(op[2])))
            elif kind == "upload":
                i = p.upload(self.dec_key(op[1]), io.BytesIO(POOL[op[2]]))
                r = self.info(i)
                if i.size != len(POOL[op[2]]):
                    r = ["size", i.size]
            elif kind == "delete":
                p.delete(self.dec_key(op[1]))
                r = []
            elif kind == "info_path":
                i = p.info_path(pstr(op[1]))
                r = [] if i is None else [self.info(i)]
            elif kind == "info_oid":
                i = p.info_oid(self.dec_key(op[1]))
                r = [] if i is None else [self.info(i)]
            elif kind == "listdir":
                r = sorted(self.info(i) for i in p.listdir(self.dec_key(op[1])))
            elif kind == "exists_path":
                r = 1 if p.exists_path(pstr(op[1])) else 0
            elif kind == "exists_oid":
                r = 1 if p.exists_oid(self.dec_key(op[1])) else 0
            elif kind == "download":
                f = io.BytesIO()
                p.download(self.dec_key(op[1]), f)
                r = self.hash2tok.get(p.hash_data(io.BytesIO(f.getvalue())), 10 ** 9)
                if r < len(POOL) and POOL[r] != f.getvalue():
                    r = 10 ** 9 + 1
            elif kind == "hash_oid":
                r = self.tok(p.hash_oid(self.dec_key(op[1])))
            elif kind == "events":
                r = []
                for e in p.events():
                    r.append([0 if e.otype.value == "file" else 1, self.enc_oid(e.oid),
                              [] if e.path is None else [pparse(e.path)], 1 if e.exists else 0,
                              [] if e.prior_oid is None else [self.enc_oid(e.prior_oid)],
                              ["hash"] if e.hash is not None else []])
            elif kind == "set_cursor":
                p.current_cursor = None if op[1] is None else op[1] - 1
                r = []
            elif kind == "tree":
                r = self.tree()
            else:
                raise ValueError(kind)
            return [0, r]
        except Exception as e:          # noqa
            n = type(e).__name__
            return [1, ERR.get(n, ["exc", n, str(e)[:80]])]


def op_wire(op):
    k = op[0]
    c = OPNAMES.index(k)
    if k == "create":
        return [c, pwire(op[1]), op[2]]
    if k in ("mkdir", "info_path", "exists_path"):
        return [c, pwire(op[1])]
    if k == "rename":
        return [c, key_wire(op[1]), pwire(op[2])]
    if k == "upload":
        return [c, key_wire(op[1]), op[2]]
    if k in ("delete", "info_oid", "listdir", "exists_oid", "download", "hash_oid"):
        return [c, key_wire(op[1])]
    if k == "set_cursor":
        return [c, [] if op[1] is None else [op[1]]]
    return [c]


def key_wire(k):
    return [0, k[1]] if k[0] == 0 else [1, pwire(k[1])]


def op_json(op):
    return [x if not isinstance(x, tuple) else list(x) for x in op]


def canon_model_result(op, res, oip):
    """model result -> the canonical form MockTarget.apply produces"""
    if res[0] == 1:
        return [1, res[1]]
    v = res[1]
    k = op[0]
    if k == "listdir":
        v = sorted(v)
    elif k == "events":
        v = [[e[1], e[2], [e[3]] if oip else [], e[4], e[5], []] for e in v]
    elif k == "tree":
        v = [[e[0], e[1], e[2]] for e in v]
    return [0, v]


# ------------------------------------------------------------------ generator
class Gen:
    """Chooses the next call by looking at a shadow of the live tree (kept from the provider's own answers)."""

    def __init__(self, rng, tgt, malformed, names, max_depth=3):
        self.rng, self.t, self.malformed, self.names, self.max_depth = rng, tgt, malformed, names, max_depth
        self.live = {(): ("d", self.root_key())}     # normalised path tuple -> (kind, key, display path)
        self.disp = {(): ()}
        self.dead_keys = []
        self.all_paths = [()]
        self.nmut = 0

    def root_key(self):
        return (1, ()) if self.t.oip else (0, 0)

    def norm(self, p):
        return tuple(p) if self.t.cs else tuple(n.lower() for n in p)

    def fresh_name(self, parent):
        for _ in range(8):
            n = self.rng.choice(self.names)
            if self.norm(parent + (n,)) not in self.live:
                return n
        return "n%d" % self.rng.randrange(10 ** 6)

    def dirs(self, maxlen):
        return [self.disp[k] for k, v in self.live.items() if v[0] == "d" and len(k) <= maxlen]

    def objs(self, kind=None):
        return [k for k, v in self.live.items() if k != () and (kind is None or v[0] == kind)]

    def case_variant(self, p):
        if self.rng.random() < 0.3:
            return tuple(n.swapcase() for n in p)
        return p

    def some_key(self):
        """a key for a query or a malformed call: live, dead, never issued, or a path used as an oid"""
        r = self.rng.random()
        if not self.malformed:
            r = r * 0.84
        if r < 0.6 and self.live:
            return self.live[self.rng.choice(list(self.live))][1]
        if r < 0.75 and self.dead_keys:
            return self.rng.choice(self.dead_keys)
        if r < 0.85:
            return (0, 900000 + self.rng.randrange(5)) if not self.t.oip else (1, (self.rng.choice(self.names), "zz"))
        return (1, self.case_variant(self.rng.choice(self.all_paths)))

    def some_path(self):
        r = self.rng.random()
        if r < 0.7:
            return self.case_variant(self.rng.choice(self.all_paths))
        d = self.rng.choice(self.all_paths)
        return d + (self.rng.choice(self.names),)

    def next_op(self):
        rng = self.rng
        bad = self.malformed and rng.random() < 0.35
        x = rng.random()
        if x < 0.22:
            # create
            ds = self.dirs(self.max_depth - 1)
            if bad or not ds:
                return ("create", self.some_path() if rng.random() < 0.8 else (), rng.randrange(len(POOL)))
            d = rng.choice(ds)
            n = self.fresh_name(d) if rng.random() < 0.9 else rng.choice(self.names)
            return ("create", self.case_variant(d) + (n,), rng.choice(TOK_BY_CLASS[rng.randrange(4)]))
        if x < 0.36:
            ds = self.dirs(self.max_depth - 1)
            if bad or not ds:
                return ("mkdir", self.some_path() + ((rng.choice(self.names),) if rng.random() < 0.3 else ()))
            d = rng.choice(ds)
            n = self.fresh_name(d) if rng.random() < 0.85 else rng.choice(self.names)
            return ("mkdir", self.case_variant(d) + (n,))
        if x < 0.58:
            os_ = self.objs()
            if not bad and not os_:
                return ("mkdir", (self.fresh_name(()),))
            if bad:
                return ("rename", self.some_key(), self.some_path())
            src = rng.choice(os_)
            kind, key = self.live[src][0], self.live[src][1]
            sub = max([len(k) - len(src) for k in self.live if k[:len(src)] == src] + [0])
            ds = [d for d in self.dirs(self.max_depth - 1 - sub) if self.norm(d)[:len(src)] != src]
            if not ds:
                ds = [()]
            d = rng.choice(ds)
            y = rng.random()
            if y < 0.55:
                n = self.fresh_name(d)
            elif y < 0.7:
                n = self.disp[src][-1]                     # same name, other folder (or onto itself)
            elif y < 0.82:
                n = self.disp[src][-1].swapcase()          # case-only variant
            else:
                kids = [self.disp[k][-1] for k in self.live if len(k) == len(d) + 1 and k[:len(d)] == self.norm(d)]
                n = rng.choice(kids) if kids else self.fresh_name(d)   # onto something that exists
            return ("rename", key, self.case_variant(d) + (n,))
        if x < 0.68:
            fs = self.objs("f")
            if not bad and not fs:
                return ("create", (self.fresh_name(()),), rng.randrange(len(POOL)))
            if bad:
                return ("upload", self.some_key(), rng.randrange(len(POOL)))
            return ("upload", self.live[rng.choice(fs)][1], rng.choice(TOK_BY_CLASS[rng.randrange(4)]))
        if x < 0.78:
            os_ = self.objs()
            if not bad and not os_:
                return ("create", (self.fresh_name(()),), rng.randrange(len(POOL)))
            if bad:
                return ("delete", self.some_key())
            return ("delete", self.live[rng.choice(os_)][1])
        if x < 0.95:
            q = rng.choice(["info_path", "info_oid", "listdir", "exists_path", "exists_oid", "download", "hash_oid"])
            if q in ("info_path", "exists_path"):
                return (q, self.some_path())
            if q == "listdir" and rng.random() < 0.7:
                ds = self.dirs(9)
                if ds:
                    return (q, self.live[self.norm(rng.choice(ds))][1])
            if q == "download" and rng.random() < 0.7:
                fs = self.objs("f")
                if fs:
                    return (q, self.live[rng.choice(fs)][1])
            return (q, self.some_key())
        if x < 0.99:
            return ("events",)
        return ("set_cursor", None if rng.random() < 0.5 else rng.randrange(0, self.t.nlog + 1))

    # ---- shadow maintenance from the provider's answer
    def note(self, op, res):
        for x in op[1:]:
            if isinstance(x, tuple) and (not x or isinstance(x[0], str)) and x not in self.all_paths and len(self.all_paths) < 60:
                self.all_paths.append(x)
        if res[0] != 0:
            return
        k = op[0]
        if k == "create" and isinstance(res[1], list) and len(res[1]) == 5:
            key = self.keyt(res[1][1])
            if key is not None:
                self.live[self.norm(op[1])] = ("f", key)
                self.disp[self.norm(op[1])] = op[1]
        elif k == "mkdir":
            if self.norm(op[1]) not in self.live and self.keyt(res[1]) is not None:
                self.live[self.norm(op[1])] = ("d", self.keyt(res[1]))
                self.disp[self.norm(op[1])] = op[1]
        elif k == "delete":
            for kk, v in list(self.live.items()):
                if v[1] == op[1]:
                    del self.live[kk]
                    self.dead_keys.append(v[1])
        elif k == "rename":
            src = [kk for kk, v in self.live.items() if v[1] == op[1]]
            if src and self.keyt(res[1]) is not None:
                src = src[0]
                dst = self.norm(op[2])
                newkey = self.keyt(res[1])
                if dst in self.live and dst != src:
                    self.dead_keys.append(self.live[dst][1])
                    del self.live[dst]
                moved = [(kk, v) for kk, v in self.live.items() if kk[:len(src)] == src]
                for kk, v in moved:
                    del self.live[kk]
                for kk, v in moved:
                    nk = dst + kk[len(src):]
                    nd = tuple(op[2]) + self.disp[kk][len(src):]
                    key = v[1]
                    if self.t.oip:
                        key = (1, nd)
                    self.live[nk] = (v[0], key if kk != src else newkey)
                    self.disp[nk] = nd

    @staticmethod
    def keyt(k):
        if not isinstance(k, list) or len(k) != 2 or k[0] not in (0, 1):
            return None
        if k[0] == 0:
            return (0, k[1])
        if not all(isinstance(n, list) for n in k[1]):
            return None
        return (1, tuple("".join(chr(c) for c in n) for n in k[1]))


def touched_queries(rng, op, res, gen):
    """queries about what the call touched (compared like every other call)"""
    qs = []
    k = op[0]
    paths, keys = [], []
    if k in ("create", "mkdir"):
        paths.append(op[1])
        if res[0] == 0:
            kk = res[1][1] if k == "create" and len(res[1]) == 5 else res[1]
            if Gen.keyt(kk) is not None:
                keys.append(Gen.keyt(kk))
    elif k == "rename":
        paths.append(op[2])
        keys.append(op[1])
        if res[0] == 0 and Gen.keyt(res[1]) is not None:
            keys.append(Gen.keyt(res[1]))
    elif k in ("upload", "delete"):
        keys.append(op[1])
    for p in paths:
        qs.append(("info_path", p))
        if len(p) > 0 and rng.random() < 0.5:
            par = gen.live.get(gen.norm(p[:-1]))
            if par:
                qs.append(("listdir", par[1]))
    for key in keys[:2]:
        qs.append(("info_oid", key))
        if rng.random() < 0.3:
            qs.append(("listdir", key))
        if rng.random() < 0.3:
            qs.append(("download", key))
    return qs


def gen_sequence(rng, tgt, malformed, names):
    """-> (ops, impl_results, impl_events) generated while running the real provider"""
    g = Gen(rng, tgt, malformed, names)
    n = rng.randint(1, 30)
    ops, results, events = [], [], []

    def do(op):
        r = tgt.apply(op)
        ops.append(op)
        results.append(r)
        events.append(tgt.new_events())
        g.note(op, r)
        return r
    for _ in range(n):
        op = g.next_op()
        r = do(op)
        if op[0] in MUTATORS:
            for q in touched_queries(rng, op, r, g):
                do(q)
    return ops, results, events, g


def final_queries(rng, g, full):
    qs = [("tree",), ("events",)]
    paths = list(g.all_paths)
    keys = list({v[1] for v in g.live.values()}) + g.dead_keys[:5]
    if not full:
        rng.shuffle(paths)
        rng.shuffle(keys)
        paths, keys = paths[:3], keys[:3]
    for p in paths:
        qs += [("info_path", p), ("exists_path", p)]
    for k in keys:
        qs += [("info_oid", k), ("exists_oid", k), ("hash_oid", k), ("listdir", k), ("download", k)]
    return qs


# ------------------------------------------------------------------ contract predicates on the real provider
def contract_failures(tgt, ops, results, events):
    """The property's own statements evaluated on what the real provider did (independent of the model).
    -> list of (law, detail)"""
    bad = []
    p = tgt.p
    for i, (op, r) in enumerate(zip(ops, results)):
        k = op[0]
        if r[0] != 0:
            continue
        v = r[1]
        if k in ("create", "upload") and isinstance(v, list) and len(v) == 5:
            # hash law: reported hash = hash of the uploaded bytes
            if v[2] != [op[2]]:
                bad.append(("hash_law", dict(step=i, op=op_json(op), reported=v[2])))
        if k in MUTATORS:
            # events_complete: the mutation is reported with the object's current oid and existence
            evs = events[i]
            if k == "create":
                want = (v[1], 1)
            elif k == "mkdir":
                want = (v, 1) if evs or True else None
            elif k == "rename":
                want = (v, 1)
            elif k == "upload":
                want = (v[1], 1)
            else:
                want = None
            if k == "mkdir" and not evs:
                want = None          # an existing folder is returned as is: no mutation
            if k == "rename" and not evs and v == key_wire(op[1]):
                want = None          # rename onto its own path: no mutation
            if want and not any(e[2] == want[0] and e[4] == want[1] for e in evs):
                bad.append(("events_complete", dict(step=i, op=op_json(op), events=evs)))
            if k == "delete" and evs and not all(e[4] == 0 for e in evs):
                bad.append(("events_delete_exists_false", dict(step=i, op=op_json(op), events=evs)))
            # id stability / oid = path
            if k == "rename":
                if not tgt.oip and v != key_wire(op[1]) and op[1][0] == 0:
                    bad.append(("oid_stable", dict(step=i, op=op_json(op), got=v)))
                if tgt.oip and v != [1, pwire(op[2])]:
                    bad.append(("oid_is_path", dict(step=i, op=op_json(op), got=v)))
        if k == "info_path" and v:
            inf = v[0]
            if tgt.oip and inf[1] != [1, inf[3]]:
                bad.append(("oid_is_path", dict(step=i, op=op_json(op), got=inf)))
    return bad


def state_agreement_failures(tgt, g):
    """info / listdir / exists / download / hash agree with each other on the provider's final state."""
    bad = []
    p = tgt.p
    for path in g.all_paths:
        s = pstr(path)
        try:
            i = p.info_path(s)
            e = p.exists_path(s)
            if (i is not None) != bool(e):
                bad.append(("info_exists_path", dict(path=s)))
            if i is None:
                continue
            if not p.exists_oid(i.oid):
                bad.append(("info_path_oid_exists", dict(path=s, oid=tgt.enc_oid(i.oid))))
            j = p.info_oid(i.oid)
            if j is None or (j.otype, j.oid, j.hash, j.path) != (i.otype, i.oid, i.hash, i.path):
                bad.append(("info_oid_info_path", dict(path=s)))
            if i.otype.value == "file":
                f = io.BytesIO()
                p.download(i.oid, f)
                h = p.hash_data(io.BytesIO(f.getvalue()))
                if h != i.hash or p.hash_oid(i.oid) != i.hash:
                    bad.append(("hash_law", dict(path=s, size=len(f.getvalue()))))
            else:
                kids = list(p.listdir(i.oid))
                oids = [k.oid for k in kids]
                if len(set(oids)) != len(oids):
                    bad.append(("listdir_duplicates", dict(path=s)))
                for k in kids:
                    ki = p.info_oid(k.oid)
                    if ki is None or not p.paths_match(p.dirname(k.path), i.path) or ki.path != k.path:
                        bad.append(("listdir_child", dict(path=s, child=k.path)))
            if path:
                par = p.info_path(pstr(path[:-1]))
                if par is None or par.otype.value != "dir":
                    bad.append(("parent_live_folder", dict(path=s)))
                elif i.oid not in [k.oid for k in p.listdir(par.oid)]:
                    bad.append(("listed_in_parent", dict(path=s)))
        except Exception as e:      # noqa
            bad.append(("raises", dict(path=s, exc=type(e).__name__)))
    return bad


# ------------------------------------------------------------------ main
def run(ctx):
    envfix.install()
    g = ctx.coq_gate("PropC16")
    dist = fw.Distinct()
    stats = dict(sequences=0, calls=0, op_kinds={}, err_kinds={}, ok_calls=0, unspecified=0,
                 size_classes={0: 0, 1: 0, 2: 0, 3: 0}, malformed_sequences=0, predicate_evals=0)
    samples = []
    if g is None:
        return ctx.finish(["(coq gate failed)"])
    for n in NAMES + DOT_NAMES:
        for c in n:
            if chr(fold_std(ord(c))) != c.lower():
                ctx.violation("model case fold differs from str.lower() on %r" % c, dict(kind="fold", char=c),
                              no_input=True, theorem="fold_std hypothesis")
    model = fw.ModelProc("prov")
    quick = ctx.quick
    nseq = 2000 if quick else 40000
    t_budget = 38 if quick else 420
    t_start = time.time()
    mismatches = []

    def check_batch(batch, flavour):
        reqs = [[0, [1 if flavour[0] else 0, 1 if flavour[1] else 0, []], [op_wire(o) for o in b["ops"]]] for b in batch]
        outs = model.batch(reqs)
        for b, out in zip(batch, outs):
            for i, (op, ir, iev, mo) in enumerate(zip(b["ops"], b["results"], b["events"], out)):
                mres = canon_model_result(op, mo[0], flavour[0])
                if mres == [1, 5]:
                    stats["unspecified"] += 1
                    break
                if mres != ir or mo[1] != iev:
                    mismatches.append(dict(flavour=list(flavour), ops=[op_json(o) for o in b["ops"][:i + 1]], step=i,
                                           model=[mres, mo[1]], impl=[ir, iev]))
                    break

    for flavour in FLAVOURS:
        rng = ctx.sub_rng("mock%s%s" % flavour)
        batch = []
        per_flavour_deadline = t_start + t_budget * (FLAVOURS.index(flavour) + 1) / len(FLAVOURS)
        for si in range(nseq):
            if time.time() > per_flavour_deadline:
                break
            malformed = rng.random() < 0.15
            tgt = MockTarget(*flavour)
            ops, results, events, gen = gen_sequence(rng, tgt, malformed, NAMES + (DOT_NAMES if malformed else []))
            for q in final_queries(rng, gen, full=(si % 4 == 0)):
                ops.append(q)
                results.append(tgt.apply(q))
                events.append(tgt.new_events())
            batch.append(dict(ops=ops, results=results, events=events))
            stats["sequences"] += 1
            stats["malformed_sequences"] += 1 if malformed else 0
            stats["calls"] += len(ops)
            for op, r in zip(ops, results):
                stats["op_kinds"][op[0]] = stats["op_kinds"].get(op[0], 0) + 1
                if r[0] == 0:
                    stats["ok_calls"] += 1
                else:
                    ek = str(r[1])
                    stats["err_kinds"][ek] = stats["err_kinds"].get(ek, 0) + 1
                if op[0] in ("create", "upload"):
                    stats["size_classes"][size_class(len(POOL[op[2]]))] += 1
            dist.add((flavour, [op_json(o) for o in ops]), nontrivial=any(o[0] in MUTATORS for o in ops))
            if si < 1 and len(samples) < 4:
                samples.append(dict(flavour=dict(oid_is_path=flavour[0], case_sensitive=flavour[1]),
                                    ops=[op_json(o) for o in ops[:6]], results=results[:6]))
            if len(batch) >= 100:
                check_batch(batch, flavour)
                batch = []
        if batch:
            check_batch(batch, flavour)
    model.close()
    stats["model_calls"] = model.calls
    for m in mismatches[:5]:
        ctx.violation("model and MockProvider differ at step %d of %s: model %s impl %s"
                      % (m["step"], json.dumps(m["ops"])[:300], m["model"], m["impl"]),
                      dict(kind="correspondence", **m), no_input=True,
                      theorem="correspondence ProvModel.run vs MockProvider")
    stats["mismatches"] = len(mismatches)
    cov = ctx.coverage
    cov["evaluations"] = dist.total
    cov["distinct_nontrivial"] = dist.nontrivial
    cov["rule"] = "a sequence is non-trivial when it contains at least one mutating call; distinct = distinct (flavour, call list)"
    cov["samples"] = samples
    cov["streams"] = stats
    cov["traces_validated_against_impl"] = stats["sequences"]
    return ctx.finish(["(draft)"])
