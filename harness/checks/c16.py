"""C16 — offline providers honour the provider contract.

Theorems: coq/theories/PropC16.v about ProvModel.v (a faithful model of MockProvider/MockFS).
Tie: random API call sequences run on the real MockProvider (4 flavours: oid_is_path x case_sensitive)
and on the extracted model; every result / exception class / appended event / final tree compared.
The contract predicates of the property are also evaluated directly on the real providers
(that is the search for a failing input); FileSystemProvider is a second target on a temp directory.
"""
import glob
import io
import json
import os
import shutil
import tempfile
import time

from .. import envfix, framework as fw

FLAVOURS = [(False, True), (False, False), (True, True), (True, False)]   # (oid_is_path, case_sensitive)

# names: case variants, unicode, dots, spaces.  Every character c satisfies
# chr(c).lower() == chr(fold_std c) (checked in run()).
NAMES = ["a", "A", "b", "B", "ab", "Ab", "aB", "AB", "c", "é", "É", "中", "a.b", "A.B", ".a", "a.",
         "a b", " ", "ß", "x.txt", "X.TXT", "f1", "F1", "d", "D", "éÉ", "...", "àÀ.Z"]
DOT_NAMES = [".", ".."]          # ordinary names for the mock; resolved by the OS for the filesystem provider

ERR = {"CloudFileExistsError": 1, "CloudFileNotFoundError": 2, "CloudFileNameError": 3, "AssertionError": 4}
OPNAMES = ["create", "mkdir", "rename", "upload", "delete", "info_path", "info_oid", "listdir", "exists_path",
           "exists_oid", "download", "hash_oid", "events", "set_cursor", "tree"]
MUTATORS = {"create", "mkdir", "rename", "upload", "delete"}


def fold_std(c):
    if 65 <= c <= 90:
        return c + 32
    if 192 <= c <= 222 and c != 215:
        return c + 32
    return c


def make_pool():
    """content tokens -> bytes; all distinct; every size class of the property, with near-collisions."""
    import random
    r = random.Random(1616)
    pool = [b"", b"a", b"b", b"A", b"ab", r.randbytes(17), r.randbytes(512), r.randbytes(1023)]
    k1 = r.randbytes(1024)
    pool += [k1, k1[:-1] + bytes([k1[-1] ^ 1]), r.randbytes(1025), r.randbytes(1500), r.randbytes(2047)]
    k2 = r.randbytes(2048)
    pool += [k2, k2[:1024] + bytes([k2[1024] ^ 1]) + k2[1025:]]
    k3 = r.randbytes(2049)
    pool += [k3, k3[:1024] + bytes([k3[1024] ^ 1]) + k3[1025:], k3[:-1] + bytes([k3[-1] ^ 1])]
    k4 = r.randbytes(5000)
    pool += [k4, k4[:2500] + bytes([k4[2500] ^ 255]) + k4[2501:], r.randbytes(70000)]
    assert len(set(pool)) == len(pool)
    return pool


POOL = make_pool()


def size_class(n):
    return 0 if n == 0 else 1 if n < 1024 else 2 if n <= 2048 else 3


BYTES2TOK = {b: i for i, b in enumerate(POOL)}
TOK_BY_CLASS = {c: [i for i, b in enumerate(POOL) if size_class(len(b)) == c] for c in range(4)}


def pstr(p):
    return "/" + "/".join(p)


def pparse(s):
    if s is None:
        return ["none"]
    return [[ord(c) for c in n] for n in s.split("/") if n]


def pwire(p):
    return [[ord(c) for c in n] for n in p]


# ------------------------------------------------------------------ one provider under test
class MockTarget:
    """A real MockProvider plus the bookkeeping to canonicalise what it returns."""

    def __init__(self, oip, cs):
        from cloudsync.providers.mock import MockProvider
        self.oip, self.cs = oip, cs
        self.p = MockProvider(oip, cs)
        self.p.connect({"key": "val"})
        self.serial = {}          # real oid -> model serial (id-style)
        self.rev = {}
        self.hash2tok = {}
        for i, b in enumerate(POOL):
            self.hash2tok.setdefault(self.p.hash_data(io.BytesIO(b)), i)
        self.nlog = 0
        if not oip:
            self._see(self.p.info_path("/").oid)

    # ---- oids
    def _see(self, oid):
        if oid not in self.serial:
            n = len(self.serial)
            self.serial[oid] = n
            self.rev[n] = oid
        return self.serial[oid]

    def enc_oid(self, oid, learn=False):
        if oid is None:
            return ["none"]
        if isinstance(oid, str) and oid.startswith("/"):
            return [1, pparse(oid)]
        if self.oip:
            return ["weird", repr(oid)]
        if learn:
            return [0, self._see(oid)]
        return [0, self.serial.get(oid, 10 ** 9)]

    def dec_key(self, k):
        """model key -> the string handed to the provider"""
        if k[0] == 1:
            return pstr(k[1])
        return self.rev.get(k[1], "9%08d" % k[1])

    # ---- canonical values
    def tok(self, h):
        if h is None:
            return []
        return [self.hash2tok.get(h, 10 ** 9)]

    def info(self, i, learn=False):
        if i is None:
            return []
        return [0 if i.otype.value == "file" else 1, self.enc_oid(i.oid, learn), self.tok(i.hash), pparse(i.path),
                [ord(c) for c in (i.name or "")]]

    def new_events(self):
        """internal MockEvent log entries appended since the last call, canonical"""
        evs = self.p._events[self.nlog:]
        self.nlog = len(self.p._events)
        out = []
        for e in evs:
            d = e.serialize()
            out.append([["provider create", "provider rename", "provider modify", "provider delete"].index(d["action"]),
                        0 if d["object type"] == "mock file" else 1, self.enc_oid(d["id"]), pparse(d["path"]),
                        0 if d["trashed"] else 1, [] if d["prior_oid"] is None else [self.enc_oid(d["prior_oid"])]])
        return out

    def tree(self):
        seen, out = set(), []
        for k, o in self.p._mock_fs._objects.items():
            if k.startswith("/") and o.exists and id(o) not in seen:
                seen.add(id(o))
                out.append([pparse(o.path), 0 if o.type == "mock file" else 1,
                            self.hash2tok.get(self.p._hash_func(o.contents), 10 ** 9) if o.type == "mock file" else 0])
        return sorted(out, key=lambda e: ([tuple(n) for n in e[0]]))

    def snapshot(self):
        """live objects filed under a path key of MockFS._objects: key -> (identity, path, type, contents, oid)"""
        return {k: (id(o), o.path, o.type, o.contents, o.oid)
                for k, o in self.p._mock_fs._objects.items() if k.startswith("/") and o.exists}

    # ---- run one op (model-shaped tuple) on the real provider -> canonical result
    def apply(self, op):
        p = self.p
        kind = op[0]
        try:
            if kind == "create":
                i = p.create(pstr(op[1]), io.BytesIO(POOL[op[2]]))
                r = self.info(i, learn=True)
                if i.size != len(POOL[op[2]]):
                    r = ["size", i.size]
            elif kind == "mkdir":
                r = self.enc_oid(p.mkdir(pstr(op[1])), learn=True)
            elif kind == "rename":
                r = self.enc_oid(p.rename(self.dec_key(op[1]), pstr(op[2])))
            elif kind == "upload":
                i = p.upload(self.dec_key(op[1]), io.BytesIO(POOL[op[2]]))
                r = self.info(i)
                if i.size != len(POOL[op[2]]):
                    r = ["size", i.size]
            elif kind == "delete":
                p.delete(self.dec_key(op[1]))
                r = []
            elif kind == "info_path":
                i = p.info_path(pstr(op[1]))
                r = [] if i is None else [self.info(i)]
            elif kind == "info_oid":
                i = p.info_oid(self.dec_key(op[1]))
                r = [] if i is None else [self.info(i)]
            elif kind == "listdir":
                r = sorted(self.info(i) for i in p.listdir(self.dec_key(op[1])))
            elif kind == "exists_path":
                r = 1 if p.exists_path(pstr(op[1])) else 0
            elif kind == "exists_oid":
                r = 1 if p.exists_oid(self.dec_key(op[1])) else 0
            elif kind == "download":
                f = io.BytesIO()
                p.download(self.dec_key(op[1]), f)
                r = BYTES2TOK.get(f.getvalue(), 10 ** 9)
            elif kind == "hash_oid":
                r = self.tok(p.hash_oid(self.dec_key(op[1])))
            elif kind == "events":
                r = []
                for e in p.events():
                    r.append([0 if e.otype.value == "file" else 1, self.enc_oid(e.oid),
                              [] if e.path is None else [pparse(e.path)], 1 if e.exists else 0,
                              [] if e.prior_oid is None else [self.enc_oid(e.prior_oid)],
                              ["hash"] if e.hash is not None else []])
            elif kind == "set_cursor":
                p.current_cursor = None if op[1] is None else op[1] - 1
                r = []
            elif kind == "tree":
                r = self.tree()
            else:
                raise ValueError(kind)
            return [0, r]
        except Exception as e:          # noqa
            n = type(e).__name__
            return [1, ERR.get(n, ["exc", n, str(e)[:80]])]


class FSTarget(MockTarget):
    """FileSystemProvider on one temporary namespace directory, wiped between sequences."""

    def __init__(self):
        from cloudsync.providers.filesystem import FileSystemProvider, get_hash
        self.oip, self.cs = True, True
        self.root = os.path.realpath(tempfile.mkdtemp(prefix="c16fs-"))
        self.p = FileSystemProvider()
        if not self.p.case_sensitive:
            raise RuntimeError("case-insensitive temp file system: not modelled")
        self.p.namespace_id = self.root
        self.p.connect(None)
        self.serial, self.rev = {}, {}
        self.hash2tok = {}
        for i, b in enumerate(POOL):
            self.hash2tok.setdefault(get_hash(b), i)       # what hash_oid / info report: blake2b of the whole file
        self.nlog = 0

    def reset(self):
        for n in os.listdir(self.root):
            q = os.path.join(self.root, n)
            if os.path.isdir(q) and not os.path.islink(q):
                shutil.rmtree(q)
            else:
                os.unlink(q)
        self.p._hash_cache.clear()

    def close(self):
        try:
            self.p.disconnect()
        finally:
            shutil.rmtree(self.root, ignore_errors=True)

    def enc_oid(self, oid, learn=False):
        if oid is None:
            return ["none"]
        if oid == self.root:
            return [1, []]
        if isinstance(oid, str) and oid.startswith(self.root + "/"):
            return [1, pparse(oid[len(self.root):])]
        return ["weird", repr(oid)]

    def dec_key(self, k):
        if k[0] == 1:
            return self.root + ("/" + "/".join(k[1]) if k[1] else "")
        return self.root + "/__never_issued_%d" % k[1]

    def info(self, i, learn=False):
        if i is None:
            return []
        path = pparse(i.path)
        name = path[-1] if path else []
        if i.name is not None and [ord(c) for c in i.name] != name:
            name = ["name", i.name]
        return [0 if i.otype.value == "file" else 1, self.enc_oid(i.oid), self.tok(i.hash), path, name]

    def new_events(self):
        return []

    def apply(self, op):
        r = MockTarget.apply(self, op)
        if r == [1, 1]:
            # ENOTDIR is reported as CloudFileExistsError: tell the cases where a proper ancestor is a regular file
            for x in op[1:]:
                pth = x[1] if isinstance(x, tuple) and len(x) == 2 and x[0] == 1 and isinstance(x[1], tuple) else x
                if isinstance(pth, tuple) and all(isinstance(n, str) for n in pth):
                    for n in range(1, len(pth)):
                        if os.path.isfile(self.root + "/" + "/".join(pth[:n])):
                            return [1, 21]
        return r

    def tree(self):
        out = [[[], 1, 0]]
        for dp, dns, fns in os.walk(self.root):
            rel = pparse(dp[len(self.root):])
            for n in dns:
                out.append([rel + [[ord(c) for c in n]], 1, 0])
            for n in fns:
                with open(os.path.join(dp, n), "rb") as fh:
                    b = fh.read()
                out.append([rel + [[ord(c) for c in n]], 0, POOL.index(b) if b in POOL else 10 ** 9])
        return sorted(out, key=lambda e: ([tuple(n) for n in e[0]]))


def op_wire(op):
    k = op[0]
    c = OPNAMES.index(k)
    if k == "create":
        return [c, pwire(op[1]), op[2]]
    if k in ("mkdir", "info_path", "exists_path"):
        return [c, pwire(op[1])]
    if k == "rename":
        return [c, key_wire(op[1]), pwire(op[2])]
    if k == "upload":
        return [c, key_wire(op[1]), op[2]]
    if k in ("delete", "info_oid", "listdir", "exists_oid", "download", "hash_oid"):
        return [c, key_wire(op[1])]
    if k == "set_cursor":
        return [c, [] if op[1] is None else [op[1]]]
    return [c]


def key_wire(k):
    return [0, k[1]] if k[0] == 0 else [1, pwire(k[1])]


def op_json(op):
    return [x if not isinstance(x, tuple) else list(x) for x in op]


def canon_model_result(op, res, oip):
    """model result -> the canonical form MockTarget.apply produces"""
    if res[0] == 1:
        return [1, res[1]]
    v = res[1]
    k = op[0]
    if k == "listdir":
        v = sorted(v)
    elif k == "events":
        v = [[e[1], e[2], [e[3]] if oip else [], e[4], e[5], []] for e in v]
    elif k == "tree":
        v = [[e[0], e[1], e[2]] for e in v]
    return [0, v]


# ------------------------------------------------------------------ generator
class Gen:
    """Chooses the next call by looking at a shadow of the live tree (kept from the provider's own answers)."""

    def __init__(self, rng, tgt, malformed, names, max_depth=3):
        self.rng, self.t, self.malformed, self.names, self.max_depth = rng, tgt, malformed, names, max_depth
        self.live = {(): ("d", self.root_key())}     # normalised path tuple -> (kind, key, display path)
        self.disp = {(): ()}
        self.dead_keys = []
        self.all_paths = [()]
        self.nmut = 0

    def root_key(self):
        return (1, ()) if self.t.oip else (0, 0)

    def norm(self, p):
        return tuple(p) if self.t.cs else tuple(n.lower() for n in p)

    def fresh_name(self, parent):
        for _ in range(8):
            n = self.rng.choice(self.names)
            if self.norm(parent + (n,)) not in self.live:
                return n
        return "n%d" % self.rng.randrange(10 ** 6)

    def dirs(self, maxlen):
        return [self.disp[k] for k, v in self.live.items() if v[0] == "d" and len(k) <= maxlen]

    def objs(self, kind=None):
        return [k for k, v in self.live.items() if k != () and (kind is None or v[0] == kind)]

    def case_variant(self, p):
        if self.rng.random() < 0.3:
            return tuple(n.swapcase() for n in p)
        return p

    def some_key(self):
        """a key for a query or a malformed call: live, dead, never issued, or a path used as an oid"""
        r = self.rng.random()
        if not self.malformed:
            r = r * 0.84
        if r < 0.6 and self.live:
            return self.live[self.rng.choice(list(self.live))][1]
        if r < 0.75 and self.dead_keys:
            return self.rng.choice(self.dead_keys)
        if r < 0.85:
            return (0, 900000 + self.rng.randrange(5)) if not self.t.oip else (1, (self.rng.choice(self.names), "zz"))
        return (1, self.case_variant(self.rng.choice(self.all_paths)))

    def some_path(self):
        r = self.rng.random()
        if r < 0.7:
            return self.case_variant(self.rng.choice(self.all_paths))
        d = self.rng.choice(self.all_paths)
        return d + (self.rng.choice(self.names),)

    def next_op(self):
        rng = self.rng
        bad = self.malformed and rng.random() < 0.35
        x = rng.random()
        if x < 0.22:
            # create
            ds = self.dirs(self.max_depth - 1)
            if bad or not ds:
                return ("create", self.some_path() if rng.random() < 0.8 else (), rng.randrange(len(POOL)))
            d = rng.choice(ds)
            n = self.fresh_name(d) if rng.random() < 0.9 else rng.choice(self.names)
            return ("create", self.case_variant(d) + (n,), rng.choice(TOK_BY_CLASS[rng.randrange(4)]))
        if x < 0.36:
            ds = self.dirs(self.max_depth - 1)
            if bad or not ds:
                return ("mkdir", self.some_path() + ((rng.choice(self.names),) if rng.random() < 0.3 else ()))
            d = rng.choice(ds)
            n = self.fresh_name(d) if rng.random() < 0.85 else rng.choice(self.names)
            return ("mkdir", self.case_variant(d) + (n,))
        if x < 0.58:
            os_ = self.objs()
            if not bad and not os_:
                return ("mkdir", (self.fresh_name(()),))
            if bad:
                return ("rename", self.some_key(), self.some_path())
            src = rng.choice(os_)
            kind, key = self.live[src][0], self.live[src][1]
            sub = max([len(k) - len(src) for k in self.live if k[:len(src)] == src] + [0])
            ds = [d for d in self.dirs(self.max_depth - 1 - sub) if self.norm(d)[:len(src)] != src]
            if not ds:
                ds = [()]
            d = rng.choice(ds)
            y = rng.random()
            if y < 0.55:
                n = self.fresh_name(d)
            elif y < 0.7:
                n = self.disp[src][-1]                     # same name, other folder (or onto itself)
            elif y < 0.82:
                n = self.disp[src][-1].swapcase()          # case-only variant
            else:
                kids = [self.disp[k][-1] for k in self.live if len(k) == len(d) + 1 and k[:len(d)] == self.norm(d)]
                n = rng.choice(kids) if kids else self.fresh_name(d)   # onto something that exists
            return ("rename", key, self.case_variant(d) + (n,))
        if x < 0.68:
            fs = self.objs("f")
            if not bad and not fs:
                return ("create", (self.fresh_name(()),), rng.randrange(len(POOL)))
            if bad:
                return ("upload", self.some_key(), rng.randrange(len(POOL)))
            return ("upload", self.live[rng.choice(fs)][1], rng.choice(TOK_BY_CLASS[rng.randrange(4)]))
        if x < 0.78:
            os_ = self.objs()
            if not bad and not os_:
                return ("create", (self.fresh_name(()),), rng.randrange(len(POOL)))
            if bad:
                return ("delete", self.some_key())
            return ("delete", self.live[rng.choice(os_)][1])
        if x < 0.95:
            q = rng.choice(["info_path", "info_oid", "listdir", "exists_path", "exists_oid", "download", "hash_oid"])
            if q in ("info_path", "exists_path"):
                return (q, self.some_path())
            if q == "listdir" and rng.random() < 0.7:
                ds = self.dirs(9)
                if ds:
                    return (q, self.live[self.norm(rng.choice(ds))][1])
            if q == "download" and rng.random() < 0.7:
                fs = self.objs("f")
                if fs:
                    return (q, self.live[rng.choice(fs)][1])
            return (q, self.some_key())
        if x < 0.99:
            return ("events",)
        return ("set_cursor", None if rng.random() < 0.5 else rng.randrange(0, self.t.nlog + 1))

    # ---- shadow maintenance from the provider's answer
    def note(self, op, res):
        for x in op[1:]:
            if isinstance(x, tuple) and (not x or isinstance(x[0], str)) and x not in self.all_paths and len(self.all_paths) < 60:
                self.all_paths.append(x)
        if res[0] != 0:
            return
        k = op[0]
        if k == "create" and isinstance(res[1], list) and len(res[1]) == 5:
            key = self.keyt(res[1][1])
            if key is not None:
                self.live[self.norm(op[1])] = ("f", key)
                self.disp[self.norm(op[1])] = op[1]
        elif k == "mkdir":
            if self.norm(op[1]) not in self.live and self.keyt(res[1]) is not None:
                self.live[self.norm(op[1])] = ("d", self.keyt(res[1]))
                self.disp[self.norm(op[1])] = op[1]
        elif k == "delete":
            for kk, v in list(self.live.items()):
                if v[1] == op[1]:
                    del self.live[kk]
                    self.dead_keys.append(v[1])
        elif k == "rename":
            src = [kk for kk, v in self.live.items() if v[1] == op[1]]
            if src and self.keyt(res[1]) is not None:
                src = src[0]
                dst = self.norm(op[2])
                newkey = self.keyt(res[1])
                if dst in self.live and dst != src:
                    self.dead_keys.append(self.live[dst][1])
                    del self.live[dst]
                moved = [(kk, v) for kk, v in self.live.items() if kk[:len(src)] == src]
                for kk, v in moved:
                    del self.live[kk]
                for kk, v in moved:
                    nk = dst + kk[len(src):]
                    nd = tuple(op[2]) + self.disp[kk][len(src):]
                    key = v[1]
                    if self.t.oip:
                        key = (1, nd)
                    self.live[nk] = (v[0], key if kk != src else newkey)
                    self.disp[nk] = nd

    @staticmethod
    def keyt(k):
        if not isinstance(k, list) or len(k) != 2 or k[0] not in (0, 1):
            return None
        if k[0] == 0:
            return (0, k[1])
        if not all(isinstance(n, list) for n in k[1]):
            return None
        return (1, tuple("".join(chr(c) for c in n) for n in k[1]))


def touched_queries(rng, op, res, gen):
    """queries about what the call touched (compared like every other call)"""
    qs = []
    k = op[0]
    paths, keys = [], []
    if k in ("create", "mkdir"):
        paths.append(op[1])
        if res[0] == 0:
            kk = res[1][1] if k == "create" and len(res[1]) == 5 else res[1]
            if Gen.keyt(kk) is not None:
                keys.append(Gen.keyt(kk))
    elif k == "rename":
        paths.append(op[2])
        keys.append(op[1])
        if res[0] == 0 and Gen.keyt(res[1]) is not None:
            keys.append(Gen.keyt(res[1]))
    elif k in ("upload", "delete"):
        keys.append(op[1])
    for p in paths:
        qs.append(("info_path", p))
        if len(p) > 0 and rng.random() < 0.5:
            par = gen.live.get(gen.norm(p[:-1]))
            if par:
                qs.append(("listdir", par[1]))
    for key in keys[:2]:
        qs.append(("info_oid", key))
        if rng.random() < 0.3:
            qs.append(("listdir", key))
        if rng.random() < 0.3:
            qs.append(("download", key))
    return qs


def rename_subtree_failures(tgt, before, after, old, new):
    """C16_rename_moves_subtree evaluated on the real MockProvider: `before`/`after` are MockTarget.snapshot()
    around a successful rename of the live object at display path `old` (tuple) to `new` (tuple), under the
    theorem's guard (sane flavour, new not "/", new not strictly inside old, old != new).
    -> list of (law, detail)"""
    norm = (lambda t: tuple(t)) if tgt.cs else (lambda t: tuple(n.lower() for n in t))
    comps = lambda s_: tuple(n for n in s_.split("/") if n)
    under = lambda q: len(q) >= len(old) and norm(q[:len(old)]) == norm(old)
    bad = []
    produced = {}
    for key, ent in before.items():
        q = comps(ent[1])
        if under(q):
            dest = tuple(new) + q[len(old):]
            nk = pstr(norm(dest))
            got = after.get(nk)
            want_oid = pstr(dest) if tgt.oip else ent[4]
            if got is None or got[0] != ent[0] or got[1] != pstr(dest) or got[2] != ent[2] or got[3] != ent[3] \
                    or got[4] != want_oid:
                bad.append(("rename_moves_subtree", dict(part="moved", was=ent[1], want=pstr(dest),
                                                         got=None if got is None else [got[1], got[2], str(got[4])])))
            produced[nk] = True
        elif key != pstr(norm(new)):
            if after.get(key) != ent:
                bad.append(("rename_moves_subtree", dict(part="stays", path=ent[1])))
    if norm(old) != norm(new):
        for key, ent in after.items():
            if under(comps(key)):
                bad.append(("rename_moves_subtree", dict(part="old path free", path=ent[1])))
    for key, ent in after.items():
        if key not in produced and before.get(key) != ent:
            bad.append(("rename_moves_subtree", dict(part="appears", path=ent[1])))
    return bad


def gen_sequence(rng, tgt, malformed, names):
    """-> (ops, impl_results, impl_events) generated while running the real provider"""
    g = Gen(rng, tgt, malformed, names)
    g.subtree_failures, g.subtree_evals = [], 0
    n = rng.randint(1, 30)
    ops, results, events = [], [], []

    def do(op):
        before = src = None
        if op[0] == "rename" and isinstance(tgt, MockTarget) and (tgt.cs or not tgt.oip):
            o = tgt.p._mock_fs._objects.get(tgt.dec_key(op[1]))
            if o is not None and o.exists:
                src = tuple(n_ for n_ in o.path.split("/") if n_)
                before = tgt.snapshot()
        r = tgt.apply(op)
        if before is not None and r[0] == 0:
            new = tuple(op[2])
            nrm = (lambda t: tuple(t)) if tgt.cs else (lambda t: tuple(x.lower() for x in t))
            inside = len(new) > len(src) and nrm(new[:len(src)]) == nrm(src)
            if new and not inside and src != new:
                g.subtree_evals += 1
                g.subtree_failures += rename_subtree_failures(tgt, before, tgt.snapshot(), src, new)
        ops.append(op)
        results.append(r)
        events.append(tgt.new_events())
        g.note(op, r)
        return r
    for _ in range(n):
        op = g.next_op()
        r = do(op)
        if op[0] in MUTATORS:
            for q in touched_queries(rng, op, r, g):
                do(q)
    return ops, results, events, g


def final_queries(rng, g, full):
    qs = [("tree",), ("events",)]
    paths = list(g.all_paths)
    keys = list({v[1] for v in g.live.values()}) + g.dead_keys[:5]
    if not full:
        rng.shuffle(paths)
        rng.shuffle(keys)
        paths, keys = paths[:3], keys[:3]
    for p in paths:
        qs += [("info_path", p), ("exists_path", p)]
    for k in keys:
        qs += [("info_oid", k), ("exists_oid", k), ("hash_oid", k), ("listdir", k), ("download", k)]
    return qs


# ------------------------------------------------------------------ contract predicates on the real provider
def contract_failures(tgt, ops, results, events):
    """The property's own statements evaluated on what the real provider did (independent of the model).
    -> list of (law, detail)"""
    bad = []
    p = tgt.p
    for i, (op, r) in enumerate(zip(ops, results)):
        k = op[0]
        if r[0] != 0:
            continue
        v = r[1]
        if k in ("create", "upload") and isinstance(v, list) and len(v) == 5:
            # hash law: reported hash = hash of the uploaded bytes
            if v[2] != [op[2]]:
                bad.append(("hash_law", dict(step=i, op=op_json(op), reported=v[2])))
        if k in MUTATORS:
            # events_complete: the mutation is reported with the object's current oid and existence
            evs = events[i]
            if k == "create":
                want = (v[1], 1)
            elif k == "mkdir":
                want = (v, 1) if evs or True else None
            elif k == "rename":
                want = (v, 1)
            elif k == "upload":
                want = (v[1], 1)
            else:
                want = None
            if k == "mkdir" and not evs:
                want = None          # an existing folder is returned as is: no mutation
            if k == "rename" and not evs and v == key_wire(op[1]):
                want = None          # rename onto its own path: no mutation
            if want and not any(e[2] == want[0] and e[4] == want[1] for e in evs):
                bad.append(("events_complete", dict(step=i, op=op_json(op), events=evs)))
            if k == "delete" and evs and not all(e[4] == 0 for e in evs):
                bad.append(("events_delete_exists_false", dict(step=i, op=op_json(op), events=evs)))
            if k == "rename" and i + 1 < len(ops) and ops[i + 1] == ("info_path", op[2]) and results[i + 1] == [0, []]:
                bad.append(("rename_target_missing", dict(step=i, op=op_json(op))))
            # id stability / oid = path
            if k == "rename":
                if not tgt.oip and v != key_wire(op[1]) and op[1][0] == 0:
                    bad.append(("oid_stable", dict(step=i, op=op_json(op), got=v)))
                if tgt.oip and v != [1, pwire(op[2])]:
                    bad.append(("oid_is_path", dict(step=i, op=op_json(op), got=v)))
        if k == "info_path" and v:
            inf = v[0]
            if tgt.oip and inf[1] != [1, inf[3]]:
                bad.append(("oid_is_path", dict(step=i, op=op_json(op), got=inf)))
    return bad


def state_agreement_failures(tgt, g):
    """info / listdir / exists / download / hash agree with each other on the provider's final state."""
    bad = []
    p = tgt.p
    for path in g.all_paths:
        s = pstr(path)
        try:
            i = p.info_path(s)
            e = p.exists_path(s)
            if (i is not None) != bool(e):
                bad.append(("info_exists_path", dict(path=s)))
            if i is None:
                continue
            if not p.exists_oid(i.oid):
                bad.append(("info_path_oid_exists", dict(path=s, oid=tgt.enc_oid(i.oid))))
            j = p.info_oid(i.oid)
            if j is None or (j.otype, j.oid, j.hash, j.path) != (i.otype, i.oid, i.hash, i.path):
                bad.append(("info_oid_info_path", dict(path=s)))
            if i.otype.value == "file":
                f = io.BytesIO()
                p.download(i.oid, f)
                h = p.hash_data(io.BytesIO(f.getvalue()))
                if h != i.hash or p.hash_oid(i.oid) != i.hash:
                    bad.append(("hash_law", dict(path=s, size=len(f.getvalue()))))
            else:
                kids = list(p.listdir(i.oid))
                oids = [k.oid for k in kids]
                if len(set(oids)) != len(oids):
                    bad.append(("listdir_duplicates", dict(path=s)))
                for k in kids:
                    ki = p.info_oid(k.oid)
                    if ki is None or not p.paths_match(p.dirname(k.path), i.path) or ki.path != k.path:
                        bad.append(("listdir_child", dict(path=s, child=k.path)))
            if path:
                par = p.info_path(pstr(path[:-1]))
                if par is None or par.otype.value != "dir":
                    bad.append(("parent_live_folder", dict(path=s)))
                elif i.oid not in [k.oid for k in p.listdir(par.oid)]:
                    bad.append(("listed_in_parent", dict(path=s)))
        except Exception as e:      # noqa
            bad.append(("raises", dict(path=s, exc=type(e).__name__)))
    return bad


# ------------------------------------------------------------------ corpus cases (witnesses of findings, run first)
def op_from_json(o):
    def conv(x):
        if isinstance(x, list) and len(x) == 2 and x[0] in (0, 1) and not isinstance(x[1], str) and \
                (isinstance(x[1], int) or isinstance(x[1], list)) and (x[0] == 0) == isinstance(x[1], int):
            return (0, x[1]) if x[0] == 0 else (1, tuple(x[1]))
        if isinstance(x, list):
            return tuple(x)
        return x
    k = o[0]
    if k in ("rename",):
        return (k, conv(o[1]), tuple(o[2]))
    if k in ("upload",):
        return (k, conv(o[1]), o[2])
    if k in ("delete", "info_oid", "listdir", "exists_oid", "download", "hash_oid"):
        return (k, conv(o[1]))
    if k == "create":
        return (k, tuple(o[1]), o[2])
    if k in ("mkdir", "info_path", "exists_path"):
        return (k, tuple(o[1]))
    return tuple(o)


class _Paths:
    def __init__(self, ops):
        self.all_paths = [()]
        for o in ops:
            for x in o[1:]:
                cands = []
                if isinstance(x, tuple) and (not x or isinstance(x[0], str)):
                    cands.append(x)
                if isinstance(x, tuple) and len(x) == 2 and x[0] == 1 and isinstance(x[1], tuple):
                    cands.append(x[1])
                for c in cands:
                    for n in range(len(c) + 1):
                        if c[:n] not in self.all_paths:
                            self.all_paths.append(c[:n])


def run_ops_on(tgt, ops):
    results, events = [], []
    for op in ops:
        results.append(tgt.apply(op))
        events.append(tgt.new_events())
    return results, events


def replay_mock_case(case):
    """-> list of failed laws on the real MockProvider for a corpus sequence"""
    tgt = MockTarget(*case["flavour"])
    ops = [op_from_json(o) for o in case["ops"]]
    results, events = run_ops_on(tgt, ops)
    return [law for law, _ in contract_failures(tgt, ops, results, events) + state_agreement_failures(tgt, _Paths(ops))]


FS_HASH_TITLE = "FileSystemProvider.hash_data differs from hash_oid/info.hash above 2 KiB"


def fs_hash_case(tok):
    return dict(kind="fs-hash-law", token=tok, size=len(POOL[tok]), title=FS_HASH_TITLE)


def fs_hash_law_failures(fs, token):
    """hash law on the real FileSystemProvider for one content: info.hash, hash_oid = hash_data(same bytes)"""
    fs.reset()
    data = POOL[token]
    p = fs.p
    i = p.create("/h", io.BytesIO(data))
    hd = p.hash_data(io.BytesIO(data))
    bad = []
    if i.hash != hd:
        bad.append("create.info.hash != hash_data(bytes)")
    if p.hash_oid(i.oid) != hd:
        bad.append("hash_oid != hash_data(bytes)")
    if p.info_path("/h").hash != hd:
        bad.append("info_path.hash != hash_data(bytes)")
    f = io.BytesIO()
    p.download(i.oid, f)
    if f.getvalue() != data:
        bad.append("download != uploaded bytes")
    return bad


def fs_event_convert_failures(fs, which):
    """the translation of one watchdog event (as the installed watchdog builds it) by the real provider"""
    from watchdog import events as we
    fs.reset()
    p = fs.p
    bad = []
    if which == "file-created":
        i = p.create("/e", io.BytesIO(b"x"))
        ev = p._convert_watchdog_event(we.FileCreatedEvent(i.oid))
        if ev is None or ev.oid != i.oid or ev.exists is not True or ev.prior_oid is not None:
            bad.append("create event: oid=%r exists=%r prior_oid=%r" % (getattr(ev, "oid", None), getattr(ev, "exists", None),
                                                                      getattr(ev, "prior_oid", None) and "<source path>"))
    elif which == "file-deleted":
        i = p.create("/e", io.BytesIO(b"x"))
        p.delete(i.oid)
        ev = p._convert_watchdog_event(we.FileDeletedEvent(i.oid))
        if ev is None or ev.oid != i.oid or ev.exists is not False or ev.prior_oid is not None:
            bad.append("delete event: oid=%r exists=%r" % (getattr(ev, "oid", None), getattr(ev, "exists", None)))
    elif which == "dir-created":
        oid = p.mkdir("/ed")
        ev = p._convert_watchdog_event(we.DirCreatedEvent(oid))
        if ev is None or ev.oid != oid or ev.exists is not True or ev.prior_oid is not None:
            bad.append("mkdir event: oid=%r exists=%r" % (getattr(ev, "oid", None), getattr(ev, "exists", None)))
    elif which == "file-moved":
        i = p.create("/e", io.BytesIO(b"x"))
        new = p.rename(i.oid, "/e2")
        ev = p._convert_watchdog_event(we.FileMovedEvent(i.oid, new))
        if ev is None or ev.oid != new or ev.exists is not True or ev.prior_oid != i.oid:
            bad.append("rename event: oid=%r exists=%r" % (getattr(ev, "oid", None), getattr(ev, "exists", None)))
    return bad


def fs_error_class_failures(fs, case):
    """every failing call raises one of the documented classes"""
    fs.reset()
    bad = []
    for o in case["ops"]:
        r = fs.apply(op_from_json(o))
        if r[0] == 1 and not isinstance(r[1], int):
            bad.append("%s raises %s" % (o[0], r[1][1]))
    return bad


def fs_ancestor_is_file(b, i):
    return False


def replay_corpus(ctx, fs, stats):
    files = sorted(glob.glob(os.path.join(fw.VERIF, "corpus", "C16", "*.json")))
    stats["_corpus_cases"] = []
    for fn in files:
        case = json.load(open(fn))
        stats["_corpus_cases"].append(case)
        kind = case.get("kind")
        if kind == "mock-seq":
            bad = replay_mock_case(case)
        elif kind == "fs-hash-law":
            bad = fs_hash_law_failures(fs, case["token"]) if fs else []
        elif kind == "fs-event-convert":
            bad = fs_event_convert_failures(fs, case["event"]) if fs else []
        elif kind == "fs-error-class":
            bad = fs_error_class_failures(fs, case) if fs else []
        else:
            bad = ["unknown corpus case kind"]
        stats["corpus_cases"] += 1
        if bad:
            stats["corpus_failing"] += 1
            ctx.violation("%s: %s" % (case.get("title", kind), "; ".join(sorted(set(bad)))[:300]), case)


# ------------------------------------------------------------------ Provider.connect against the model
def connect_stream(ctx, model, stats, n):
    from cloudsync.providers.mock import MockProvider
    from cloudsync.exceptions import CloudTokenError

    class IdProv(MockProvider):
        """connect_impl answers the identity the credentials belong to (as a real cloud does)"""
        def connect_impl(self, creds):
            if not creds:
                raise CloudTokenError()
            return "id-%d" % creds["who"]
    rng = ctx.sub_rng("connect")
    reqs, impl = [], []
    for _ in range(n):
        p = IdProv(False, True)
        ops, out = [], []
        for _ in range(rng.randint(1, 8)):
            x = rng.random()
            if x < 0.55:
                who = rng.choice([None, 1, 1, 2, 3])
                ops.append([0, [] if who is None else [who]])
                try:
                    p.connect(None if who is None else {"who": who})
                    r = 0
                except CloudTokenError:
                    r = 1
            elif x < 0.75:
                ops.append([1])
                p.disconnect()
                r = 0
            elif x < 0.92:
                ops.append([2])
                try:
                    p.reconnect()
                    r = 0
                except CloudTokenError:
                    r = 1
            else:
                i = rng.choice([None, 1, 2])
                ops.append([3, [] if i is None else [i]])
                p.connection_id = None if i is None else "id-%d" % i
                r = 0
            cid = p.connection_id
            out.append([r, 1 if p.connected else 0, [] if cid is None else [int(cid[3:])]])
            # the property itself, on the real code
            if ops[-1][0] == 0 and ops[-1][1] and r == 1 and p.connected:
                ctx.violation("connect was refused but the provider is connected", dict(kind="connect", ops=ops))
        reqs.append([1, ops])
        impl.append(out)
    outs = model.batch(reqs)
    for rq, mo, io_ in zip(reqs, outs, impl):
        stats["connect_sequences"] += 1
        if mo != io_:
            ctx.violation("model and Provider.connect differ on %s: model %s impl %s" % (rq[1], mo, io_),
                          dict(kind="correspondence-connect", ops=rq[1], model=mo, impl=io_), no_input=True,
                          theorem="correspondence ProvModel.crun vs Provider.connect")
            break
    # the stock MockProvider: another identity in connection_id -> refused and disconnected
    p = MockProvider(False, True)
    p.connect({"key": "val"})
    mine = p.connection_id
    p.connection_id = "invalid"          # the mock's own way to stand for "these credentials belong to someone else"
    try:
        p.connect({"key": "val"})
        refused = False
    except CloudTokenError:
        refused = True
    if not refused or p.connected:
        ctx.violation("MockProvider accepted credentials of another identity", dict(kind="connect-mock", mine=bool(mine)))


# ------------------------------------------------------------------ main
def run(ctx):
    envfix.install()
    g = ctx.coq_gate("PropC16")
    dist = fw.Distinct()
    stats = dict(sequences=0, calls=0, op_kinds={}, err_kinds={}, ok_calls=0, unspecified=0,
                 size_classes={0: 0, 1: 0, 2: 0, 3: 0}, malformed_sequences=0, clean_sequences=0,
                 model_wf_states_checked=0, predicate_evals=0, predicate_failures_refuted_flavour={},
                 corpus_cases=0, corpus_failing=0, rename_subtree_evals=0, connect_sequences=0, fs_sequences=0, fs_calls=0,
                 fs_hash_oid_missing_raises=0, fs_enotdir_reported_as_exists=0, phase_s={}, fs_inotify_events_seen=0, per_flavour={})
    samples = []
    if g is None:
        return ctx.finish(["(coq gate failed)"])
    for n in NAMES + DOT_NAMES:
        for c in n:
            if chr(fold_std(ord(c))) != c.lower():
                ctx.violation("model case fold differs from str.lower() on %r" % c, dict(kind="fold", char=c),
                              no_input=True, theorem="fold_std hypothesis")
    model = fw.ModelProc("prov")
    quick = ctx.quick
    nseq = 2000 if quick else 40000
    t_start = time.time()
    t_mock = 18 if quick else 400
    t_fs = 4 if quick else 90
    mismatches = []
    fs = None
    try:
        try:
            fs = FSTarget()
        except Exception as e:      # noqa
            ctx.notes.append("FileSystemProvider target unavailable: %r" % e)
            ctx.violation("FileSystemProvider could not be set up on a temp directory: %r" % e, dict(kind="fs-setup"),
                          no_input=True, theorem="correspondence (filesystem target)")
        stats["phase_s"]["setup"] = round(time.time() - t_start, 1)
        # ---- 1. corpus: witnesses of the known findings, deterministic
        replay_corpus(ctx, fs, stats)
        # deterministic hash-law sweep on the filesystem provider: every pool content (all size classes)
        if fs:
            in_corpus = [c.get("token") for c in stats.pop("_corpus_cases") if c.get("kind") == "fs-hash-law"]
            for tok in range(len(POOL)):
                if tok in in_corpus:
                    continue
                bad = fs_hash_law_failures(fs, tok)
                stats["predicate_evals"] += 1
                if bad:
                    ctx.violation("FileSystemProvider hash law fails for a %d-byte file: %s" % (len(POOL[tok]), "; ".join(bad)),
                                  fs_hash_case(tok))
            # injectivity of the data hash on the contents used (hypothesis H_inj), both providers
            from cloudsync.providers.mock import MockProvider
            for name, hd in (("mock", MockProvider(False, True).hash_data), ("filesystem-full-hash", None)):
                from cloudsync.providers.filesystem import get_hash
                hs = [hd(io.BytesIO(b)) if hd else get_hash(b) for b in POOL]
                if len(set(hs)) != len(hs):
                    ctx.violation("hash collision among the contents used (%s)" % name, dict(kind="hash-inj", which=name),
                                  no_input=True, theorem="H_inj hypothesis")

        stats["phase_s"]["corpus+sweeps"] = round(time.time() - t_start, 1)

        # ---- 2. MockProvider x 4 flavours
        def check_batch(batch, flavour, target_name):
            reqs = [[0, [1 if flavour[0] else 0, 1 if flavour[1] else 0, []], [op_wire(o) for o in b["ops"]]] for b in batch]
            outs = model.batch(reqs)
            for b, out in zip(batch, outs):
                clean = True
                for i, (op, ir, iev, mo, fl) in enumerate(zip(b["ops"], b["results"], b["events"], out[0], out[1])):
                    mres = canon_model_result(op, mo[0], flavour[0])
                    clean = clean and fl[0] == 1
                    if mres == [1, 5]:
                        stats["unspecified"] += 1
                        if clean and (flavour[0] is False or flavour[1] is True):
                            # C16_guarded_never_unspecified: impossible after clean (hence guarded) calls
                            ctx.violation("the model answers 'unspecified' after a clean call sequence: %s"
                                          % json.dumps([op_json(o) for o in b["ops"][:i + 1]])[:300],
                                          dict(kind="model-unspecified", flavour=list(flavour),
                                               ops=[op_json(o) for o in b["ops"][:i + 1]]),
                                          no_input=True, theorem="C16_guarded_never_unspecified (the extracted model disagrees with the theorem)")
                        clean = False
                        break
                    if target_name == "fs":
                        if not clean:
                            break           # outside the engine's calls the two providers are not meant to agree
                        if op[0] == "hash_oid" and ir[0] == 1 and mres == [0, []]:
                            stats["fs_hash_oid_missing_raises"] += 1
                            continue
                        if ir == [1, 21] or (ir == [1, 1] and mres == [1, 2] and op[0] in ("download", "create", "mkdir", "rename")
                                             and fs_ancestor_is_file(b, i)):
                            if mres in ([1, 2], [1, 1]):
                                stats["fs_enotdir_reported_as_exists"] += 1
                                continue
                        same = mres == ir
                    else:
                        same = mres == ir and mo[1] == iev
                    if not same:
                        mismatches.append(dict(target=target_name, flavour=list(flavour),
                                               ops=[op_json(o) for o in b["ops"][:i + 1]], step=i,
                                               model=[mres, mo[1]], impl=[ir, iev]))
                        break
                    if clean and (flavour[0] is False or flavour[1] is True):
                        stats["model_wf_states_checked"] += 1
                        if fl[1] != 1:
                            ctx.violation("model state not well-formed after a clean call sequence: %s"
                                          % json.dumps([op_json(o) for o in b["ops"][:i + 1]])[:300],
                                          dict(kind="model-wf", flavour=list(flavour),
                                               ops=[op_json(o) for o in b["ops"][:i + 1]]),
                                          no_input=True, theorem="C16_wf_reachable_clean (the extracted model disagrees with the theorem)")
                            break
                b["clean"] = clean

        def account(ops, results, key):
            pf = stats["per_flavour"].setdefault(key, dict(sequences=0, calls=0, ok=0))
            pf["sequences"] += 1
            pf["calls"] += len(ops)
            stats["calls"] += len(ops)
            for op, r in zip(ops, results):
                stats["op_kinds"][op[0]] = stats["op_kinds"].get(op[0], 0) + 1
                if r[0] == 0:
                    stats["ok_calls"] += 1
                    pf["ok"] += 1
                else:
                    ek = str(r[1])[:40]
                    stats["err_kinds"][ek] = stats["err_kinds"].get(ek, 0) + 1
                if op[0] in ("create", "upload"):
                    stats["size_classes"][size_class(len(POOL[op[2]]))] += 1

        for fi, flavour in enumerate(FLAVOURS):
            rng = ctx.sub_rng("mock%s%s" % flavour)
            batch, pending = [], []
            deadline = time.time() + t_mock / len(FLAVOURS)
            refuted_flavour = flavour == (True, False)

            def flush():
                check_batch(batch, flavour, "mock")
                for b in batch:
                    # the property's statements on the real provider, wherever the theorem's hypotheses hold
                    if not b["clean"]:
                        continue
                    stats["clean_sequences"] += 1
                    stats["predicate_evals"] += 1
                    bad = contract_failures(b["tgt"], b["ops"], b["results"], b["events"]) + b["agree"]
                    for law, d in bad[:1]:
                        if refuted_flavour:
                            k = stats["predicate_failures_refuted_flavour"]
                            k[law] = k.get(law, 0) + 1
                        else:
                            ctx.violation("MockProvider%s breaks %s on a clean call sequence: %s"
                                          % (flavour, law, json.dumps([op_json(o) for o in b["ops"]])[:300]),
                                          dict(kind="mock-seq", flavour=list(flavour), law=law, detail=d,
                                               ops=[op_json(o) for o in b["ops"]]))
                del batch[:]
            for si in range(nseq):
                if time.time() > deadline:
                    break
                malformed = rng.random() < 0.15
                tgt = MockTarget(*flavour)
                ops, results, events, gen = gen_sequence(rng, tgt, malformed, NAMES + (DOT_NAMES if malformed else []))
                agree = gen.subtree_failures + (state_agreement_failures(tgt, gen) if si % 3 == 0 else [])
                stats["rename_subtree_evals"] += gen.subtree_evals
                for q in final_queries(rng, gen, full=(si % 4 == 0)):
                    ops.append(q)
                    results.append(tgt.apply(q))
                    events.append(tgt.new_events())
                batch.append(dict(ops=ops, results=results, events=events, tgt=tgt, agree=agree))
                stats["sequences"] += 1
                stats["malformed_sequences"] += 1 if malformed else 0
                account(ops, results, "mock oid_is_path=%s case_sensitive=%s" % flavour)
                dist.add((flavour, [op_json(o) for o in ops]), nontrivial=any(o[0] in MUTATORS for o in ops))
                if si < 1 and len(samples) < 4:
                    samples.append(dict(flavour=dict(oid_is_path=flavour[0], case_sensitive=flavour[1]),
                                        ops=[op_json(o) for o in ops[:6]], results=results[:6]))
                if len(batch) >= 100:
                    flush()
            if batch:
                flush()

        stats["phase_s"]["mocks"] = round(time.time() - t_start, 1)
        # ---- 3. FileSystemProvider on a temp directory (path-style, case-sensitive), synchronous API only
        if fs:
            rng = ctx.sub_rng("fs")
            deadline = time.time() + t_fs
            batch = []
            nfs = 400 if quick else 8000
            for si in range(nfs):
                if time.time() > deadline:
                    break
                fs.reset()
                g_ = Gen(rng, fs, False, [n for n in NAMES])
                ops, results, events = [], [], []
                for _ in range(rng.randint(1, 30)):
                    op = g_.next_op()
                    if op[0] in ("events", "set_cursor"):
                        continue
                    todo = [op]
                    while todo:
                        o = todo.pop(0)
                        r = fs.apply(o)
                        ops.append(o)
                        results.append(r)
                        events.append([])
                        g_.note(o, r)
                        if o is op and op[0] in MUTATORS:
                            todo += touched_queries(rng, op, r, g_)
                agree = state_agreement_failures(fs, g_)
                for law, d in agree[:1]:
                    if law == "hash_law" and d.get("size", 0) > 2048:
                        continue        # the known defect; its deterministic witnesses are in the sweep above
                    ctx.violation("FileSystemProvider breaks %s: %s" % (law, json.dumps([op_json(o) for o in ops])[:300]),
                                  dict(kind="fs-seq", law=law, detail=d, ops=[op_json(o) for o in ops]))
                for q in [("tree",)] + [x for x in final_queries(rng, g_, full=True) if x[0] not in ("tree", "events")]:
                    ops.append(q)
                    results.append(fs.apply(q))
                    events.append([])
                batch.append(dict(ops=ops, results=results, events=events))
                stats["fs_sequences"] += 1
                stats["fs_calls"] += len(ops)
                account(ops, results, "filesystem")
                dist.add(("fs", [op_json(o) for o in ops]), nontrivial=any(o[0] in MUTATORS for o in ops))
                if len(batch) >= 50:
                    check_batch(batch, (True, True), "fs")
                    batch = []
            if batch:
                check_batch(batch, (True, True), "fs")
            # inotify: counted, never compared (asynchronous; and see the event-translation finding)
            if not quick:
                time.sleep(2.0)
            stats["fs_inotify_events_seen"] = len(list(fs.p.events()))

        stats["phase_s"]["fs"] = round(time.time() - t_start, 1)
        # ---- 4. Provider.connect
        connect_stream(ctx, model, stats, 300 if quick else 5000)
        stats["phase_s"]["connect"] = round(time.time() - t_start, 1)
    finally:
        model.close()
        if fs:
            fs.close()
    stats["phase_s"]["closed"] = round(time.time() - t_start, 1)
    stats["model_calls"] = model.calls
    for m in mismatches[:5]:
        ctx.violation("model and %s differ at step %d of %s: model %s impl %s"
                      % (m["target"], m["step"], json.dumps(m["ops"])[:300], str(m["model"])[:200], str(m["impl"])[:200]),
                      dict(kind="correspondence", **m), no_input=True,
                      theorem="correspondence ProvModel.run vs %s" % m["target"])
    stats["mismatches"] = len(mismatches)
    stats["wall_s"] = round(time.time() - t_start, 1)
    cov = ctx.coverage
    cov["evaluations"] = dist.total + stats["connect_sequences"]
    cov["distinct_nontrivial"] = dist.nontrivial
    cov["rule"] = ("one evaluation = one API call sequence (1-30 calls plus the queries about what each call touched and a final "
                   "tree/listing/info sweep) run on the real provider and on the extracted model; non-trivial = contains at least "
                   "one mutating call; distinct = distinct (target, flavour, call list)")
    cov["exhaustive"] = False
    cov["samples"] = samples
    cov["streams"] = stats
    cov["traces_validated_against_impl"] = stats["sequences"] + stats["fs_sequences"] + stats["connect_sequences"]
    tb = ["Coq 8.16.1 kernel (coqc); vm_compute only for the refutation witnesses, the bounded C16_prov_wf_partial and the Examples (the unbounded wf / rename_moves_subtree / listdir theorems are by induction); no native_compute",
          "axioms per theorem as printed by Print Assumptions: " + (", ".join(cov.get("axioms_used", [])) or "none (closed under the global context)"),
          "hypothesis of C16_hash_equal_iff_bytes_equal: the data hash is injective (checked: no collision among the contents used, "
          "md5 for the mock, blake2b for the filesystem provider); contents are abstract tokens in the model",
          "per-character case fold fold_std = str.lower() (checked on every character of the name alphabet)",
          "extraction: ExtrOcamlBasic only; OCaml 4.13.1; coq/ocaml/driver.ml",
          "correspondence harness harness/checks/c16.py (generator, canonicalisation: oids -> serials, hashes -> content tokens, "
          "listings sorted, mtimes dropped); it reads MockProvider._events and MockFS._objects to compare the log and the tree",
          "modelled, not verified: path strings not in normal form (C13), quota, namespaces, test locks, _filter_events/root filtering, "
          "oidless_folder_trash_events; watchdog/inotify delivery; the OS file system; Windows/macOS branches of FileSystemProvider"]
    return ctx.finish(tb)
