"""C12 — root confinement: nothing outside the sync roots is synced or modified."""
from ._engine import engine_check


def run(ctx):
    return engine_check(ctx, "PropC12", [("confinement", 3000, 60000), ("boundary_races", 1500, 30000), ("declined_races", 1500, 30000)],
                        "run rejected by the monitor (C12: engine action outside its root, something outside a root changed, "
                        "or a boundary move not treated as delete/create)",
                        stream_b="C12", runner_name="run_confinement")
