"""Deterministic two-thread replay of Runnable.start/stop/wake/wait against Runnable.run (used by c18.py).

Every racy access of the real code is a synchronisation point at which the running thread parks until the
driver grants it exactly one step:
  * the private attributes __stopping/__shutdown/__stopped/__interrupt/__thread are intercepted by properties
    defined on a subclass (the name-mangled names _Runnable__x), no source change;
  * the threading.Event stored in __interrupt and the threading.Thread stored in __thread are wrapped by
    proxies whose wait/clear and start/join/is_alive are synchronisation points (virtual time: Event.wait
    never blocks, it returns the flag; join(timeout) returns at once = the timeout expired);
  * do(), the return of do(), until() and done() are synchronisation points of the subclass.
Only semaphore hand-offs, no sleeps, no timing.  The accesses that are synchronisation points are exactly the
steps of LoopModel.v (an access of an attribute that the other thread never writes is not one)."""
import threading
from fractions import Fraction

from cloudsync.runnable import Runnable

WAIT_S = 60.0


class ReplayError(Exception):
    """the replay machinery itself failed (never a pass)"""


class _Base(BaseException):
    """a BaseException that is not an Exception"""


class Sched:
    def __init__(self):
        self.cv = threading.Condition()
        self.state = {}      # tid -> running | parked | idle | finished
        self.pending = {}    # tid -> descriptor of the access the thread is parked at
        self.grant = {}
        self.abort = False

    def sync(self, tid, desc):
        with self.cv:
            if self.abort:
                return
            self.pending[tid] = desc
            self.state[tid] = "parked"
            self.cv.notify_all()
            while not self.grant.get(tid) and not self.abort:
                if not self.cv.wait(WAIT_S):
                    self.abort = True
                    self.cv.notify_all()
            if self.abort:
                return          # free running from now on (end of the replay, or the machinery gave up)
            self.grant[tid] = False

    def set_state(self, tid, st):
        with self.cv:
            self.state[tid] = st
            self.pending.pop(tid, None)
            self.cv.notify_all()

    def release(self, tid):
        """driver: let the parked thread tid perform its pending access, wait until nothing runs"""
        with self.cv:
            if self.state.get(tid) != "parked":
                raise ReplayError("thread %s is %s, not parked" % (tid, self.state.get(tid)))
            self.grant[tid] = True
            self.state[tid] = "running"
            self.cv.notify_all()
            self._quiet()

    def _quiet(self):
        while any(v == "running" for v in self.state.values()):
            if not self.cv.wait(WAIT_S):
                self.abort = True
                self.cv.notify_all()
                raise ReplayError("threads did not reach a synchronisation point: %r" % (self.state,))

    def quiet(self):
        with self.cv:
            self._quiet()

    def kill(self):
        with self.cv:
            self.abort = True
            self.cv.notify_all()


class EventProxy:
    def __init__(self, owner):
        self.owner = owner
        self.flag = False

    def wait(self, secs=None):
        self.owner._sync(("ewait",))
        self.owner.obs.append(("sleep", Fraction(secs)))
        return self.flag

    def clear(self):
        self.owner._sync(("eclear",))
        self.flag = False

    def set(self):
        self.owner.sets += 1
        self.flag = True

    def is_set(self):
        return self.flag


class ThreadProxy:
    def __init__(self, owner, real):
        self.owner = owner
        self.real = real
        self.started = False
        self.name = real.name

    def start(self):
        self.owner._sync(("tstart",))
        self.started = True
        self.owner.loop_real = self.real
        self.owner.sched.set_state("loop", "running")
        self.real.start()

    def _alive(self):
        if not self.started:
            return False
        if self.owner.sched.state.get("loop") == "finished" and self.owner.loop_real is self.real:
            self.real.join(WAIT_S)
            return False
        return self.real.is_alive()

    def is_alive(self):
        self.owner._sync(("alive",))
        return self._alive()

    def join(self, timeout=None):
        self.owner._sync(("join", timeout is not None))
        if timeout is None:
            self.real.join(WAIT_S)
            if self.real.is_alive():
                raise ReplayError("untimed join granted while the loop thread is alive")
        # timed join: the timeout expires immediately (virtual time)

    def __eq__(self, other):
        return other is self or other is self.real

    def __ne__(self, other):
        return not self.__eq__(other)

    def __hash__(self):
        return id(self)


# which role synchronises on which access: (attribute, "r"/"w") -> roles
SYNC = {("stopping", "r"): {"loop"}, ("stopping", "w"): {"loop", "caller"},
        ("shutdown", "r"): {"loop"}, ("shutdown", "w"): {"caller"},
        ("stopped", "w"): {"loop"},
        ("interrupt", "w"): {"loop"}, ("interrupt", "r"): {"caller"},
        ("thread", "w"): {"caller"}}
DEFAULTS = dict(stopping=False, shutdown=False, stopped=False, interrupt=None, thread=None)


def _prop(name):
    def get(self):
        self._access(name, "r")
        return self.__dict__.get("_v_" + name, DEFAULTS[name])

    def set_(self, value):
        self._access(name, "w", value)
        if name == "interrupt" and value is not None:
            value = EventProxy(self)
        if name == "thread" and value is not None:
            value = ThreadProxy(self, value)
        self.__dict__["_v_" + name] = value
    return property(get, set_)


class Controlled(Runnable):
    """Runnable whose racy accesses are synchronisation points of self.sched (None = free running,
    accesses are only recorded in self.trace)."""

    def __init__(self, params=None):
        self.sched = None
        self.trace = []        # (role, descriptor) of every synchronised access, in execution order
        self.obs = []          # do / sleep / done observations of the loop thread
        self.loop_real = None
        self.caller_real = None
        self.next_outcome = "did"
        self.next_until = False
        self.sets = 0
        if params is not None:
            self.min_backoff, self.max_backoff, self.mult_backoff = params[0], params[1], params[2]

    def _role(self):
        cur = threading.current_thread()
        if cur is self.loop_real:
            return "loop"
        if cur is self.caller_real:
            return "caller"
        return None

    def _sync(self, desc):
        role = self._role()
        if role is None:
            return
        self.trace.append((role, desc))
        if self.sched is not None:
            self.sched.sync(role, desc)

    def _access(self, name, mode, value=None):
        role = self._role()
        if role is not None and role in SYNC.get((name, mode), ()):
            self._sync((mode, name) if mode == "r" else (mode, name, value if isinstance(value, bool) else (value is not None)))

    def run(self, **kw):
        try:
            super().run(**kw)
        finally:
            if self.sched is not None:
                self.sched.set_state("loop", "finished")

    def do(self):
        self._sync(("do",))
        self.obs.append(("do",))
        self._sync(("doret",))
        o = self.next_outcome
        if o == "did":
            return
        if o == "noop":
            self.nothing_happened()
            return
        if o == "backoff":
            self.backoff()
        if o == "exc":
            raise ValueError("work function failed")
        if o == "base":
            raise _Base()
        raise ReplayError("unknown outcome %r" % (o,))

    def until(self):
        self._sync(("until",))
        return self.next_until

    def done(self):
        self._sync(("done",))
        self.obs.append(("done",))

    def raw(self, name):
        return self.__dict__.get("_v_" + name, DEFAULTS[name])


for _n in DEFAULTS:
    setattr(Controlled, "_Runnable__" + _n, _prop(_n))


OUTCOMES = ["did", "noop", "backoff", "exc", "base"]


def op_sx(op):
    k = op[0]
    if k == "start":
        return [0]
    if k == "stop":
        return [1, 1 if op[1] else 0, 1 if op[2] else 0]
    if k == "wake":
        return [2]
    if k == "wait":
        return [3, 1 if op[1] else 0]
    raise ValueError(op)


def label_sx(lab):
    if lab[0] == "loop":
        return [0, OUTCOMES.index(lab[1]), 1 if lab[2] else 0]
    if lab[0] == "call":
        return [1, op_sx(lab[1])]
    if lab[0] == "cont":
        return [2]
    raise ValueError(lab)


class Replay:
    """drives one Controlled instance through a schedule (list of labels) or generates one adaptively"""

    def __init__(self, params, sleep):
        self.sched = Sched()
        self.obj = Controlled(params)
        self.obj.sched = self.sched
        self.sleep = sleep
        self.cmd = None
        self.cmd_cv = threading.Condition()
        self.rets = []          # canonical result of every caller call, in order
        self.caller = threading.Thread(target=self._caller_main, daemon=True, name="c18-caller")
        self.obj.caller_real = self.caller
        self.sched.state["caller"] = "idle"
        self.steps = []         # per label: (thread, descriptor granted or None)
        self.caller.start()

    # ---- caller thread
    def _caller_main(self):
        while True:
            with self.cmd_cv:
                while self.cmd is None:
                    self.cmd_cv.wait()
                op = self.cmd
                self.cmd = None
            if op[0] == "quit":
                return
            r = self._do_op(op)
            self.rets.append(r)
            self.sched.set_state("caller", "idle")

    def _do_op(self, op):
        o = self.obj
        try:
            if op[0] == "start":
                o.start(until=o.until, sleep=self.sleep)
                return ["start_ok"]
            if op[0] == "stop":
                had_thread = o.raw("thread") is not None
                o.stop(forever=op[1], wait=op[2])
                return ["stopped", bool(op[1]), bool(op[2]) and had_thread]
            if op[0] == "wake":
                before = o.sets
                o.wake()
                return ["woke"] if o.sets > before else ["wake_ignored"]
            if op[0] == "wait":
                r = o.wait(timeout=(0.001 if op[1] else None))
                return ["waited", bool(r)]
        except RuntimeError as e:
            if op[0] == "start":
                return ["start_refused"] if "was stopped" in str(e) else ["start_busy"]
            raise
        except TimeoutError:
            return ["wait_timeout"]
        except AttributeError:
            return ["stop_raised", bool(op[1])] if op[0] == "stop" else ["wake_raised"]
        raise ReplayError("bad op %r" % (op,))

    # ---- driver
    def enabled(self):
        """labels kinds enabled in the real system now: set of 'loop', 'call', 'cont'"""
        s = self.sched
        out = set()
        if s.state.get("loop") == "parked":
            out.add("loop")
        if s.state["caller"] == "idle":
            out.add("call")
        elif s.state["caller"] == "parked":
            d = s.pending["caller"]
            if d == ("join", False) and s.state.get("loop") in ("parked", "running"):
                pass
            else:
                out.add("cont")
        return out

    def do_label(self, lab):
        s = self.sched
        if lab[0] == "loop":
            self.obj.next_outcome = lab[1]
            self.obj.next_until = lab[2]
            d = s.pending.get("loop")
            s.release("loop")
            self.steps.append(("loop", d))
        elif lab[0] == "call":
            if s.state["caller"] != "idle":
                raise ReplayError("caller not idle")
            op = lab[1]
            with s.cv:
                s.state["caller"] = "running"
            with self.cmd_cv:
                self.cmd = op
                self.cmd_cv.notify_all()
            s.quiet()
            d = None
            if op[0] in ("stop", "wake") and s.state["caller"] == "parked":
                d = s.pending["caller"]
                s.release("caller")
            self.steps.append(("caller", d))
        elif lab[0] == "cont":
            d = s.pending.get("caller")
            s.release("caller")
            self.steps.append(("caller", d))
        else:
            raise ReplayError("bad label %r" % (lab,))

    def close(self):
        """let everything run to the end without control"""
        self.obj.__dict__["_v_stopping"] = True
        self.obj.next_until = True
        self.obj.next_outcome = "did"
        self.sched.kill()
        with self.cmd_cv:
            self.cmd = ("quit",)
            self.cmd_cv.notify_all()
        self.caller.join(WAIT_S)
        t = self.obj.loop_real
        if t is not None and t.is_alive():
            t.join(WAIT_S)

    def final(self):
        o = self.obj
        i = o.raw("interrupt")
        return dict(stopping=bool(o.raw("stopping")), shutdown=bool(o.raw("shutdown")), stopped=bool(o.raw("stopped")),
                    interrupt=None if i is None else bool(i.flag), thread=o.raw("thread") is not None,
                    in_backoff=Fraction(o.in_backoff), loop=self.sched.state.get("loop"))
