"""C07 — crash consistency: dying at any storage or provider write loses nothing.

Theorems: coq/theories/PropC07.v about CrashModel.v (the commit discipline as a machine of individual writes) and
Monitor.v (outcome).  Tie (harness/families_c07.py): every base run of a seeded clean-domain family is executed on
the real engine over SqliteStorage on a file, its storage writes and engine-issued provider writes are counted, and
it is re-run once per crash instant — process death immediately before EVERY storage create/update/delete and
immediately after EVERY provider create/upload/rename/delete/mkdir; a new engine is started over the surviving
storage file and providers and drained.  Oracles: Monitor acceptance, C11 index, C08 storage == memory, "durable
never ahead" (the extracted CrashModel.na_row / na_obj on the decoded rows, at every write boundary and at the crash
instant), write order of every step (CrashModel.shape_ok), the recovery rule (model recovery of the abstracted crash
state: predicted provider writes and views vs the real recovery), undecodable rows dropped by the restart."""
import glob
import json
import os
import time

from .. import engine as E
from .. import enginecheck as EC
from .. import framework as fw
from .. import families_c07 as C
from ._engine import TRUSTED

SIZES = dict(quick=80, thorough=900)


def _report(ctx, f, source):
    what = f["what"]
    case = {k: v for k, v in f["case"].items() if k != "_id"}
    payload = dict(kind=f["kind"], source=source, case=case, detail=f.get("detail"), guard=f.get("guard"), trace_tail=f.get("tail"))
    if f["kind"] in ("harness",):
        ctx.violation("harness: " + what, payload, no_input=True, theorem="determinism of the driven engine (harness/engine.py)")
    else:
        ctx.violation("C07: " + what, payload)


def run_corpus(ctx, mon, cp, cov, later):
    n = 0
    for path in sorted(glob.glob(os.path.join(fw.VERIF, "corpus", "C07", "*.json"))):
        doc = json.load(open(path))
        case = EC.unjson_case(doc["case"])
        n += 1
        kind = doc.get("kind", "all_crash_points")
        if kind == "all_crash_points":
            later.append(path)          # every crash point of the history: run with the seeded family, in the pool
        elif kind == "crash_witness":
            # the witness of a finding: one crash instant of one history; a failure goes through ctx.violation with a payload
            # that depends on the file only, so that known_findings.json can list it by case id
            k_kind, k = doc["crash"]
            try:
                r, o = C.run_crash(case, k_kind, k, mon, cp)
                bad = None if r.verdict == [] else "run with a crash rejected: " + EC.describe(r)[:300]
            except Exception as e:      # pylint: disable=broad-except
                bad = "restart after the crash is fatal: %s" % type(e).__name__
            cov.setdefault("witnesses", []).append(dict(file=os.path.basename(path), outcome=bad or "accepted"))
            if bad:
                ctx.violation("C07 %s: %s" % (os.path.basename(path), bad),
                              dict(kind="crash_witness", file=os.path.basename(path), crash=doc["crash"], case=doc["case"]))
        elif kind == "witness":
            # a run whose outcome is pinned: boundary cases outside the property's statement (users acting between
            # the process death and the restart) replayed on the real engine
            res = EC.run_case(case, mon, storage_factory="sqlite-file",
                              hooks=dict(after_restart=lambda eng, world: _reset_cursors(eng, world)))
            got = "accepted" if res.verdict == [] else EC.GUARDS.get(res.verdict[1], str(res.verdict[1]))
            cov.setdefault("witnesses", []).append(dict(file=os.path.basename(path), outcome=got, expected=doc["expect"]))
            if got != doc["expect"]:
                ctx.violation("C07 witness %s: outcome %s, pinned %s (%s)" % (os.path.basename(path), got, doc["expect"], doc.get("note", "")[:200]),
                              dict(kind="witness", file=os.path.basename(path), case=doc["case"], outcome=got, expected=doc["expect"]))
    return n


def _reset_cursors(eng, world):
    for s in (0, 1):
        em = eng.cs.emgrs[s]
        if em.cursor is not None:
            world.provs[s].current_cursor = em.cursor


def model_selfcheck(ctx, cp):
    """the extracted model answers the Examples of PropC07 the same way (extraction / driver sanity)"""
    half = [[0, [0, 0, 1, [7]]], [1, [0, 0]], [1, [1, 0]], [2, [2, 0], 2]]
    a = cp.call([5, 1, 1, half])
    b = cp.call([5, 1, 0, half])
    ok = (a != [] and a[2][0] == 1 and a[2][3] == 0 and b != [] and b[2][3] == 1
          and cp.call([2, 1, [1, 0]]) == 0 and cp.call([2, 1, [0, 1, 1]]) == 1
          and cp.call([2, 0, [2, 1]]) == 0 and cp.call([2, 0, [1, 1, 2]]) == 1)
    if not ok:
        ctx.violation("the extracted crash model does not reproduce the Examples of PropC07", dict(kind="extraction", a=a, b=b),
                      no_input=True, theorem="extraction of CrashModel.run")
    return ok


def run(ctx):
    g = ctx.coq_gate("PropC07", bins=["crash", "monitor"])
    cov = ctx.coverage
    streams = {}
    if g is not None:
        E.install()
        mon = fw.ModelProc("monitor")
        cp = fw.ModelProc("crash")
        model_selfcheck(ctx, cp)
        t0 = time.time()
        later = []
        n_corpus = run_corpus(ctx, mon, cp, cov, later)
        mon.close()
        cp.close()
        n = SIZES["quick" if ctx.quick else "thorough"]
        if os.environ.get("VERIF_C07_N"):        # experiments only (mutation trials); evidence is written by runs without it
            n = int(os.environ["VERIF_C07_N"])
        t0 = time.time()
        tot, fails, hists = C.explore(ctx, n, quick=ctx.quick, corpus_files=later)
        wall = round(time.time() - t0, 1)
        cov["corpus_crash_runs"] = tot["corpus_crash_runs"]
        streams["corpus"] = dict(cases=n_corpus, histories_with_all_crash_points=len(later), crash_runs=tot["corpus_crash_runs"],
                                 witnesses=cov.get("witnesses", []))
        pts = sorted(h["points"] for h in hists)
        distinct = set()
        for h in hists:
            distinct.update(h["distinct"])
        streams["crash_points"] = dict(
            base_runs=tot["base_runs"], user_ops=tot["user_ops"],
            storage_crash_points=tot["storage_crash_points"], provider_crash_points=tot["provider_crash_points"],
            crash_runs=tot["crash_runs"], crash_runs_storage_before=tot["crash_runs_storage_before"],
            crash_runs_provider_after=tot["crash_runs_provider_after"],
            recovery_order={k[len("recovery_order_"):]: v for k, v in tot.items() if k.startswith("recovery_order_")},
            base_runs_resumed_after_recovery=tot["base_runs_resumed_after_recovery"],
            resume_dropped_folder_rename=tot["resume_dropped_folder_rename"],
            crash_points_per_run=dict(min=pts[0] if pts else 0, median=pts[len(pts) // 2] if pts else 0, max=pts[-1] if pts else 0),
            write_boundaries_checked_never_ahead=tot["boundaries_checked"], never_ahead_model_evaluations=tot["na_requests"],
            engine_steps_shape_checked=tot["steps_intake"] + tot["steps_sync"], steps_with_writes=tot["steps_with_writes"],
            recoveries_judged_by_model=tot["recoveries_judged"], recovery_writes_equal=tot["recovery_writes_equal"],
            recovery_provider_writes=tot["recovery_provider_writes"],
            recoveries_without_provider_write=tot["recoveries_without_provider_write"],
            provider_writes_without_effect=tot["provider_writes_without_effect"],
            crash_states_out_of_fragment=tot["crash_states_out_of_fragment"],
            undecodable_rows_injected=tot["garbage_rows_injected"], undecodable_rows_dropped=tot["garbage_rows_dropped"],
            rejected=len(fails), wall_s=wall)
        seen = set()
        reported = 0
        for f in fails:
            key = (f["kind"], f["what"][:60])
            if key in seen and reported >= 3:
                continue
            seen.add(key)
            reported += 1
            if reported <= 6:
                _report(ctx, f, "seeded family c07")
        cov["evaluations"] = tot["base_runs"] + tot["crash_runs"] + cov.get("corpus_crash_runs", 0)
        cov["distinct_nontrivial"] = len(distinct)
        cov["traces_validated_against_impl"] = tot["base_runs"] + tot["crash_runs"]
        cov["samples"] = [h["sample"] for h in hists if h["sample"]][:3]
    cov["rule"] = ("base run = seeded clean-domain history (60 % one-sided, 40 % disjoint two-sided; 30 % continue the history after the "
                   "recovery) on the real engine over SqliteStorage on a file; one crash run per storage write of the base run (death "
                   "before it) and per engine-issued provider write (death after it), between the start of the schedule and the final "
                   "quiet state; three orders in which the restarted managers first run; evaluations = base runs + crash runs + corpus "
                   "crash runs; a crash run is non-trivial when the restarted engine wrote to storage or to a provider during the recovery; "
                   "distinct = distinct (flavour, base, schedule, set order, crash kind, crash index, restart order), counted by hashing")
    cov["streams"] = streams
    cov["oracles"] = ("Monitor acceptance of the trace with the crash (convergence, spec, covered versions, no '.conflicted', origin "
                      "untouched, no echo) + C11 index + C08 storage == memory during the recovery + CrashModel.na_row/na_obj on decoded rows "
                      "at every write boundary and at the crash instant + CrashModel.shape_ok on every step + model recovery vs real recovery "
                      "(provider writes per object, final views) + undecodable row dropped")
    tb = list(TRUSTED) + [
        "the abstraction of the real state to the model's vocabulary (harness/families_c07.py): rows decoded with msgpack, oids "
        "resolved to provider objects by dictionary lookup, paths and contents interned, the history of object states recorded by "
        "scanning the mock file system after every user operation and engine provider write, an event about a folder counted as an "
        "event about its descendants, slots assembled from which side's user made an object",
        "not modelled: torn writes inside SQLite, process death inside a provider call, user operations between the process death and "
        "the end of the recovery (refuted for the model; witnesses replayed in corpus/C07), path collisions between objects, "
        "parent-first ordering",
        "axioms per theorem as printed by Print Assumptions: " + (", ".join(cov.get("axioms_used", [])) or "none (closed under the global context)")]
    return ctx.finish(tb)
