"""C08 — persisted sync state = in-memory state; codec round trip.
Theorems: coq/theories/PropC08.v about CodecModel.v.
Tie (this file): (1) codec: field values of every shape through the real SyncEntry.serialize /
SyncEntry(state, None, (eid, bytes)) and through the extracted model; literal legacy / malformed
rows; (2) commit: random state-level histories (update events, field assignments, trash, commits in
chosen iteration orders of the dirty set, restarts, rows of other tags) on a real SyncState over
SqliteStorage / MockStorage, the model driven by the observed dirty sets; rows, storage ids, loaded
entries compared after every commit / restart.  The property itself (storage_oracle) is evaluated on
the real behaviour everywhere.  The model has a boolean: storage_id kept (the code as it is) or
cleared when the row of a trash entry is deleted; which one the source implements is probed first."""
import glob
import json
import os
import types

import msgpack

from .. import envfix, framework as fw, storage_oracle as so

TAG = "c08"
FLOATS = [0.0, 1.5, 1569283200.25, -2.0, 1e300, 3.0, 0.001]
OTYPES = ["dir", "file", "trashed"]
EXISTS = ["unknown", "exists", "trashed", "missing", "likely-trashed", "corrupt"]
IGNORED = ["none", "discarded", "conflict", "temp rename", "irrelevant"]


# ------------------------------------------------------------------ Python value <-> model value
class FTab:
    """floats as opaque tokens: 0.0 is token 0, every other float the next free token"""

    def __init__(self):
        self.tok = {0.0: 0}
        self.val = {0: 0.0}

    def token(self, f):
        if f != f:
            raise ValueError("NaN is not generated")
        if f == 0.0:
            return 0
        if f not in self.tok:
            t = len(self.tok)
            self.tok[f] = t
            self.val[t] = f
        return self.tok[f]


def to_mp(v, ft):
    if v is None:
        return [0]
    if isinstance(v, bool):
        return [1, 1 if v else 0]
    if isinstance(v, int):
        a, limbs = abs(v), []
        while a:
            limbs.append(a & 0xFFFFFFFF)
            a >>= 32
        return [2, [1 if v < 0 else 0, limbs]]
    if isinstance(v, float):
        return [3, ft.token(v)]
    if isinstance(v, str):
        return [4, [ord(c) for c in v]]
    if isinstance(v, bytes):
        return [5, list(v)]
    if isinstance(v, tuple):
        return [6, [to_mp(x, ft) for x in v]]
    if isinstance(v, list):
        return [7, [to_mp(x, ft) for x in v]]
    if isinstance(v, dict):
        return [8, [[to_mp(k, ft), to_mp(x, ft)] for k, x in v.items()]]
    raise TypeError("no model value for %r" % (v,))


def opt(x):
    return [] if x is None else [x]


def side_sx(s, ft):
    """s: dict of raw field values"""
    return [OTYPES.index(s["otype"]), to_mp(s["side"], ft), to_mp(s["hash"], ft), to_mp(s["changed"], ft),
            to_mp(s["sync_hash"], ft), to_mp(s["sync_path"], ft), to_mp(s["path"], ft), to_mp(s["oid"], ft),
            EXISTS.index(s["exists"]), to_mp(s["temp_file"], ft), to_mp(s["size"], ft), to_mp(s["mtime"], ft),
            opt(None if s["saved"] is None else EXISTS.index(s["saved"])), 1 if s["force_sync"] else 0,
            to_mp(s["last_gotten"], ft)]


def entry_sx(e, ft):
    return [side_sx(e["s0"], ft), side_sx(e["s1"], ft), IGNORED.index(e["ignored"]), to_mp(e["priority"], ft),
            opt(e["sid"])]


def real_side(ent, i):
    s = ent[i]
    return dict(otype=s._otype.value, side=s._side, hash=s._hash, changed=s._changed, sync_hash=s._sync_hash,
                sync_path=s._sync_path, path=s._path, oid=s._oid, exists=s._exists.value, temp_file=s._temp_file,
                size=s._size, mtime=s._mtime, saved=None if s._saved_exists is None else s._saved_exists.value,
                force_sync=s._force_sync, last_gotten=s._last_gotten)


def real_entry(ent):
    return dict(s0=real_side(ent, 0), s1=real_side(ent, 1), ignored=ent._ignored.value, priority=ent._priority,
                sid=ent._storage_id)


def build_entry(state, e):
    """a real SyncEntry holding exactly the field values of e (underscore attributes, as serialize reads them)"""
    from cloudsync.sync.state import SyncEntry, Exists
    from cloudsync.types import OType, IgnoreReason
    ent = SyncEntry(state, OType(e["s0"]["otype"]))
    for i, k in ((0, "s0"), (1, "s1")):
        s, d = ent[i], e[k]
        s._otype = OType(d["otype"])
        s._side = d["side"]
        s._hash, s._changed, s._sync_hash, s._sync_path = d["hash"], d["changed"], d["sync_hash"], d["sync_path"]
        s._path, s._oid, s._temp_file, s._size, s._mtime = d["path"], d["oid"], d["temp_file"], d["size"], d["mtime"]
        s._exists = Exists(d["exists"])
        s._saved_exists = None if d["saved"] is None else Exists(d["saved"])
        s._force_sync = d["force_sync"]
        s._last_gotten = d["last_gotten"]
    ent._ignored = IgnoreReason(e["ignored"])
    ent._priority = e["priority"]
    ent._storage_id = e["sid"]
    return ent


# ------------------------------------------------------------------ generators
def gen_str(rng):
    r = rng.random()
    if r < 0.1:
        return ""
    alpha = "ab/\\ .-_éÉ中ß\U0001F600z0"
    return "".join(rng.choice(alpha) for _ in range(rng.randint(1, 8)))


def gen_bytes(rng):
    return bytes(rng.choice([0, 1, 65, 128, 255, 0xc3]) for _ in range(rng.randint(0, 6)))


def gen_int(rng):
    r = rng.random()
    if r < 0.7:
        return rng.randint(-5, 300)
    if r < 0.95:
        return rng.choice([2 ** 63 - 1, -2 ** 63, 2 ** 64 - 1, 2 ** 32, -2 ** 31, 2 ** 63])
    return rng.choice([2 ** 64, -2 ** 63 - 1, 10 ** 30])          # OverflowError in dumps


def gen_val(rng, depth=0, lists=True):
    r = rng.random()
    if depth >= 3:
        r *= 0.6
    if r < 0.08:
        return None
    if r < 0.14:
        return rng.random() < 0.5
    if r < 0.28:
        return gen_int(rng)
    if r < 0.34:
        return rng.choice(FLOATS)
    if r < 0.46:
        return gen_str(rng)
    if r < 0.6:
        return gen_bytes(rng)
    if r < 0.74:
        return tuple(gen_val(rng, depth + 1, lists) for _ in range(rng.randint(0, 3)))
    if r < 0.84:
        items = [gen_val(rng, depth + 1, lists) for _ in range(rng.randint(0, 3))]
        return items if lists else tuple(items)
    d = {}
    for _ in range(rng.randint(0, 3)):
        kr = rng.random()
        if kr < 0.55:
            k = gen_str(rng)
        elif kr < 0.9:
            k = gen_bytes(rng)
        elif kr < 0.96:
            k = rng.randint(0, 9)                                   # strict_map_key: fails on load
        else:
            k = (gen_str(rng), 1)
        d[k] = gen_val(rng, depth + 1, lists)
    return d


def gen_side(rng, side, wild):
    """wild: any shape anywhere; otherwise shapes a provider uses"""
    r = rng.random
    oid = rng.choice([None, None, gen_str(rng) or "o", gen_bytes(rng) or b"o", rng.randint(0, 99), (gen_str(rng), 3)])
    return dict(
        otype=rng.choice(OTYPES), side=side,
        hash=gen_val(rng, 0, wild) if r() < 0.85 else None,
        changed=rng.choice([None, None, 0, 0.0, 1, 1.5, 1569283200.25, 0.001]),
        sync_hash=gen_val(rng, 0, wild) if r() < 0.6 else None,
        sync_path=rng.choice([None, "/" + gen_str(rng)]),
        path=rng.choice([None, "/" + gen_str(rng), gen_str(rng)]),
        oid=gen_val(rng, 0, wild) if wild and r() < 0.2 else oid,
        exists=rng.choice(EXISTS), temp_file=rng.choice([None, None, "/tmp/" + gen_str(rng)]),
        size=rng.choice([None, 0, 17, 2 ** 40]) if not (wild and r() < 0.1) else gen_val(rng, 1, wild),
        mtime=rng.choice([None, 0, 1569283200, 1.5, 1569283200.25]) if r() < 0.95 else rng.choice(["1.5", (1,), b"x", True]),
        saved=rng.choice([None, None] + EXISTS), force_sync=r() < 0.3, last_gotten=rng.choice([0.0, 1.5, 3.0]))


def gen_entry(rng, wild):
    return dict(s0=gen_side(rng, 0, wild), s1=gen_side(rng, 1, wild), ignored=rng.choice(IGNORED),
                priority=rng.choice([0, 0, 1, 3, -1, 1.5]), sid=None)


def py_wf(e):
    """the Python mirror of wf_entry: 64-bit ints, str/bytes dict keys, no lists, numeric-or-None mtime"""
    def ok(v):
        if isinstance(v, bool) or v is None or isinstance(v, (float, str, bytes)):
            return True
        if isinstance(v, int):
            return -2 ** 63 <= v < 2 ** 64
        if isinstance(v, tuple):
            return all(ok(x) for x in v)
        if isinstance(v, dict):
            return all(isinstance(k, (str, bytes)) and ok(x) for k, x in v.items())
        return False
    for k in ("s0", "s1"):
        s = e[k]
        if not all(ok(s[f]) for f in ("side", "hash", "changed", "sync_hash", "sync_path", "path", "oid", "temp_file", "size", "mtime")):
            return False
        if not (s["mtime"] is None or isinstance(s["mtime"], (int, float))):
            return False
    return ok(e["priority"])


SYNCED = ("otype", "side", "hash", "changed", "sync_hash", "sync_path", "path", "oid", "exists", "temp_file", "size",
          "mtime", "saved")


def synced_diffs(a, b):
    out = []
    for k in ("s0", "s1"):
        for f in SYNCED:
            if not so.same(a[k][f], b[k][f]):
                out.append((k, f, a[k][f], b[k][f]))
    if a["ignored"] != b["ignored"]:
        out.append(("entry", "ignored", a["ignored"], b["ignored"]))
    return out


def gen_literal_row(rng):
    """a dict written literally with msgpack: current, legacy and malformed shapes"""
    def side(i):
        d = dict(otype=rng.choice(OTYPES * 4 + ["bogus", 3]), side=rng.choice([i, i, i, 1 - i]),
                 hash=gen_val(rng, 2, False), changed=rng.choice([None, 0, 1.5, 3]), sync_hash=rng.choice([None, b"s", "s"]),
                 path=rng.choice([None, "/" + gen_str(rng)]), sync_path=rng.choice([None, "/" + gen_str(rng)]),
                 oid=rng.choice([None, gen_str(rng), gen_bytes(rng), 5]),
                 exists=rng.choice([True, False, None, True, False] * 2 + EXISTS * 2 + ["bogus", 1, 0, b"exists", ("exists",)]),
                 temp_file=rng.choice([None, "/t"]))
        for k, vals in (("size", [None, 5]), ("mtime", [None, 1.5, 7, 2.5, 0, None, 1.5, "x", True]),
                        ("_saved_exists", [None, "", 0] + EXISTS + ["bogus", 5, True, ("a",), {"a": 1}])):
            if rng.random() < 0.5:
                d[k] = rng.choice(vals)
        if rng.random() < 0.05:
            d.pop(rng.choice(list(d)))
        if rng.random() < 0.02:
            return rng.choice([None, 5, "side", (1, 2), b"x"])
        return d
    top = dict(side0=side(0), side1=side(1))
    r = rng.random()
    if r < 0.6:
        top["ignored"] = rng.choice(IGNORED + ["trashed", "trashed", "", "bogus", None, 5, True, 0, ("x",), {"a": 1}, b"none"])
    if rng.random() < 0.3:
        top["discarded"] = rng.choice([True, False, "", "yes", 0, 1])
    if rng.random() < 0.3:
        top["conflicted"] = rng.choice([True, False, "", "yes", None])
    if rng.random() < 0.5:
        top["priority"] = rng.choice([0, 2, -1, 1.5])
    if rng.random() < 0.04:
        top.pop(rng.choice(["side0", "side1"]))
    if rng.random() < 0.02:
        return rng.choice([None, 7, "row", (1,), []])
    return top


# ------------------------------------------------------------------ real-code plumbing
class OrderedDirty(set):
    """SyncState._dirtyset with a chosen iteration order (a real set iterates by memory address)"""

    def __init__(self):
        super().__init__()
        self.order = []
        self.iter_order = None

    def add(self, x):
        if x not in self:
            self.order.append(x)
        super().add(x)

    def discard(self, x):
        if x in self:
            self.order.remove(x)
        super().discard(x)

    def clear(self):
        super().clear()
        self.order = []
        self.iter_order = None

    def __iter__(self):
        return iter(list(self.iter_order if self.iter_order is not None else self.order))


class Clock:
    def __init__(self):
        self.t = 1000.0

    def time(self):
        self.t += 1.0
        return self.t


def providers(oid_is_path=False):
    from cloudsync.providers.mock import MockProvider
    return (MockProvider(oid_is_path=oid_is_path, case_sensitive=True), MockProvider(oid_is_path=oid_is_path, case_sensitive=True))


def new_state(provs, storage):
    from cloudsync.sync.state import SyncState
    st = SyncState(provs, storage, TAG)
    st._dirtyset = OrderedDirty()
    return st


def make_storage(kind):
    if kind == "sqlite":
        from cloudsync.sync.sqlite_storage import SqliteStorage
        return SqliteStorage(":memory:")
    from cloudsync.tests.fixtures.mock_storage import MockStorage
    return MockStorage({})


def rows_sx(storage, ft):
    rows = storage.read_all(TAG)
    out = []
    for rid in rows:
        try:
            out.append([rid, to_mp(so.decode_row(rows[rid]), ft)])
        except Exception:      # pylint: disable=broad-except
            out.append([rid, ["undecodable"]])
    return out


def fmax_of(storage):
    m = 0
    for t, d in storage.read_all().items():
        if t != TAG:
            for rid in d:
                m = max(m, rid)
    return m


# ------------------------------------------------------------------ histories on the real SyncState
class RealRun:
    """executes a list of abstract operations on a real SyncState and records what the model needs"""

    def __init__(self, kind, ops, safe_order, pair_corrupt=True):
        self.pair_corrupt = pair_corrupt
        from cloudsync.sync import state as state_mod
        self.kind, self.ops, self.safe_order = kind, ops, safe_order
        self.clock = Clock()
        state_mod.time = types.SimpleNamespace(time=self.clock.time)
        self.provs = providers(oid_is_path=True)
        self.storage = make_storage(kind)
        self.state = new_state(self.provs, self.storage)
        self.ft = FTab()
        self.known = []          # entry objects by model index
        self.snap = {}           # id(ent) -> last field snapshot
        self.hops = []           # model history
        self.obs = []            # observations after commits / loads
        self.pred = []           # property-predicate failures (step index, differences)
        self.silent = 0
        self.errors = []
        self.out_of_domain = 0

    def index_of(self, ent):
        for i, e in enumerate(self.known):
            if e is ent:
                return i
        return None

    def pick(self, k):
        live = so.all_entries(self.state)
        pool = self.known if (k >= 100 and self.known) else (live or self.known)
        return pool[k % 100 % len(pool)] if pool else None

    def observe_dirty(self, order_sel):
        """HNew / HSet for the dirty entries, HSilent for silently changed ones; returns the model order"""
        st = self.state
        ds = st._dirtyset
        for ent in list(ds.order):
            f = real_entry(ent)
            i = self.index_of(ent)
            if i is None:
                self.known.append(ent)
                self.hops.append([0, entry_sx(dict(f, sid=None), self.ft)])
            else:
                self.hops.append([1, i, entry_sx(dict(f, sid=None), self.ft)])
            self.snap[id(ent)] = repr(dict(f, sid=None))
        for i, ent in enumerate(self.known):
            if ent in ds:
                continue
            f = real_entry(ent)
            if self.snap.get(id(ent)) != repr(dict(f, sid=None)):
                self.silent += 1
                self.hops.append([2, i, entry_sx(dict(f, sid=None), self.ft)])
                self.snap[id(ent)] = repr(dict(f, sid=None))
        order = list(ds.order)
        if order_sel == "rev":
            order.reverse()
        elif isinstance(order_sel, int):
            import random
            random.Random(order_sel).shuffle(order)
        if self.safe_order:
            # claimed-clean domain of the variant that keeps the id: entries whose row is gone go first
            rows = self.storage.read_all(TAG)
            gone = [e for e in order if e.is_trash and e.storage_id is not None]
            if gone and order[:len(gone)] != gone:
                self.out_of_domain += 1
            order = gone + [e for e in order if e not in gone]
            del rows
        ds.iter_order = order
        return [self.index_of(e) for e in order]

    def commit(self, order_sel, step):
        idx = self.observe_dirty(order_sel)
        self.hops.append([3, idx])
        err = 0
        try:
            self.state.storage_commit()
        except OverflowError:
            err = 1
        except ValueError as e:
            err = 2 if "doesn't exist" in str(e) else 1
        self.state._dirtyset.iter_order = None
        self.obs.append(dict(kind=3, err=err, rows=rows_sx(self.storage, self.ft),
                             sids=[opt(e.storage_id) for e in self.known],
                             dirty=[self.index_of(e) for e in self.state._dirtyset.order]))
        if err == 0:
            d = so.compare_storage_with_memory(self.state, self.storage, TAG)
            if d:
                self.pred.append((step, d[:4]))
            # byte-level exactness (priority included) is what the model's exactb computes
            self.obs[-1]["exact"] = 0 if so.compare_storage_with_memory(self.state, self.storage, TAG, include_priority=True) else 1

    def restart(self, step):
        # what is not committed is lost, exactly as in a process restart
        st0 = self.state
        d0 = so.compare_reload(st0, self.storage, TAG) if not st0._dirtyset else []
        if d0:
            self.pred.append((step, d0[:4]))
        before = self.storage.read_all(TAG)
        self.state = new_state(self.provs, self.storage)
        after = self.storage.read_all(TAG)
        self.hops.append([5])
        loaded = {}
        for e in so.all_entries(self.state):
            loaded[e.storage_id] = e
        self.known = [loaded[rid] for rid in before if rid in loaded]
        self.snap = {id(e): repr(dict(real_entry(e), sid=None)) for e in self.known}
        self.obs.append(dict(kind=5, rows=rows_sx(self.storage, self.ft), sids=[opt(e.storage_id) for e in self.known],
                             entries=[entry_sx(real_entry(e), self.ft) for e in self.known],
                             dropped=[r for r in before if r not in after],
                             pending=sorted(e.storage_id for e in self.state._changeset)))

    def run(self):
        from cloudsync.types import OType, IgnoreReason
        from cloudsync.sync.state import Exists
        st = None
        for step, op in enumerate(self.ops):
            st = self.state
            k = op[0]
            try:
                if k == "update":
                    _, side, otype, oid, path, h, exists, prior = op
                    st.update(side, OType(otype), oid, path=path, hash=h, exists=exists, prior_oid=prior)
                elif k == "assign":
                    _, sel, side, field, val = op
                    ent = self.pick(sel)
                    if ent is not None and not (self.safe_order and ent.is_trash):
                        if field == "ignored":
                            ent.ignored = IgnoreReason(val)
                        elif field == "priority":
                            ent.priority = val
                        elif field == "exists":
                            ent[side].exists = Exists(val)
                            if self.pair_corrupt:
                                # the engine never sets the corrupt marker alone; the two corrupt branches of
                                # SideState.__setattr__ return before updated() (known finding, replayed from the corpus)
                                ent[side].size = ent[side].size
                        elif field == "path":
                            if val is None or ent[side].oid is not None:
                                setattr(ent[side], field, val)
                        else:
                            setattr(ent[side], field, val)
                elif k == "trash":
                    ent = self.pick(op[1])
                    if ent is not None and not (self.safe_order and ent.is_trash):
                        ent[0].oid = None
                        ent[1].oid = None
                elif k == "commit":
                    self.commit(op[1], step)
                elif k == "restart":
                    self.restart(step)
                elif k == "foreign":
                    if self.kind == "sqlite":
                        if op[1] == "create":
                            self.storage.create("other", b"x")
                        else:
                            rows = self.storage.read_all("other")
                            if rows:
                                self.storage.delete("other", max(rows))
                        self.hops.append([4, fmax_of(self.storage)])
            except (AssertionError, RecursionError, KeyError, ValueError, TypeError) as e:
                # the state-level operation itself failed (index maintenance is C11's subject); the
                # run goes on with whatever state is left, the model only sees the dirty sets
                self.errors.append((step, type(e).__name__))
        return self


def gen_ops(rng, n, allow_trash_touch):
    ops = []
    oids = ["a", "b", "c", "d", "e"]
    for _ in range(n):
        r = rng.random()
        if r < 0.38:
            oid = rng.choice(oids)
            prior = rng.choice(oids) if rng.random() < 0.25 else None
            ops.append(["update", rng.randint(0, 1), rng.choice(["file", "file", "dir"]), oid, "/" + oid,
                        rng.choice([None, b"h1", b"h2", [1, 2], {"k": b"v"}, "s", 7]), rng.choice([True, True, False]), prior])
        elif r < 0.58:
            f = rng.choice(["hash", "sync_hash", "sync_path", "changed", "size", "mtime", "ignored", "priority", "exists",
                            "path", "temp_file", "oid"])
            val = dict(hash=[b"x", (1, b"y"), [3], None, {"a": (1,)}], sync_hash=[b"x", None, "s"], sync_path=[None, "/sp", "/é"],
                       changed=[0, None, 1.5, 5], size=[None, 3], mtime=[None, 2, 2.5], ignored=IGNORED, priority=[0, 1, 2],
                       exists=EXISTS, path=[None, "/p", "/q/中"], temp_file=[None, "/t"], oid=["z", "a", None, 9])[f]
            ops.append(["assign", rng.choice([0, 100]) + rng.randint(0, 50), rng.randint(0, 1), f, rng.choice(val)])
        elif r < 0.66:
            ops.append(["trash", rng.choice([0, 100]) + rng.randint(0, 50)])
        elif r < 0.88:
            ops.append(["commit", rng.choice(["ins", "rev", rng.randint(0, 10 ** 6)])])
        elif r < 0.94:
            ops.append(["commit", "ins"])
            ops.append(["restart"])
        else:
            ops.append(["foreign", rng.choice(["create", "create", "delete"])])
    ops.append(["commit", rng.choice(["ins", "rev"])])
    return ops


def model_history(model, clr, kind, hops):
    return model.call([2, 1 if clr else 0, 0 if kind == "sqlite" else 1, 0, 0, [], hops])


def compare_history(run, trace):
    """-> first difference between the model trace and the real observations, or None"""
    if len(trace) != len(run.obs):
        return dict(what="number of commits/loads", model=len(trace), real=len(run.obs))
    for n, (m, o) in enumerate(zip(trace, run.obs)):
        if m[0] != o["kind"]:
            return dict(what="kind", at=n)
        if o["kind"] == 3:
            _, err, (rows, sids, dirty, _exact, _ctr) = m
            real = dict(err=o["err"], rows=sorted(o["rows"]), sids=o["sids"], dirty=sorted(o["dirty"]))
            mod = dict(err=err, rows=sorted(rows), sids=sids, dirty=sorted(dirty))
        else:
            _, (rows, sids, dirty, _exact, _ctr), ents = m
            real = dict(rows=sorted(o["rows"]), sids=o["sids"], entries=o["entries"])
            mod = dict(rows=sorted(rows), sids=sids, entries=ents)
        if real != mod:
            keys = [k for k in real if real[k] != mod[k]]
            return dict(what="observation %d differs in %s" % (n, keys), model={k: mod[k] for k in keys},
                        real={k: real[k] for k in keys})
    return None


def model_exact_flags(trace):
    return [m[2][3] for m in trace if m[0] == 3 and m[1] == 0]


# ------------------------------------------------------------------ the check
def run(ctx):
    envfix.install()
    g = ctx.coq_gate("PropC08")
    dist = fw.Distinct()
    stats = dict(codec=dict(n=0, survive=0, pack_fail=0, load_fail=0, wf=0, shape_changed=0, priority_lost=0),
                 literal=dict(n=0, loads=0, fails=0, legacy_exists=0, ignored_kinds={}),
                 commit=dict(histories=0, commits=0, restarts=0, commit_errors=0, silent_mutations=0, op_errors=0,
                             out_of_domain_orders=0, ops={}, dirty_sizes={}, predicate_failures=0, model_exact_false=0),
                 reload=dict(n=0, none_key_differences=0))
    samples = []
    variant = None
    if g is not None:
        from cloudsync.sync.state import SyncState, SyncEntry
        model = fw.ModelProc("codec")
        quick = ctx.quick
        mism = []

        # ---------------- corpus first: the P-9 witnesses; they also probe which variant the code implements
        corpus = []
        for f in sorted(glob.glob(os.path.join(fw.VERIF, "corpus", "C08", "*.json"))):
            corpus.append((os.path.basename(f), json.load(open(f))))
        votes = set()
        for name, case in corpus:
            if case.get("stream") != "commit":
                continue
            ops = case["ops"]
            rr = RealRun(case["storage"], ops, safe_order=False, pair_corrupt=case.get("pair_corrupt", True)).run()
            stats["commit"]["histories"] += 1
            dist.add(("corpus", name))
            tr = {c: model_history(model, c, case["storage"], rr.hops) for c in (False, True)}
            match = [c for c in (False, True) if compare_history(rr, tr[c]) is None]
            if case.get("probe") and match:
                if len(match) == 1:
                    votes.add(match[0])
            if not match:
                ctx.violation("%s: the real SyncState matches neither model variant (storage_id kept / cleared): %s"
                              % (name, compare_history(rr, tr[False])), dict(kind="variant", case=case),
                              no_input=True, theorem="correspondence CodecModel.commit vs SyncState.storage_commit")
            if rr.pred:
                # the property fails on the real code for this exact case: known finding or violation
                ctx.violation("%s: after storage_commit the storage differs from the live entries: %s"
                              % (name, rr.pred[0][1]), case)
            if len(samples) < 3:
                samples.append(dict(corpus=name, rows_after=[r[0] for r in rr.obs[-1]["rows"]], sids=rr.obs[-1]["sids"],
                                    predicate_failures=[repr(p)[:200] for p in rr.pred[:1]]))
        if len(votes) == 1:
            variant = votes.pop()
        else:
            ctx.violation("the behavioural probe cannot tell whether storage_id is kept or cleared on delete (votes %s)"
                          % sorted(votes), dict(kind="probe", votes=sorted(votes)), no_input=True,
                          theorem="correspondence (model parameter clr)")
            variant = False
        stats["variant_clears_storage_id"] = variant

        # ---------------- codec stream
        rng = ctx.sub_rng("codec")
        ncodec = 5000 if quick else 100000
        dummy = SyncState(providers(), None, None)
        dummy._loading = True
        reqs, reals, cases = [], [], []
        for n in range(ncodec):
            wild = rng.random() < 0.45
            e = gen_entry(rng, wild)
            sid = rng.randint(0, 40)
            ft = FTab()
            for f in FLOATS:
                ft.token(f)
            ent = build_entry(dummy, e)
            try:
                b = ent.serialize()
            except OverflowError:
                real = [0, 1]
                b = None
            if b is not None:
                w = to_mp(so.decode_row(b), ft)
                try:
                    back = SyncEntry(dummy, None, (sid, b))
                    be = real_entry(back)
                    real = [1, entry_sx(be, ft), w, 1 if back.is_trash else 0,
                            1 if any(back[s_].changed and back[s_].oid is not None for s_ in (0, 1)) else 0]
                    stats["codec"]["survive"] += 1
                    d = synced_diffs(e, be)
                    wf = py_wf(e)
                    if wf:
                        stats["codec"]["wf"] += 1
                        if d or be["sid"] != sid:
                            ctx.violation("codec round trip changes a sync-relevant field of a well-formed entry: %r" % (d[:3],),
                                          dict(kind="codec", entry=repr(e), diffs=repr(d[:3])))
                    elif d:
                        stats["codec"]["shape_changed"] += 1
                        # every change must be the list -> tuple change and nothing else
                        for (_, _, a, bb) in d:
                            if not so.same(so.wire(a), bb):
                                ctx.violation("codec round trip changes a field beyond list->tuple: %r -> %r" % (a, bb),
                                              dict(kind="codec", entry=repr(e)))
                    if e["priority"] != 0 and be["priority"] == 0:
                        stats["codec"]["priority_lost"] += 1
                except Exception:      # pylint: disable=broad-except
                    real = [0, 2, w]
                    stats["codec"]["load_fail"] += 1
                    if py_wf(e):
                        ctx.violation("a well-formed entry does not load back", dict(kind="codec", entry=repr(e)))
            else:
                stats["codec"]["pack_fail"] += 1
            stats["codec"]["n"] += 1
            dist.add(("codec", repr(e)))
            reqs.append([0, sid, entry_sx(e, ft)])
            reals.append(real)
            cases.append(e)
            if n < 2:
                samples.append(dict(stream="codec", entry=repr(e)[:400], outcome=real[0]))
        for rq, mo, ro, e in zip(reqs, model.batch(reqs), reals, cases):
            if mo != ro:
                mism.append(("codec", repr(e)[:600], mo, ro))

        # ---------------- literal rows (current, legacy, malformed)
        rng = ctx.sub_rng("literal")
        nlit = 3000 if quick else 40000
        reqs, reals, cases = [], [], []
        for n in range(nlit):
            while True:
                row = gen_literal_row(rng)
                try:
                    b = msgpack.dumps(row, use_bin_type=True)
                    break
                except OverflowError:
                    continue
            sid = rng.randint(0, 40)
            ft = FTab()
            for f in FLOATS:
                ft.token(f)
            try:
                back = SyncEntry(dummy, None, (sid, b))
                real = [1, entry_sx(real_entry(back), ft), 1 if back.is_trash else 0,
                        1 if any(back[s_].changed and back[s_].oid is not None for s_ in (0, 1)) else 0]
                stats["literal"]["loads"] += 1
                if isinstance(row, dict):
                    ik = repr(row.get("ignored", "<absent>"))[:12]
                    stats["literal"]["ignored_kinds"][ik] = stats["literal"]["ignored_kinds"].get(ik, 0) + 1
                    if any(isinstance(row.get(k), dict) and isinstance(row[k].get("exists"), bool) or
                           (isinstance(row.get(k), dict) and row[k].get("exists", 0) is None) for k in ("side0", "side1")):
                        stats["literal"]["legacy_exists"] += 1
            except Exception:      # pylint: disable=broad-except
                real = [0]
                stats["literal"]["fails"] += 1
            # the whole load path: SyncState.__init__ keeps the row iff the entry loads, pending set as modelled
            if n % 10 == 0:
                from cloudsync.tests.fixtures.mock_storage import MockStorage
                ms = MockStorage({TAG: {sid: b}})
                ms.cursor = sid + 1
                fresh = SyncState(providers(), ms, TAG)
                kept = sid in ms.read_all(TAG)
                if kept != (real[0] == 1) or (kept and (len(fresh._changeset) == 1) != bool(real[3])):
                    ctx.violation("SyncState.__init__ keeps/drops a row or builds the pending set differently from a plain load",
                                  dict(kind="load", row=repr(row)), no_input=True, theorem="correspondence load_rows")
            stats["literal"]["n"] += 1
            dist.add(("literal", repr(row)))
            reqs.append([1, sid, to_mp(so.wire(row), ft)])
            reals.append(real)
            cases.append(row)
        for rq, mo, ro, row in zip(reqs, model.batch(reqs), reals, cases):
            if mo != ro:
                mism.append(("literal", repr(row)[:600], mo, ro))

        # ---------------- commit histories
        rng = ctx.sub_rng("commit")
        nhist = 500 if quick else 9000
        for n in range(nhist):
            kind = "sqlite" if n % 3 else "mock"
            ops = gen_ops(rng, rng.randint(4, 22), variant)
            rr = RealRun(kind, ops, safe_order=False).run()
            cs = stats["commit"]
            cs["histories"] += 1
            cs["silent_mutations"] += rr.silent
            cs["op_errors"] += len(rr.errors)
            cs["out_of_domain_orders"] += rr.out_of_domain
            for op in ops:
                cs["ops"][op[0]] = cs["ops"].get(op[0], 0) + 1
            for o in rr.obs:
                if o["kind"] == 3:
                    cs["commits"] += 1
                    cs["commit_errors"] += 1 if o["err"] else 0
                else:
                    cs["restarts"] += 1
            for h in rr.hops:
                if h[0] == 3:
                    k = min(len(h[1]), 6)
                    cs["dirty_sizes"][k] = cs["dirty_sizes"].get(k, 0) + 1
            dist.add(("commit", kind, repr(ops)), nontrivial=any(o["kind"] == 3 and o["rows"] for o in rr.obs))
            trace = model_history(model, variant, kind, rr.hops)
            d = compare_history(rr, trace)
            case = dict(stream="commit", storage=kind, ops=ops)
            # claimed-clean domain while the code keeps the stale id: histories on which the two model
            # variants leave the same rows after every commit / load (the defect P-9 is not exercised);
            # outside it the code is still compared with the faithful model, whose failure there is P-9
            in_domain = True
            if not variant:
                fixed = model_history(model, True, kind, rr.hops)
                in_domain = [(m[0], m[1] if m[0] == 3 else 0, sorted((m[2] if m[0] == 3 else m[1])[0])) for m in trace] == \
                            [(m[0], m[1] if m[0] == 3 else 0, sorted((m[2] if m[0] == 3 else m[1])[0])) for m in fixed]
                if not in_domain:
                    cs["out_of_domain_histories"] = cs.get("out_of_domain_histories", 0) + 1
                    if rr.pred:
                        cs["out_of_domain_predicate_failures"] = cs.get("out_of_domain_predicate_failures", 0) + 1
            if d is not None:
                mism.append(("commit", case, d, None))
            cs["model_exact_false"] += sum(1 for x in model_exact_flags(trace) if not x)
            if d is None:
                for m, o in zip(trace, rr.obs):
                    if m[0] == 3 and m[1] == 0 and m[2][3] != o.get("exact"):
                        mism.append(("exactness", case, dict(model_exactb=m[2][3]), dict(real_exact=o.get("exact"))))
                        break
            if rr.pred and in_domain:
                cs["predicate_failures"] += 1
                # a write that bypassed updated() explains a stale row; anything else is a failing input
                if rr.silent == 0:
                    ctx.violation("after storage_commit / reload the storage differs from the live entries: %s"
                                  % (rr.pred[0][1],), case)
                else:
                    ctx.violation("a write that bypasses updated() left the storage different from memory: %s"
                                  % (rr.pred[0][1],), case)
            if n < 2:
                samples.append(dict(stream="commit", storage=kind, ops=ops[:6], rows_at_end=[r[0] for r in rr.obs[-1]["rows"]]))
            # reload comparison at the end of the history (everything committed)
            if in_domain and not rr.state._dirtyset and rr.obs and rr.obs[-1].get("err", 0) == 0:
                stats["reload"]["n"] += 1
                dd = so.compare_reload(rr.state, rr.storage, TAG)
                if dd and not rr.pred:
                    ctx.violation("a state reloaded from committed storage differs in lookups / pending set: %s" % (dd[:3],), case)
                stats["reload"]["none_key_differences"] += len(
                    [x for x in so.compare_reload(rr.state, rr.storage, TAG, none_key=True) if x not in dd])

        model.close()
        stats["model_calls"] = model.calls
        for (label, case, mo, ro) in mism[:5]:
            ctx.violation("model and implementation differ (%s): case %s model %s impl %s"
                          % (label, repr(case)[:300], repr(mo)[:300], repr(ro)[:300]),
                          dict(kind="correspondence", stream=label, case=case, model=mo, impl=ro),
                          no_input=not any(v for v in ctx.violations if not v[2]),
                          theorem="correspondence CodecModel.run vs cloudsync.sync.state")
        stats["mismatches"] = len(mism)
        # ---------------- engine stream: the real engine over a sqlite file, clean one-sided and restart histories; after
        # EVERY engine step the rows in storage must decode to exactly the in-memory entries (harness/storage_oracle.py),
        # so a step of the engine that changes entries without committing them is seen at that step
        from .. import explore as X
        from .. import families as F
        from .. import enginecheck as EC
        stats["engine"] = {}
        for fam, nq, nt in (("one_sided", 500, 8000), ("restarts", 300, 4000)):
            n_eng = nq if quick else nt
            st_e, fails_e = X.explore(ctx, fam, n_eng, runner="run_storage_oracle")
            fails_e = [f for f in fails_e if f[1][1] == 102]
            stats["engine"][fam] = dict(runs=st_e["runs"], user_ops=st_e["user_ops"], observations=st_e["obs"], rejected=len(fails_e))
            for i in range(st_e["runs"]):
                dist.add(("engine", fam, ctx.seed, i))
            X.report_failures(ctx, fails_e, runner=F.run_storage_oracle, relevant={102},
                              what="storage differs from the in-memory entries after an engine step (C08) [%s]" % fam)
    cov = ctx.coverage
    cov["evaluations"] = dist.total
    cov["distinct_nontrivial"] = dist.nontrivial
    cov["rule"] = ("codec: one evaluation = one entry (both sides, every field drawn from None/bool/int incl. 64-bit bounds/"
                   "float/str incl. non-BMP/bytes/nested tuple/list/dict with str, bytes, int and tuple keys; all Exists, "
                   "IgnoreReason, saved-existence values) through the real serialize + load and through the model; "
                   "literal: one msgpack-written dict (current, legacy, malformed); commit: one history of 4-22 state-level "
                   "operations with explicit dirty-set iteration orders, non-trivial when a commit left rows; engine: one clean "
                   "one-sided or restart history of the real engine over a sqlite file with storage compared with memory after "
                   "every engine step; distinct = distinct canonical inputs")
    cov["exhaustive"] = False
    cov["samples"] = samples[:8]
    cov["streams"] = stats
    cov["traces_validated_against_impl"] = stats.get("model_calls", 0)
    cov["model_variant"] = ("storage_id cleared when a trash row is deleted (theorems C08_commit_exact_partial / "
                            "C08_commit_order_independent_partial apply to the code)" if variant else
                            "storage_id kept (the code as it is: C08_commit_exact_refuted / "
                            "C08_commit_order_independent_refuted apply; the property predicate is evaluated on the seeded "
                            "histories on which both model variants leave the same rows, the others are compared with the "
                            "faithful model only and counted as out_of_domain_histories)")
    tb = ["Coq 8.16.1 kernel (coqc); vm_compute used for the _refuted witnesses and the Examples; no native_compute",
          "axioms per theorem as printed by Print Assumptions: " + (", ".join(cov.get("axioms_used", [])) or "none (closed under the global context)"),
          "extraction: ExtrOcamlBasic only; OCaml 4.13.1; coq/ocaml/driver.ml",
          "correspondence harness harness/checks/c08.py + harness/storage_oracle.py (generators, value translation, "
          "OrderedDirty replacing SyncState._dirtyset to fix the iteration order, virtual clock in cloudsync.sync.state)",
          "modelled, not verified: msgpack (pack = list->tuple + 64-bit range, unpack = strict_map_key), sqlite3 rowid "
          "allocation (1 + largest rowid of the table), MockStorage cursor; floats are opaque tokens (NaN never generated); "
          "bytearray values, surrogate code points in str (dumps raises UnicodeEncodeError) and undecodable row bytes are outside the model"]
    return ctx.finish(tb)
