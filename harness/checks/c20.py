"""C20 — on-demand sync: remote files stay remote until requested; un-request keeps the remote copy.

Coq: PropC20.v (gate = mechanism of cloudsync/smartsync.py; smart_spec = big-step outcomes; monitor = what acceptance of
an observation trace means between quiescent points), all for an arbitrary auto-sync predicate.
Tie, on every run (extracted model coq/bin/smart vs the real SmartCloudSync / SmartSyncState / SmartSyncManager):
  tables      the gate model step by step on real entry tables (filter, pre_sync, request, un-request, listing)
  Stream A    seeded sequences in the claimed-clean domain (drained after every action / interleaved with engine steps):
              monitor on every observation, smart_spec (trees + merged listing of every folder) at every quiescent point
  Stream B    deterministic: corpus/C20, the exhaustive product of boundary scenarios, a fixed-seed sample of the generator
              (version c20-wild-2: until the repairs fc0a567 / 2277c0d in /repo 206 of its cases failed and were the listed
              findings S-1, S-2; they are ordinary cases now and must pass)
"""
import glob
import json
import multiprocessing as mp
import os
import random
import sys
import time

from .. import enginecheck as EC
from .. import framework as fw

TRUSTED = [
    "Coq 8.16.1 kernel (coqc); no native_compute; vm_compute only inside Examples",
    "extraction: ExtrOcamlBasic only; OCaml 4.13.1; coq/ocaml/driver.ml",
    "the observation harness (harness/engine.py, families_c20.py, c20_tables.py): in-process wrappers around the provider "
    "instances, virtual clock, serial object ids and SyncEntry hashes, in-process replacement of the logging helper debug_sig, "
    "SyncManager temp dir on /dev/shm",
    "MockProvider as the file tree users and engine act on (tied to TreeModel.apply_op after every user operation: guard TIE)",
    "the abstraction function from real SyncEntry / SideState objects to the model's entries (c20_tables.RealTable.ent): field by "
    "field, freshness = change stamp <= min(_last_gotten)",
    "for a request call that RAISED something other than not-found, whether a request was left behind is read from the real "
    "request set (the property leaves that case open); calls that return normally are never second-guessed",
    "modelled, not verified: the sync step itself (cloudsync/sync/manager.py sync/embrace_change) — theorems are about the gate in "
    "front of it, the specification and the acceptor; every explored real run must be accepted; unexplored runs are not covered",
]

WHAT = ("on-demand run rejected (C20: a file was downloaded without a request, a remote file disappeared through an un-request, or at a "
        "quiescent point the trees / the merged listing differ from smart_spec)")

_W = {}
_POOL = {}


def get_pool(procs=16):
    """ONE fork pool per check run, created after the parent has imported everything the workers need (workers that import
    cloudsync themselves, 16 at once, were measured to take 10-15 s each on a busy machine; so did pool teardown)"""
    if "pool" not in _POOL:
        from .. import engine as E
        from .. import families_c20, c20_tables  # noqa: F401  (inherited by the workers)
        E.install()
        _POOL["pool"] = mp.get_context("fork").Pool(procs, initializer=_worker_init)
    return _POOL["pool"]


def close_pool():
    p = _POOL.pop("pool", None)
    if p is not None:
        p.terminate()


def _worker_init():
    from .. import engine as E
    E.install()
    _W["model"] = fw.ModelProc("smart")


def case_key(case):
    c = {k: v for k, v in case.items() if k not in ("_id",)}
    return fw.case_id(dict(property="C20", case=EC.jsonable_case(c)))


def _run_chunk(args):
    kind, fam, seed, start, count = args
    if "model" not in _W:
        _worker_init()
    from .. import families_c20 as F
    from .. import c20_tables as T
    model = _W["model"]
    fails = []
    st = dict(runs=0, user_ops=0, engine_calls=0, obs=0, rounds=0, quiets=0, spec_actions=0, outcomes={}, autos={}, flavours={},
              opkinds={}, distinct=set(), samples=[], remote_only_quiets=0, tstats={}, top={})
    for i in range(start, start + count):
        if kind == "table":
            rng = random.Random("%s/%s/%d" % (seed, fam, i))
            case = T.gen_table(rng)
            ok, what, detail, s = T.run_table(case, model)
            st["runs"] += 1
            st["top"][s["op"]] = st["top"].get(s["op"], 0) + 1
            for k, v in s.items():
                if isinstance(v, int) and not isinstance(v, bool):
                    st["tstats"][k] = st["tstats"].get(k, 0) + v
                elif k in ("raised", "skipped") and v:
                    kk = "%s:%s" % (k, v)
                    st["tstats"][kk] = st["tstats"].get(kk, 0) + 1
            st["distinct"].add(fw.case_id(case)[:16])
            if len(st["samples"]) < 1:
                st["samples"].append(dict(op=case["op"], auto=case["auto"], entries=len(case["ents"]),
                                          first_entry=case["ents"][0] if case["ents"] else None, agreed=ok))
            if not ok:
                fails.append((case, what, detail))
            continue
        gen = getattr(F, fam)
        if getattr(gen, "by_index", False):
            case = gen(i)
        else:
            case = gen(random.Random("%s/%s/%d" % (seed, fam, i)))
        res = F.run_smart_case(case, model)
        st["runs"] += 1
        nu = 0
        for a in case["schedule"]:
            k = a[2][0] + ("_r" if a[1] else "_l") if a[0] == "user" else (a[1] if a[0] == "hook" else a[0])
            st["opkinds"][k] = st["opkinds"].get(k, 0) + 1
            nu += a[0] == "user"
        st["user_ops"] += nu
        st["engine_calls"] += res.engine_calls
        st["obs"] += len(res.events)
        st["rounds"] += sum(res.rounds)
        st["quiets"] += res.extra.get("quiets", 0)
        st["spec_actions"] += res.extra.get("spec_actions", 0)
        st["remote_only_quiets"] += res.extra.get("remote_only_quiets", 0)
        for k, v in res.extra.get("outcomes", {}).items():
            st["outcomes"][k] = st["outcomes"].get(k, 0) + v
        ak = case["auto"][0]
        st["autos"][ak] = st["autos"].get(ak, 0) + 1
        fk = json.dumps(case["flavour"][:2])
        st["flavours"][fk] = st["flavours"].get(fk, 0) + 1
        eff = sum(v for k, v in res.extra.get("outcomes", {}).items() if k in ("request:ok", "unrequest:ok"))
        if res.engine_calls >= 1 and (eff >= 1 or res.extra.get("remote_only_quiets", 0) >= 1):
            st["distinct"].add(case_key(case)[:16])
        if len(st["samples"]) < 1:
            st["samples"].append(dict(auto=case["auto"], flavour=case["flavour"][:2],
                                      schedule=[(a if a[0] != "user" else ["user", a[1], [x if not isinstance(x, bytes) else "<%d bytes>" % len(x) for x in a[2]]]) for a in case["schedule"]],
                                      outcomes=res.extra.get("outcomes"), verdict=F.describe(res), observations=len(res.events),
                                      quiescent_points=res.extra.get("quiets")))
        if res.verdict != []:
            fails.append((EC.jsonable_case(case), res.verdict, F.describe(res), [repr(e)[:160] for e in res.events[max(0, res.verdict[0] - 10):res.verdict[0] + 1]]))
    st["distinct"] = list(st["distinct"])
    return st, fails


def explore(kind, fam, n, seed, procs=16, start=0):
    chunk = max(10, min(200, n // (procs * 3) or 1))
    jobs = [(kind, fam, seed, s, min(chunk, start + n - s)) for s in range(start, start + n, chunk)]
    if procs <= 1 or len(jobs) == 1:
        results = [_run_chunk(j) for j in jobs]
    else:
        results = get_pool(procs).map(_run_chunk, jobs, chunksize=1)
    tot = None
    fails = []
    for st, out in results:
        fails += out
        if tot is None:
            tot = st
            tot["distinct"] = set(st["distinct"])
            continue
        for k, v in st.items():
            if isinstance(v, int):
                tot[k] += v
            elif isinstance(v, dict):
                for a, b in v.items():
                    tot[k][a] = tot[k].get(a, 0) + b
            elif k == "distinct":
                tot["distinct"].update(v)
            elif k == "samples" and len(tot["samples"]) < 2:
                tot["samples"] += v
    tot["distinct"] = len(tot["distinct"])
    return tot, fails


def shrink(case, code, model):
    """delta-debug the schedule keeping the same failing code (Python mirror while searching, extracted model to confirm)"""
    from .. import families_c20 as F

    def fails_with(sched):
        r = F.run_smart_case(dict(case, schedule=sched), model)
        return r.verdict != [] and r.verdict[1] == code
    try:
        sched = fw.shrink_list(case["schedule"], fails_with, max_rounds=120)
        small = dict(case, schedule=sched)
        r = F.run_smart_case(small, model)
        if r.verdict != [] and r.verdict[1] == code:
            return small, F.describe(r)
    except Exception:
        pass
    return case, None


def report_engine_failures(ctx, fam, fails, known_ids, info, max_reports=3):
    from .. import families_c20 as F
    from .. import engine as E
    model = None
    n = 0
    for case, verdict, descr, tail in fails:
        c = EC.unjson_case(case)
        cid = case_key(c)
        if cid in known_ids:
            info["known"] = info.get("known", 0) + 1
            ctx.known_finding_seen(known_ids[cid])
            continue
        n += 1
        if n > max_reports:
            continue
        if model is None:
            E.install()
            model = fw.ModelProc("smart")
        small, d2 = shrink(c, verdict[1], model)
        ctx.violation("%s [%s]: %s" % (WHAT, fam, d2 or descr),
                      dict(kind="smart-run", family=fam, guard=F.MON_CODES.get(verdict[1], verdict[1]),
                           case=EC.jsonable_case({k: v for k, v in small.items() if k != "_id"}), original_case_id=cid,
                           trace_tail=tail))
    if model is not None:
        model.close()
    return n


def load_corpus():
    out = []
    for f in sorted(glob.glob(os.path.join(fw.VERIF, "corpus", "C20", "*.json"))):
        out.append((os.path.basename(f), json.load(open(f))))
    return out


def run_corpus(ctx, known_ids, streams):
    from .. import families_c20 as F
    from .. import c20_tables as T
    from .. import engine as E
    E.install()
    model = fw.ModelProc("smart")
    info = dict(cases=0, rejected=0, known=0, expected_rejections_seen=0)
    for name, j in load_corpus():
        info["cases"] += 1
        if j.get("kind") == "table":
            ok, what, detail, s = T.run_table(j["case"], model)
            if not ok:
                info["rejected"] += 1
                is_law = what.startswith("law ")
                ctx.violation(("the real code violates the %s [corpus table %s]" % (what.replace(" fails on the real code", ""), name)) if is_law else
                              ("gate model and real code disagree on corpus table %s: %s" % (name, what)),
                              dict(kind="table", corpus=name, case=j["case"], detail=detail), no_input=not is_law,
                              theorem=None if is_law else "correspondence SmartModel gate vs cloudsync/smartsync.py")
            continue
        case = EC.unjson_case(j["case"])
        res = F.run_smart_case(case, model)
        expect = j.get("expect", "accepted")
        if res.verdict == []:
            if expect != "accepted":
                # a witness of a listed finding no longer fails: the finding was fixed (or the check went blind)
                ctx.notes.append("corpus %s (witness of %s) is accepted now" % (name, j.get("finding")))
                info["witness_accepted"] = info.get("witness_accepted", 0) + 1
            continue
        info["rejected"] += 1
        cid = fw.case_id(dict(corpus=name))
        if cid in known_ids:
            info["known"] += 1
            ctx.known_finding_seen(known_ids[cid])
        else:
            ctx.violation("%s [corpus %s]: %s" % (WHAT, name, F.describe(res)),
                          dict(corpus=name))
    model.close()
    streams["corpus"] = info
    return info


def run(ctx):
    from .. import families_c20 as F
    g = ctx.coq_gate("PropC20")
    cov = ctx.coverage
    streams = {}
    total = distinct = 0
    samples = []
    known_ids = {}
    for k in ctx.known:
        if k.get("status", "open") == "open":
            for cid in k.get("case_ids", []):
                known_ids[cid] = k
    if g is not None:
        # ---- corpus first
        cinfo = run_corpus(ctx, known_ids, streams)
        total += cinfo["cases"]
        # ---- gate model vs real tables
        t0 = time.time()
        get_pool()
        cov["pool_startup_s"] = round(time.time() - t0, 1)
        t0 = time.time()
        n = 6000 if ctx.quick else 100000
        st, fails = explore("table", "tables", n, ctx.seed)
        streams["tables"] = dict(tables=st["runs"], by_operation=st["top"], measured=st["tstats"], disagreements=len(fails),
                                 wall_s=round(time.time() - t0, 1))
        total += st["runs"]
        distinct += st["distinct"]
        samples += st["samples"][:1]
        fails.sort(key=lambda f: 0 if f[1].startswith("law ") else 1)     # a failing input of a law first
        for case, what, detail in fails[:3]:
            is_law = what.startswith("law ")
            ctx.violation(("the real gate violates the %s" % what.replace(" fails on the real gate", "").replace(" fails on the real code", "")) if is_law else
                          ("gate model and real code disagree: %s" % what),
                          dict(kind="table", case=case, detail=detail), no_input=not is_law,
                          theorem=None if is_law else "correspondence SmartModel gate (changeset_filter / pre_sync / g_request / "
                                                      "g_unrequest / g_listdir) vs cloudsync/smartsync.py")
        # ---- Stream A (seeded, claimed-clean domain; since fc0a567 / 2277c0d it includes folders and ids of path-less entries)
        for fam, nq, nt in (("smart_drained", 1500, 25000), ("smart_interleaved", 3000, 60000)):
            n = nq if ctx.quick else nt
            t0 = time.time()
            st, fails = explore("engine", fam, n, ctx.seed)
            streams[fam] = _stream_info(st, fails, t0)
            total += st["runs"]
            distinct += st["distinct"]
            samples += st["samples"][:1]
            _tie_failures(ctx, fam, fails)
            report_engine_failures(ctx, fam, [f for f in fails if f[1][1] != 1], {}, {})
        # ---- Stream B (deterministic)
        binfo = dict(version=F.WILD_VERSION)
        for fam, n in (("smart_det", F.smart_det_count()), ("smart_wild", 1500 if ctx.quick else 6000)):
            t0 = time.time()
            st, fails = explore("engine", fam, n, 0)
            info = _stream_info(st, fails, t0)
            total += st["runs"]
            distinct += st["distinct"]
            _tie_failures(ctx, fam, fails)
            report_engine_failures(ctx, fam, [f for f in fails if f[1][1] != 1], known_ids, info)
            streams[fam] = info
            binfo["cases"] = binfo.get("cases", 0) + st["runs"]
            binfo["rejected"] = binfo.get("rejected", 0) + len(fails)
            binfo["listed_known"] = binfo.get("listed_known", 0) + info.get("known", 0)
        binfo["corpus"] = cinfo["cases"]
        streams["stream_b"] = binfo
        cov["evaluations_stream_b"] = binfo.get("cases", 0) + cinfo["cases"]
    cov["evaluations"] = total
    cov["distinct_nontrivial"] = distinct
    cov["traces_validated_against_impl"] = sum(v.get("runs", 0) for k, v in streams.items() if isinstance(v, dict) and "runs" in v)
    cov["rule"] = ("tables: random entry tables (1-13 entries: remote-only / paired / dead-local files and folders, discarded and conflicted "
                   "entries, request / exclude / pending sets, three predicates) built in a real SmartCloudSync, one real operation each, real "
                   "state before and after abstracted and compared with the extracted gate model; distinct = distinct recipe. "
                   "engine runs: seeded sequences of remote create/edit/delete/mkdir, local create/edit/mkdir, request / un-request (by local "
                   "path, remote path, id), listing calls, interleaved with engine intake/sync steps (or drained after every action), three "
                   "predicates, both case modes, id-stable providers, fresh paths between drains; judged by the extracted monitor on every "
                   "observation and by smart_spec (both trees + merged listing of every folder) at every quiescent point; a run is "
                   "non-trivial when the engine issued >= 1 provider mutation and (a request or un-request took effect, or a file existed "
                   "only remotely at a quiescent point); distinct = distinct (flavour, predicate, schedule)")
    cov["streams"] = streams
    cov["samples"] = samples[:4]
    close_pool()
    ctx.assumptions.append("the auto-sync predicate is an arbitrary total boolean function of the path (Coq Section variable, no hypothesis on it); "
                           "the runs register one of three shapes (none / by extension / below a folder)")
    ctx.assumptions.append("request / un-request / listing calls and engine steps are executed by one thread, one at a time (thread safety is C15)")
    tb = list(TRUSTED) + ["axioms per theorem as printed by Print Assumptions: " +
                          (", ".join(cov.get("axioms_used", [])) or "none (closed under the global context)")]
    return ctx.finish(tb)


def _stream_info(st, fails, t0):
    return dict(runs=st["runs"], user_ops=st["user_ops"], engine_provider_calls=st["engine_calls"], observations=st["obs"],
                drain_rounds=st["rounds"], quiescent_points_compared=st["quiets"], spec_actions=st["spec_actions"],
                quiescent_points_with_remote_only_files=st["remote_only_quiets"],
                call_outcomes=st["outcomes"], action_kinds=st["opkinds"], predicates=st["autos"], flavours=st["flavours"],
                rejected=len(fails), wall_s=round(time.time() - t0, 1))


def _tie_failures(ctx, fam, fails):
    tie = [f for f in fails if f[1][1] == 1]
    if tie:
        case, verdict, descr, tail = tie[0]
        ctx.violation("TreeModel.apply_op and MockProvider disagree on a user operation: " + descr,
                      dict(kind="correspondence", family=fam, case=case, trace_tail=tail), no_input=True,
                      theorem="correspondence TreeModel.apply_op vs MockProvider (guard TIE)")
