"""C15 — thread safety: the sync state is only touched under its lock; threaded runs converge.

Streams (all judged by the extracted acceptors of ThreadModel.v, coq/bin/thread):
  model     synthetic traces (valid + malformed): extracted lock_errors / violations / final lock / serialise
            against the Python mirror of the semantics; Python threads over a REAL threading.RLock against the model
  corpus    corpus/C15/*.json  — model-level boundary traces, the public-surface scripts, the witnesses of the findings
  seq       every clean-domain family, engine steps driven by emgrs[i].do() / smgr.do(): every access lock-owned
  flt       the same with provider faults (harness/families_c10.py injection layer): a deterministic sweep of every call
            index x 8 kinds over a fixed history, and seeded rate / permanent-path / walk plans: the failure handling of
            the managers (punt, commit, backoff, reconnect, re-authentication, cursor reset) must be lock-owned too
  threaded  CloudSync.start() with the real threads + application threads: every access lock-owned (deterministic
            observation), convergence of both trees after stop (C01 oracle) for CloudSync
An access without the lock is reported once per (engine class, public entry point or manager loop)."""
import glob
import json
import multiprocessing as mp
import os
import random
import time

from .. import framework as fw
from .. import build

CORPUS = os.path.join(build.VERIF, "corpus", "C15")

TRUSTED = [
    "Coq 8.16.1 kernel (coqc); no native_compute; vm_compute only inside Examples / the refutation's finite case split",
    "extraction: ExtrOcamlBasic only; OCaml 4.13.1; coq/ocaml/driver.ml",
    "the observer (harness/families_c15.py): class-level wrappers around SyncState.updated, the attribute setters of "
    "SideState / SyncEntry / SyncState (pystrict's _x_setter), dict/set subclasses substituted for _oids, _paths, "
    "_changeset_storage, _dirtyset, requestset, excludeset, and a wrapper object around SyncState.lock that records "
    "Acq after acquire() returned and Rel before release(); list.append under the GIL as the global order of events",
    "threading.RLock._is_owned() as the ground truth of lock ownership (compared with the model's on every access)",
    "classification of reads: a container read belongs to a read-modify-write when the same operation (one do() of a "
    "manager, one public call) also writes; reads of entry FIELDS are not observed",
    "harness/engine.py: virtual clock (kept in threaded runs: ageing 0, sleeps inside cloudsync modules do not sleep; the "
    "Runnable loops pace themselves on real threading.Event waits), serial ids, in-process replacement of debug_sig",
    "MockProvider as both accounts; its events() generator made atomic per event in threaded runs (the fixture advances "
    "its cursor outside its own lock)",
    "modelled, not verified: which accesses the engine performs (observed per run); C-level atomicity of dict/set "
    "operations under the GIL; the OS scheduler's interleavings are sampled, not enumerated",
]

_W = {}


def _worker_init():
    from .. import families_c15 as O
    O.install()
    _W["monitor"] = fw.ModelProc("monitor")
    _W["thread"] = O.thread_model()


def _summ(O, rec, j, engine, extra=None):
    """small picklable summary of one judged run"""
    unl = {}
    for ent, u in j.unlocked.items():
        unl[ent] = dict(muts=u["muts"], reads=u["reads"], keys=sorted(u["keys"]), inner=sorted(u["inner"]),
                        sites=sorted(u["sites"].items(), key=lambda x: -x[1])[:6])
    d = dict(engine=engine, events=j.events, kinds=j.kinds, sections=j.sections, depth=j.max_depth, threads=j.threads,
             lock_errors=j.lock_errors[:5], mismatch=j.mismatch, final_lock=j.final_lock, unlocked=unl,
             interleaved=O.interleaved_unlocked(rec, j) if j.violations else 0,
             cursor=[rec.cursor_total, rec.cursor_unowned], collapsed=rec.collapsed)
    if extra:
        d.update(extra)
    return d


def _job(args):
    from .. import families_c15 as O
    from .. import families as F
    from .. import enginecheck as EC
    if "monitor" not in _W:
        _worker_init()
    stream, fam, seed, start, count, budget = args
    out = []
    for i in range(start, start + count):
        rng = random.Random("%s/C15/%s/%d" % (seed, fam, i))
        t0 = time.time()
        r0 = O.MODEL_RETRIES[0]
        if stream == "seq":
            case = getattr(F, fam)(rng)
            rec, res = O.observed_sequential(fam, case, _W["monitor"])
            j = O.judge(rec, _W["thread"])
            nu = sum(1 for a in case["schedule"] if a[0] == "user")
            out.append(_summ(O, rec, j, "CloudSync", dict(
                stream=stream, family=fam, index=i, user_ops=nu, provider_calls=res.engine_calls,
                monitor=("accepted" if res.verdict == [] else EC.describe(res)), nontrivial=(nu >= 1 and res.engine_calls >= 1),
                cid=fw.case_id(EC.jsonable_case(dict(f=case["flavour"], s=case["schedule"], b=case.get("base"))))[:16],
                wall=round(time.time() - t0, 3))))
        elif stream == "flt":
            case = O.single_fault_case(i) if fam == "flt_single" else O.FAULT_FAMILIES[fam](rng)
            rec, res = O.observed_faulty(case, _W["monitor"])
            j = O.judge(rec, _W["thread"])
            inj = res.extra["c10"]
            nu = sum(1 for a in case["schedule"] if a[0] == "user")
            fk = {}
            for f in inj.injected:
                fk["%s:%s" % (f["call"], f["kind"])] = fk.get("%s:%s" % (f["call"], f["kind"]), 0) + 1
            out.append(_summ(O, rec, j, "CloudSync", dict(
                stream=stream, family=fam, index=i, user_ops=nu, provider_calls=res.engine_calls,
                monitor=("accepted" if res.verdict == [] else EC.describe(res)[:200]), nontrivial=(nu >= 1 and len(inj.injected) >= 1),
                faults=fk, punts=sum(st.get("punts", 0) or 0 for st in inj.steps),
                backoffs=sum(1 for st in inj.steps if st.get("do") == "backoff"),
                escaped=sum(1 for st in inj.steps if st.get("do") == "exc"),
                reconnects=sum(1 for st in inj.steps if st.get("reconnect")), reauths=sum(1 for st in inj.steps if st.get("reauth")),
                cursor_resets=sum(1 for st in inj.steps if st.get("tag_deleted")), steps=len(inj.steps),
                cid=fw.case_id(EC.jsonable_case(dict(f=case["flavour"], s=case["schedule"], b=case.get("base"))))[:16],
                wall=round(time.time() - t0, 3))))
        else:
            case = O.THR_FAMILIES[fam](rng)
            r = O.run_threaded(case, budget_s=budget)
            rec = r.pop("rec")
            j = O.judge(rec, _W["thread"])
            ser_tie = None
            if not j.violations and not j.lock_errors and j.events <= 60000:
                ser = O.model_call_events(_W["thread"], 1, j.model_events)
                ser_tie = O.ref_serial_ok(j.model_events, ser) or "ok"
            nu = sum(1 for a in case["schedule"] if a[0] == "user")
            smart = bool(case.get("smart"))
            out.append(_summ(O, rec, j, "SmartCloudSync" if smart else "CloudSync", dict(
                stream=stream, family=fam, index=i, user_ops=nu, provider_calls=r["provider_calls"],
                quiet=r["quiet"], stop_timeout=r["stop_timeout"], alive=r["engine_threads_alive"],
                agree_at_stop=O.views_agree(r["views_at_stop"]), agree_final=O.views_agree(r["views_final"]),
                conflicted=O.has_conflicted(r["views_final"]), completion_rounds=r.get("completion_rounds"),
                index_violations=r.get("index_violations", []),
                calls=r["stats"]["calls"], call_errors=r["stats"]["call_errors"], loop_errors=r["loop_errors"][:3],
                faults_fired=r.get("faults_fired", {}),
                ser_tie=ser_tie, nontrivial=(nu >= 1 and r["provider_calls"] >= 1 and j.threads >= 5),
                cid=fw.case_id(EC.jsonable_case(dict(f=case["flavour"], s=case["schedule"], b=case.get("base"), k=fam)))[:16],
                wall=round(time.time() - t0, 2), threaded_wall=r["threaded_wall_s"],
                case=EC.jsonable_case({k: v for k, v in case.items()}))))
        out[-1]["model_retries"] = O.MODEL_RETRIES[0] - r0
    return out


class Explorer:
    """one pool of worker processes for all engine streams; results are collected until a wall-clock budget is spent
    (a loaded machine yields fewer runs, never a wrong verdict: every number in the evidence is what actually ran)"""

    def __init__(self, procs=16):
        self.procs = procs
        self.pool = mp.get_context("fork").Pool(procs, initializer=_worker_init)

    def run(self, stream, fam, n, seed, budget_s, run_budget=20.0, chunk=1):
        """submit jobs while the budget lasts (never more than the workers can start at once), wait for the ones in flight"""
        jobs = [(stream, fam, seed, s, min(chunk, n - s), run_budget) for s in range(0, n, chunk)]
        jobs.reverse()
        out, pending = [], []
        deadline = time.time() + budget_s
        grace = None
        while jobs or pending:
            now = time.time()
            while jobs and len(pending) < self.procs and now < deadline:
                pending.append(self.pool.apply_async(_job, (jobs.pop(),)))
            for r in pending[:]:
                if r.ready():
                    pending.remove(r)
                    out += r.get()
            if now >= deadline:
                if not pending:
                    break
                if grace is None:
                    grace = now + run_budget * (chunk if stream in ("seq", "flt") else 1) + 30.0
                if now > grace:
                    break       # a worker is stuck: counted as not finished
            time.sleep(0.005)
        return out, n - len(out)

    def close(self):
        self.pool.terminate()
        self.pool.join()


class Findings:
    """unlocked accesses aggregated per (engine class, entry)"""

    def __init__(self):
        self.by = {}
        self.surface = {}      # (engine, entry) -> dict(inner=set, keys=set): the deterministic public-surface scripts only

    def add_surface(self, summ, script):
        for ent, u in summ["unlocked"].items():
            f = self.surface.setdefault((summ["engine"], ent), dict(inner=set(), keys=set(), scripts=set()))
            f["inner"].update(u["inner"])
            f["keys"].update(u["keys"])
            f["scripts"].add(script)

    def add(self, summ, where):
        for ent, u in summ["unlocked"].items():
            k = (summ["engine"], ent)
            f = self.by.setdefault(k, dict(runs=0, muts=0, reads=0, keys=set(), sites={}, first=where, interleaved=0))
            f["runs"] += 1
            f["muts"] += u["muts"]
            f["reads"] += u["reads"]
            f["keys"].update(u["keys"])
            for s, c in u["sites"]:
                if len(f["sites"]) < 10 or s in f["sites"]:
                    f["sites"][s] = f["sites"].get(s, 0) + c
        if summ["unlocked"] and summ.get("interleaved"):
            for ent in summ["unlocked"]:
                self.by[(summ["engine"], ent)]["interleaved"] += summ["interleaved"]

    def report(self, ctx):
        n = 0
        for (engine, ent), f in sorted(self.by.items()):
            sites = "; ".join("%s (x%d)" % (s, c) for s, c in sorted(f["sites"].items(), key=lambda x: -x[1])[:4])
            what = ("%s touches the sync state without holding the state lock when entered through %s: %d writes, %d reads of "
                    "a read-modify-write in %d observed runs (fields/containers: %s); innermost frames: %s; first seen in %s"
                    % (engine, ent, f["muts"], f["reads"], f["runs"], ", ".join(sorted(f["keys"])[:14]), sites, f["first"]))
            if f["interleaved"]:
                what += "; %d of these accesses were made while another thread was inside a critical section" % f["interleaved"]
            case = dict(kind="unlocked-state-access", engine=engine, entry=ent)
            if ctx.violation(what, case):
                n += 1
        # the deterministic surface scripts say exactly WHICH functions touch WHAT without the lock under each entry point:
        # an additional unlocked site under an entry point that is already listed is a different case
        for (engine, ent), f in sorted(self.surface.items()):
            what = ("%s, public-surface scripts (%s): entered through %s, these functions touch the sync state without the state "
                    "lock: %s (fields/containers: %s)" % (engine, ", ".join(sorted(f["scripts"])), ent, ", ".join(sorted(f["inner"])),
                                                          ", ".join(sorted(f["keys"]))))
            case = dict(kind="unlocked-state-access/surface", engine=engine, entry=ent, accessors=sorted(f["inner"]),
                        touched=sorted(f["keys"]))
            if ctx.violation(what, case):
                n += 1
        return n


def _model_stream(ctx, cov):
    from .. import families_c15 as O
    m = O.thread_model()
    rng = ctx.sub_rng("model")
    n = 2000 if ctx.quick else 20000
    stats = dict(traces=0, valid=0, malformed=0, events=0, with_lock_errors=0, with_violations=0, serialised=0,
                 rlock_runs=0, rlock_events=0, rlock_max_depth=0)
    d = fw.Distinct()
    for i in range(n):
        valid = rng.random() < 0.6
        tr = O.gen_trace(rng, valid)
        ans = O.model_call_events(m, 0, tr)
        ref = O.ref_judge(tr)
        stats["traces"] += 1
        stats["valid" if valid else "malformed"] += 1
        stats["events"] += len(tr)
        stats["with_lock_errors"] += bool(ref[0])
        stats["with_violations"] += bool(ref[1])
        d.add(tr, nontrivial=len(tr) >= 3)
        if [ans[0], ans[1], ans[2]] != [ref[0], ref[1], ref[2]]:
            ctx.violation("extracted acceptor and the Python mirror of the lock semantics disagree on a trace: model %r, mirror %r"
                          % (ans, list(ref)), dict(kind="acceptor-tie", trace=tr), no_input=True,
                          theorem="correspondence ThreadModel.lock_errors/violations vs harness ref_judge")
            break
        if not ref[0] and not ref[1]:
            ser = O.model_call_events(m, 1, tr)
            bad = O.ref_serial_ok(tr, ser)
            stats["serialised"] += 1
            if bad:
                ctx.violation("serialise on a well-locked disciplined trace: " + bad, dict(kind="serialise-tie", trace=tr, out=ser),
                              no_input=True, theorem="C15_serialise_correct vs extracted serialise")
                break
    # the model lock against a real RLock under real threads
    for i in range(40 if ctx.quick else 300):
        rec = O.real_rlock_run("%s/%d" % (ctx.seed, i))
        j = O.judge(rec, m)
        stats["rlock_runs"] += 1
        stats["rlock_events"] += j.events
        stats["rlock_max_depth"] = max(stats["rlock_max_depth"], j.max_depth)
        if j.lock_errors or j.mismatch or j.final_lock != []:
            ctx.violation("a trace recorded over a real threading.RLock is not what the model lock allows: lock errors %r, "
                          "ownership mismatch %r, final lock %r" % (j.lock_errors[:5], j.mismatch, j.final_lock),
                          dict(kind="rlock-tie", seed=ctx.seed, index=i, trace=j.model_events[:400]), no_input=True,
                          theorem="correspondence ThreadModel.lock_ok/lock_next/owns vs threading.RLock")
            break
    cov["streams"]["model"] = stats
    return stats["traces"] + stats["rlock_runs"], d.nontrivial


def _corpus_stream(ctx, cov, findings):
    from .. import families_c15 as O
    m = O.thread_model()
    stats = dict(files=0, traces=0, scripts=0, calls=0, call_outcomes={})
    for path in sorted(glob.glob(os.path.join(CORPUS, "*.json"))):
        doc = json.load(open(path))
        name = os.path.basename(path)
        stats["files"] += 1
        if "trace" in doc:
            ans = O.model_call_events(m, 0, doc["trace"])
            ref = O.ref_judge(doc["trace"])
            stats["traces"] += 1
            exp = doc.get("expect")
            if [ans[0], ans[1], ans[2]] != [ref[0], ref[1], ref[2]] or (exp is not None and [ans[0], ans[1], ans[2]] != exp):
                ctx.violation("corpus trace %s: model %r, mirror %r, recorded expectation %r" % (name, ans, list(ref), exp),
                              dict(kind="corpus-trace", file=name), no_input=True,
                              theorem="correspondence ThreadModel acceptors vs corpus expectation")
            continue
        rec, calls, views = O.run_script(doc)
        j = O.judge(rec, m)
        stats["scripts"] += 1
        stats["calls"] += len(calls)
        for label, outcome in calls:
            if outcome != "ok":
                stats["call_outcomes"]["%s:%s" % (label, outcome)] = stats["call_outcomes"].get("%s:%s" % (label, outcome), 0) + 1
        engine = "SmartCloudSync" if doc.get("smart") else "CloudSync"
        summ = _summ(O, rec, j, engine)
        findings.add(summ, "corpus/C15/" + name)
        if name.startswith("surface-"):
            findings.add_surface(summ, name)
        if j.lock_errors or j.mismatch or j.final_lock != []:
            ctx.violation("corpus script %s: observed trace not well locked (%r), ownership mismatch %r, final lock %r"
                          % (name, j.lock_errors[:5], j.mismatch, j.final_lock), dict(kind="corpus-lock-tie", file=name),
                          no_input=True, theorem="correspondence ThreadModel lock vs threading.RLock")
        # entries that the script was written to demonstrate but that are lock-owned now: fixed, nothing to report;
        # entries called with the lock held by the application must never be flagged
        held = [e for e in j.unlocked if e.startswith("lock+")]
        if held:
            ctx.violation("corpus script %s: accesses flagged although the calling thread holds the lock: %r" % (name, held),
                          dict(kind="corpus-held", file=name), no_input=True, theorem="observer (ownership of a re-entrant lock)")
        cov.setdefault("corpus_scripts", {})[name] = dict(calls=len(calls), events=j.events, kinds=j.kinds, depth=j.max_depth,
                                                        unlocked_entries=sorted(j.unlocked), expected_on_unfixed_tree=doc.get("expect_unlocked"))
    cov["streams"]["corpus"] = stats
    return stats["traces"] + stats["scripts"]


def run(ctx):
    g = ctx.coq_gate("PropC15")
    cov = ctx.coverage
    cov["streams"] = {}
    findings = Findings()
    total = 0
    distinct = set()
    samples = []
    inconclusive = 0
    retries = 0
    if g is not None:
        from .. import families_c15 as O
        O.install()
        # fork the workers first: from a single-threaded parent that has no model process of its own yet
        ex = Explorer(16)
        total += _corpus_stream(ctx, cov, findings)       # corpus first
        n_model, d_model = _model_stream(ctx, cov)
        total += n_model
        # ---- (i) sequential engine runs of every clean-domain family (wall-clock budget per family)
        seq_plan = [("one_sided", 700, 20000, 4, 70), ("disjoint", 700, 20000, 4, 70), ("conflicts", 400, 10000, 3, 45),
                    ("confinement", 400, 10000, 3, 45), ("restarts", 300, 8000, 5, 70)]
        for fam, nq, nt, bq, bt in seq_plan:
            n = nq if ctx.quick else nt
            t0 = time.time()
            runs, left = ex.run("seq", fam, n, ctx.seed, bq if ctx.quick else bt, chunk=(5 if fam == "restarts" else 10) if ctx.quick else 25)
            st = dict(runs=len(runs), events=0, acq=0, mut=0, read=0, tau=0, sections=0, user_ops=0, provider_calls=0,
                      monitor_rejected=0, unlocked_runs=0, cursor_row_accesses=0, cursor_row_accesses_without_lock=0, max_depth=0)
            for s in runs:
                retries += s.get("model_retries", 0)
                st["events"] += s["events"]
                st["acq"] += s["kinds"][0]
                st["mut"] += s["kinds"][2]
                st["read"] += s["kinds"][3]
                st["tau"] += s["kinds"][4]
                st["sections"] += s["sections"]
                st["user_ops"] += s["user_ops"]
                st["provider_calls"] += s["provider_calls"]
                st["monitor_rejected"] += s["monitor"] != "accepted"
                st["cursor_row_accesses"] += s["cursor"][0]
                st["cursor_row_accesses_without_lock"] += s["cursor"][1]
                st["max_depth"] = max(st["max_depth"], s["depth"])
                if s["nontrivial"]:
                    distinct.add(s["cid"])
                where = "sequential family %s #%d (VERIF_SEED=%s)" % (fam, s["index"], ctx.seed)
                if s["unlocked"]:
                    st["unlocked_runs"] += 1
                    findings.add(s, where)
                if s["lock_errors"] or s["mismatch"] or s["final_lock"] != []:
                    ctx.violation("%s: the observed trace is not what the model lock allows: lock errors %r, ownership mismatch %r, "
                                  "final lock %r" % (where, s["lock_errors"], s["mismatch"], s["final_lock"]),
                                  dict(kind="lock-tie", stream="seq", family=fam, index=s["index"], seed=ctx.seed), no_input=True,
                                  theorem="correspondence ThreadModel lock vs threading.RLock")
            st["wall_s"] = round(time.time() - t0, 1)
            st["not_run_budget_exhausted"] = left
            cov["streams"]["seq_" + fam] = st
            total += len(runs)
            if runs and len(samples) < 2:
                s = runs[0]
                samples.append(dict(stream="seq", family=fam, index=s["index"], events=s["events"], kinds=s["kinds"],
                                    sections=s["sections"], unlocked=sorted(s["unlocked"]), monitor=s["monitor"]))
        # ---- (i-f) sequential runs with provider faults: the error paths of the managers (punt, commit, backoff; reconnect,
        # re-authentication, cursor reset); every step goes through the real Runnable.run loop body
        n_points = O.single_fault_calls(fw.ModelProc("monitor"))
        cov["single_fault_points"] = n_points
        stride = 1
        flt_plan = [("flt_single", n_points * len(O.FAULT_KINDS), n_points * len(O.FAULT_KINDS), 8, 30),
                    ("flt_rate", 150, 6000, 4, 60), ("flt_path", 80, 3000, 3, 45), ("flt_walk", 80, 3000, 3, 45)]
        for fam, nq, nt, bq, bt in flt_plan:
            n = nq if ctx.quick else nt
            t0 = time.time()
            runs, left = ex.run("flt", fam, n, ctx.seed, bq if ctx.quick else bt, chunk=10 if ctx.quick else 25)
            st = dict(runs=len(runs), events=0, mut=0, sections=0, faults_injected=0, fault_points={}, punts=0, backoffs=0,
                      exceptions_escaped_do=0, reconnects=0, reauths=0, cursor_resets=0, steps=0, monitor_or_c10_rejected=0,
                      unlocked_runs=0, deterministic=(fam == "flt_single"))
            for s in runs:
                retries += s.get("model_retries", 0)
                st["events"] += s["events"]
                st["mut"] += s["kinds"][2]
                st["sections"] += s["sections"]
                st["faults_injected"] += sum(s["faults"].values())
                for k, v in s["faults"].items():
                    st["fault_points"][k] = st["fault_points"].get(k, 0) + v
                for k in ("punts", "backoffs", "reconnects", "reauths", "cursor_resets", "steps"):
                    st[k] += s[k]
                st["exceptions_escaped_do"] += s["escaped"]
                st["monitor_or_c10_rejected"] += s["monitor"] != "accepted"     # C10's business (E-8, E-14, E-15): counted only
                if s["nontrivial"]:
                    distinct.add(s["cid"])
                where = "fault-injected sequential family %s #%d%s" % (fam, s["index"], "" if fam == "flt_single" else " (VERIF_SEED=%s)" % ctx.seed)
                if s["unlocked"]:
                    st["unlocked_runs"] += 1
                    findings.add(s, where)
                if s["lock_errors"] or s["mismatch"] or s["final_lock"] != []:
                    ctx.violation("%s: the observed trace is not what the model lock allows: lock errors %r, ownership mismatch %r, "
                                  "final lock %r" % (where, s["lock_errors"], s["mismatch"], s["final_lock"]),
                                  dict(kind="lock-tie", stream="flt", family=fam, index=s["index"], seed=ctx.seed), no_input=True,
                                  theorem="correspondence ThreadModel lock vs threading.RLock")
            st["wall_s"] = round(time.time() - t0, 1)
            st["not_run_budget_exhausted"] = left
            cov["streams"][fam] = st
            total += len(runs)
        # ---- (ii) production-style runs
        thr_plan = [("thr_plain", 16, 700, 20.0, 40, 200), ("thr_forget", 4, 100, 20.0, 25, 45), ("thr_faults", 8, 300, 20.0, 30, 100),
                    ("thr_smart", 6, 250, 8.0, 18, 80), ("thr_smart_faults", 3, 150, 8.0, 14, 60)]
        for fam, nq, nt, budget, bq, bt in thr_plan:
            n = nq if ctx.quick else nt
            t0 = time.time()
            runs, left = ex.run("thr", fam, n, ctx.seed, bq if ctx.quick else bt, run_budget=budget, chunk=1)
            inconclusive += left
            st = dict(runs=len(runs), events=0, acq=0, mut=0, read=0, tau=0, sections=0, user_ops=0, provider_calls=0,
                      quiet=0, inconclusive_timeouts=0, stop_timeouts=0, converged_at_stop=0, converged_final=0,
                      public_calls={}, public_call_exceptions={}, unlocked_runs=0, interleaved_unlocked_accesses=0,
                      max_depth=0, max_threads=0, serialise_checked=0, engine_loop_errors=0, threaded_wall_max=0.0,
                      runs_with_index_violation_at_end=0, faults_fired={})
            for s in runs:
                st["events"] += s["events"]
                st["acq"] += s["kinds"][0]
                st["mut"] += s["kinds"][2]
                st["read"] += s["kinds"][3]
                st["tau"] += s["kinds"][4]
                st["sections"] += s["sections"]
                st["user_ops"] += s["user_ops"]
                st["provider_calls"] += s["provider_calls"]
                retries += s.get("model_retries", 0)
                st["quiet"] += bool(s["quiet"])
                st["stop_timeouts"] += bool(s["stop_timeout"])
                st["converged_at_stop"] += bool(s["agree_at_stop"])
                st["converged_final"] += bool(s["agree_final"])
                st["max_depth"] = max(st["max_depth"], s["depth"])
                st["max_threads"] = max(st["max_threads"], s["threads"])
                st["interleaved_unlocked_accesses"] += s["interleaved"]
                st["engine_loop_errors"] += len(s["loop_errors"])
                st["threaded_wall_max"] = max(st["threaded_wall_max"], s["threaded_wall"])
                st["runs_with_index_violation_at_end"] += bool(s["index_violations"])
                for k, v in s.get("faults_fired", {}).items():
                    st["faults_fired"][k] = st["faults_fired"].get(k, 0) + v
                for k, v in s["calls"].items():
                    st["public_calls"][k] = st["public_calls"].get(k, 0) + v
                for k, v in s["call_errors"].items():
                    st["public_call_exceptions"][k] = st["public_call_exceptions"].get(k, 0) + v
                if s["nontrivial"]:
                    distinct.add(s["cid"])
                where = "threaded family %s #%d (VERIF_SEED=%s)" % (fam, s["index"], ctx.seed)
                if s["unlocked"]:
                    st["unlocked_runs"] += 1
                    findings.add(s, where)
                if s["lock_errors"] or s["mismatch"] or (s["final_lock"] != [] and not s["stop_timeout"]):
                    ctx.violation("%s: the observed trace is not what the model lock allows: lock errors %r, ownership mismatch %r, "
                                  "final lock %r" % (where, s["lock_errors"], s["mismatch"], s["final_lock"]),
                                  dict(kind="lock-tie", stream="thr", family=fam, index=s["index"], seed=ctx.seed), no_input=True,
                                  theorem="correspondence ThreadModel lock vs threading.RLock")
                if s["ser_tie"] is not None:
                    st["serialise_checked"] += 1
                    if s["ser_tie"] != "ok":
                        ctx.violation("%s: serialise on the observed trace: %s" % (where, s["ser_tie"]),
                                      dict(kind="serialise-tie", stream="thr", family=fam, index=s["index"], seed=ctx.seed),
                                      no_input=True, theorem="C15_serialise_correct vs extracted serialise")
                timed_out = (not s["quiet"]) or s["stop_timeout"] or s["alive"]
                if timed_out:
                    st["inconclusive_timeouts"] += 1
                    inconclusive += 1
                if fam in ("thr_plain", "thr_forget"):      # under faults and on demand, convergence is C10's / C20's: counted only
                    # C01 oracle: at the stop when the run was quiet, and in any case after the leftover work was finished
                    # (`busy` is momentarily false while an event is between the provider's cursor and the pending set, so a
                    # run can be stopped a moment early on a loaded machine: trees that differ AT the stop are counted, and are
                    # a failure only if finishing the leftover work step by step does not make them equal)
                    bad = None
                    if not timed_out and not s["agree_at_stop"]:
                        st["stopped_before_converged"] = st.get("stopped_before_converged", 0) + 1
                    if s["completion_rounds"] is not None and not s["agree_final"]:
                        bad = "after the stop the leftover work was finished step by step and the two trees still differ"
                    elif s["completion_rounds"] is None and not timed_out:
                        bad = "after the stop the engine never became quiet (300 rounds)"
                    elif s["conflicted"] and not timed_out:
                        bad = "a '.conflicted' object appeared in a history without conflicts"
                    elif s["index_violations"] and not s["unlocked"]:
                        bad = ("every observed access was lock-owned, yet the index invariant (C11) is broken at a point where no "
                               "thread owns the lock: %r" % (s["index_violations"][:3],))
                    if bad:
                        ctx.violation("%s: %s (public calls %r, exceptions %r)" % (where, bad, s["calls"], s["call_errors"]),
                                      dict(kind="threaded-divergence", family=fam, index=s["index"], seed=ctx.seed, case=s["case"]))
            st["wall_s"] = round(time.time() - t0, 1)
            st["not_finished_budget_exhausted"] = left
            cov["streams"][fam] = st
            total += len(runs)
            if runs and len(samples) < 4:
                s = runs[0]
                samples.append(dict(stream="thr", family=fam, index=s["index"], events=s["events"], kinds=s["kinds"], threads=s["threads"],
                                    sections=s["sections"], quiet=s["quiet"], converged=s["agree_final"], public_calls=s["calls"],
                                    unlocked=sorted(s["unlocked"])))
        ex.close()
        findings.report(ctx)
        cov["unlocked_entry_points"] = sorted("%s via %s" % k for k in findings.by)
    cov["evaluations"] = total
    cov["distinct_nontrivial"] = len(distinct) + (d_model if g is not None else 0)
    cov["traces_validated_against_impl"] = total
    cov["inconclusive_timeouts"] = inconclusive
    cov["model_transport_retries"] = retries
    cov["rule"] = ("an evaluation is one trace judged by the extracted acceptors: a synthetic trace (also judged by the Python mirror), a "
                   "run of Python threads over a real RLock, a corpus script, a sequential clean-domain engine run, or a threaded engine "
                   "run; every engine trace is the global order of lock operations and state accesses observed on the real engine; an "
                   "engine run is non-trivial when it has >= 1 user operation and >= 1 engine-issued provider mutation (threaded: and >= 5 "
                   "threads recorded); distinct = distinct (flavour, base, schedule, family) plus distinct synthetic traces of >= 3 events")
    cov["samples"] = samples
    tb = list(TRUSTED) + ["axioms per theorem as printed by Print Assumptions: " +
                          (", ".join(cov.get("axioms_used", [])) or "none (closed under the global context)")]
    return ctx.finish(tb)


def corpus_case_ids():
    """case ids (framework.case_id) of everything the deterministic corpus flags on the current /repo tree:
         PYTHONPATH=/repo:. PYTHONHASHSEED=0 /venv/bin/python -m harness.checks.c15
       prints {id: case} — what a known_findings.json entry for P-6 has to list while the defect is open"""
    ctx = fw.Ctx("C15", "quick", 0)
    ctx.coverage["streams"] = {}
    f = Findings()
    _corpus_stream(ctx, ctx.coverage, f)
    out = {}
    for (engine, ent) in sorted(f.by):
        c = dict(kind="unlocked-state-access", engine=engine, entry=ent)
        out[fw.case_id(c)] = c
    for (engine, ent), x in sorted(f.surface.items()):
        c = dict(kind="unlocked-state-access/surface", engine=engine, entry=ent, accessors=sorted(x["inner"]),
                 touched=sorted(x["keys"]))
        out[fw.case_id(c)] = c
    return out


if __name__ == "__main__":
    print(json.dumps(corpus_case_ids(), indent=1))
