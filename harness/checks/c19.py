"""C19 — hierarchical path/id cache coherence.  Theorems: coq/theories/PropC19.v about CacheModel.v.

Tie: the extracted model (coq/bin/cache) and the real cloudsync.hierarchical_cache.HierarchicalCache over a
MockProvider (case-sensitive and case-insensitive) execute the same operation sequences; after EVERY operation
the outcome (ok / exception class) and ALL getters (get_oid, get_type, listdir, walk, get_metadata by path for
every path of a finite universe; get_path, get_type, listdir, walk, get_metadata by id for every id of the pool)
are compared: observational equivalence per step.

The property itself (inverse views, unique ids, tree shape, subtree forgetting, rename moves the subtree, agreement
with a plain dictionary of what was inserted and not invalidated) is also evaluated directly on the real object
after every operation.  Streams: corpus (witnesses of the known findings, replayed first), exhaustive short
sequences over a reduced alphabet, seeded random sequences.

Clean domain.  The real code has two open defect classes (see known_findings.json C19-*): (a) an operation that gives a
node the id of the root or of one of its proper ancestors, (c) an insertion at the root path.  The model reproduces both
faithfully (so correspondence continues through them) but the property predicates are evaluated only up to the first such
operation of a sequence: the corpus carries exact witnesses per class, registered by case id.  A third class, (b) a
case-insensitive rename() storing the new leaf name un-normalised, was repaired in /repo (commit 5cc1cf3); its witnesses
stay in the corpus as regression cases (create('/a','i1'); rename('/a','/A') must keep the two views inverse)."""
import glob
import itertools
import json
import multiprocessing
import os
import time

from .. import envfix, framework as fw

NAMES = ["a", "A", "b"]
ROOT_ID = "R"
IDS = ["i1", "i2", "i3", "i4"]
ID_CODE = {"i1": 1, "i2": 2, "i3": 3, "i4": 4, "R": 9}
CODE_ID = {v: k for k, v in ID_CODE.items()}
MD_KEYS = {"k": 1, "j": 2, "z": 3}          # 'z' is not in the template
MD_VALS = {"x": 1, "y": 2, 7: 0}            # the int 7 has the wrong type
TEMPLATE = {"k": str, "j": str}
EXC = {"AssertionError": 1, "ValueError": 2, "TypeError": 3, "AttributeError": 4, "LookupError": 5,
       "RecursionError": 6}
UNMODELLED = 99


def paths_upto(names, depth):
    out = ["/"]
    for d in range(1, depth + 1):
        for t in itertools.product(names, repeat=d):
            out.append("/" + "/".join(t))
    return out


def P(s):
    """path string -> list of name code points (one-character names)"""
    return [ord(x) for x in s.split("/") if x]


def make_cache(cs, root_md=None):
    from cloudsync.hierarchical_cache import HierarchicalCache
    from .c13 import make_prov
    prov = make_prov(cs, False)
    return HierarchicalCache(prov, ROOT_ID, dict(TEMPLATE), root_md), prov


# ------------------------------------------------------------------ operations
# an op is a JSON-able list:
#  ["create", path, id|None, md|None]     ["mkdir", path, id|None, md|None]     ["rename", old, new]
#  ["delete", id|None, path|None]         ["set_oid", path, id|None, "F"|"D"|None]
#  ["update", path, "F"|"D", id|None, md|None, keep]      ["set_md", md|None, id|None, path|None]
def otype(t):
    from cloudsync import FILE, DIRECTORY
    return {"F": FILE, "D": DIRECTORY, None: None}[t]


def md_py(md):
    if md is None:
        return None
    return {k: (7 if v == 7 else v) for k, v in md}


def apply_op(cache, op):
    k = op[0]
    if k == "create":
        return cache.create(op[1], op[2], md_py(op[3]))
    if k == "mkdir":
        return cache.mkdir(op[1], op[2], md_py(op[3]))
    if k == "rename":
        return cache.rename(op[1], op[2])
    if k == "delete":
        return cache.delete(oid=op[1], path=op[2])
    if k == "set_oid":
        return cache.set_oid(op[1], op[2], otype(op[3]))
    if k == "update":
        return cache.update(op[1], otype(op[2]), op[3], md_py(op[4]), op[5])
    if k == "set_md":
        return cache.set_metadata(md_py(op[1]), oid=op[2], path=op[3])
    raise ValueError("unknown op " + repr(op))


def sx_opt(v, f=lambda x: x):
    return [] if v is None else [f(v)]


def sx_md(md):
    return [[MD_KEYS[k], MD_VALS[v]] for k, v in md]


def sx_type(t):
    return {"F": 0, "D": 1}[t]


def op_sx(op):
    k = op[0]
    if k == "create" or k == "mkdir":
        return [0 if k == "create" else 1, P(op[1]), sx_opt(op[2], ID_CODE.get), sx_opt(op[3], sx_md)]
    if k == "rename":
        return [2, P(op[1]), P(op[2])]
    if k == "delete":
        return [3, sx_opt(op[1], ID_CODE.get), sx_opt(op[2], P)]
    if k == "set_oid":
        return [4, P(op[1]), sx_opt(op[2], ID_CODE.get), sx_opt(op[3], sx_type)]
    if k == "update":
        return [5, P(op[1]), sx_type(op[2]), sx_opt(op[3], ID_CODE.get), sx_opt(op[4], sx_md), 1 if op[5] else 0]
    if k == "set_md":
        return [6, sx_opt(op[1], sx_md), sx_opt(op[2], ID_CODE.get), sx_opt(op[3], P)]
    raise ValueError(op)


def request(cs, ops, ups, uos):
    return [0 if cs else 1, [MD_KEYS["k"], MD_KEYS["j"]], ID_CODE[ROOT_ID], [], [op_sx(o) for o in ops],
            [P(p) for p in ups], [ID_CODE[o] for o in uos]]


# ------------------------------------------------------------------ observation of the real object
def obs_type(t):
    from cloudsync import DIRECTORY
    return [] if t is None else [1 if t == DIRECTORY else 0]


def obs_md(d):
    if d is None:
        return []
    return [[[MD_KEYS.get(k, 77), MD_VALS.get(v, 78)] for k, v in d.items()]]


def obs_walk(it):
    return [([] if w is None else [P(w)]) for w in it]


def observe(cache, ups, uos):
    po = []
    for p in ups:
        o = cache.get_oid(p)
        po.append([[] if o is None else [ID_CODE[o]], obs_type(cache.get_type(path=p)),
                   [ord(n) if n else 0 for n in cache.listdir(path=p)], obs_walk(cache.walk(path=p)),
                   obs_md(cache.get_metadata(path=p))])
    oo = []
    for o in uos:
        pth = cache.get_path(o)
        oo.append([[] if pth is None else [P(pth)], obs_type(cache.get_type(oid=o)),
                   [ord(n) if n else 0 for n in cache.listdir(oid=o)], obs_walk(cache.walk(oid=o)),
                   obs_md(cache.get_metadata(oid=o))])
    return [po, oo]


def run_impl(cs, ops, ups, uos, hook=None):
    """-> [obs0, [res, obs], ...] in the model's response format"""
    cache, prov = make_cache(cs)
    out = [observe(cache, ups, uos)]
    for i, op in enumerate(ops):
        before = hook.before(cache, prov, op) if hook else None
        try:
            apply_op(cache, op)
            res = 0
        except RecursionError:
            res = EXC["RecursionError"]
        except Exception as e:       # noqa: BLE001 - the class IS the result
            res = EXC.get(type(e).__name__, 50)
        ob = observe(cache, ups, uos)
        out.append([res, ob])
        if hook:
            hook.after(cache, prov, op, res, before, i, ob)
    return out


# ------------------------------------------------------------------ the property on the real object
def tree_nodes(cache):
    """-> list of (path names tuple, node) by walking the real children dicts; raises on a cycle"""
    out = []
    seen = set()
    stack = [((), cache._root)]
    while stack:
        names, n = stack.pop()
        if id(n) in seen:
            raise AssertionError("cycle")
        seen.add(id(n))
        out.append((names, n))
        for k, ch in n.children.items():
            stack.append((names + (k,), ch))
    return out


def norm(prov, p):
    return prov.normalize_path(p)


def state_predicates(cache, prov, uos):
    """coherence of one state; -> list of (predicate, detail)"""
    bad = []
    from cloudsync import FILE
    try:
        nodes = tree_nodes(cache)
    except AssertionError:
        return [("acyclic", "children graph has a cycle / shared node")]
    ids = {}
    for names, n in nodes:
        if n.type == FILE and n.children:
            bad.append(("file_leaf", "/".join(names)))
        if n.oid is not None:
            if n.oid in ids:
                bad.append(("unique_ids", "id %s at %s and %s" % (n.oid, ids[n.oid], names)))
            ids[n.oid] = names
        for k, ch in n.children.items():
            if ch.parent is not n:
                bad.append(("parent_pointer", "/".join(names + (k,))))
            if k != ch.name:
                bad.append(("child_key", "/".join(names + (k,))))
        keys = [prov.normalize_path("/" + k) for k in n.children]
        if len(set(keys)) != len(keys):
            bad.append(("unique_names", "/".join(names)))
    # the two views are inverses: every id of the dict is a tree node reachable by its own path, and back
    for o, n in cache._oid_to_node.items():
        if ids.get(o) is None or not any(m is n for _, m in nodes):
            bad.append(("map_in_tree", "id %s is indexed but its node is not in the tree" % o))
    for o in ids:
        if o not in cache._oid_to_node:
            bad.append(("tree_in_map", "id %s is in the tree but not indexed" % o))
    # public API only
    for o in list(uos) + [x for x in ids if x not in uos]:
        pth = cache.get_path(o)
        if pth is None:
            if cache.get_type(oid=o) is not None:
                bad.append(("id_has_path", "id %s is cached (get_type) but get_path is None" % o))
        else:
            back = cache.get_oid(pth)
            if back != o:
                bad.append(("path_oid_inverse", "get_path(%s)=%s but get_oid(%s)=%s" % (o, pth, pth, back)))
    for names, n in nodes:
        p = "/" + "/".join(x for x in names if x)
        o = cache.get_oid(p)
        if o != n.oid and names:
            bad.append(("walk_lookup", "tree node %s holds %s but get_oid says %s" % (p, n.oid, o)))
        if o is not None:
            back = cache.get_path(o)
            if back is None or norm(prov, back) != norm(prov, p):
                bad.append(("oid_path_inverse", "get_oid(%s)=%s but get_path(%s)=%s" % (p, o, o, back)))
    return bad


class Spec:
    """The plain dictionary: normalised path -> [type, id, md] of what was inserted and not since invalidated."""

    def __init__(self, prov):
        self.d = {"/": ["D", ROOT_ID, {}]}
        self.prov = prov

    def n(self, p):
        return self.prov.normalize_path(p)

    def under(self, p, strict=False):
        pre = p.rstrip("/") + "/"
        return [q for q in self.d if (q.startswith(pre) and q != p) or (q == p and not strict)]

    def drop(self, p):
        for q in self.under(p):
            if q != "/":
                del self.d[q]

    def drop_id(self, o):
        for q in [q for q, v in self.d.items() if v[1] == o]:
            if q in self.d:
                self.drop(q)

    def parents(self, p):
        par = self.prov.dirname(p)
        if par != p:
            if par not in self.d or self.d[par][0] == "F":
                self.parents(par)
                self.drop(par)
                self.d[par] = ["D", None, {}]

    def put(self, p, t, o, md):
        p = self.n(p)
        self.parents(p)
        self.drop(p)
        if o is not None:
            self.drop_id(o)
        self.d[p] = [t, o, dict(md or {})]

    def apply(self, op):
        k = op[0]
        if k in ("create", "mkdir"):
            self.put(op[1], "F" if k == "create" else "D", op[2], md_py(op[3]))
        elif k == "rename":
            old, new = self.n(op[1]), self.n(op[2])
            moved = {q: self.d[q] for q in self.under(old)} if old in self.d else {}
            for q in moved:
                del self.d[q]
            self.drop(new)
            if moved:
                self.parents(new)
                for q, v in moved.items():
                    self.d[new + q[len(old):]] = v
        elif k == "delete":
            if op[1] is not None:
                if op[1] == ROOT_ID:
                    self.drop("/")
                self.drop_id(op[1])
            else:
                self.drop(self.n(op[2]))
        elif k == "set_oid":
            p = self.n(op[1])
            if p in self.d:
                self.set_id(p, op[2])
            else:
                self.put(p, op[3], op[2], None)
        elif k == "update":
            p = self.n(op[1])
            md = md_py(op[4]) or {}
            if p in self.d and self.d[p][0] == op[2]:
                replaced = False
                if op[3]:
                    replaced = self.set_id(p, op[3])
                if op[5]:
                    if not replaced:
                        self.d[p][2].update(md)
                else:
                    self.d[p][2] = dict(md)
            else:
                self.put(p, op[2], op[3], md)
        elif k == "set_md":
            md = md_py(op[1]) or {}
            if op[2] is not None:
                for q, v in self.d.items():
                    if v[1] == op[2]:
                        v[2] = dict(md)
            else:
                p = self.n(op[3])
                if p in self.d:
                    self.d[p][2] = dict(md)

    def set_id(self, p, o):
        """-> True when the entry was replaced by a fresh one (children and metadata forgotten)"""
        t, cur, md = self.d[p]
        if cur == o:
            return False
        self.drop_id(o)
        if p not in self.d:          # o belonged to an ancestor of p (outside the clean domain)
            return True
        if cur is None:
            self.d[p][1] = o
            return False
        self.drop(p)
        self.d[p] = [t, o, {}]
        return True


def subtree_ids(cache, prov, p):
    """ids of the node at p and below, with their relative paths: {id: rel}"""
    out = {}
    base = None
    for w in cache.walk(path=p):
        if base is None:
            base = w
        o = cache.get_oid(w)
        if o is not None:
            out[o] = w[len(base.rstrip("/")):] if base != "/" else w
    return out


class Hook:
    """evaluates the property on the real object around every operation while the sequence is inside the clean domain"""

    def __init__(self, uos, ups):
        self.uos = uos
        self.ups = ups
        self.clean = True
        self.left_at = None
        self.left_why = None
        self.fail = []          # (index, predicate, detail)
        self.spec = None
        self.checked = 0
        self._np = {}

    def npath(self, prov, p):
        q = self._np.get(p)
        if q is None:
            q = self._np[p] = prov.normalize_path(p)
        return q

    def out_of_domain(self, cache, prov, op):
        k = op[0]
        tgt, o = None, None
        if k in ("create", "mkdir", "set_oid"):
            tgt, o = op[1], op[2]
        elif k == "update":
            tgt, o = op[1], op[3]
        elif k == "rename":
            tgt = op[2]
        if tgt is not None and prov.normalize_path(tgt) == "/":
            return "c:insert-at-root-path"
        if tgt is not None and o is not None:
            if o == ROOT_ID:
                return "a:ancestor-id"
            q = prov.dirname(prov.normalize_path(tgt))
            while True:
                if cache.get_oid(q) == o:
                    return "a:ancestor-id"
                if q == "/":
                    break
                q = prov.dirname(q)
        return None

    def before(self, cache, prov, op):
        if not self.clean:
            return None
        if self.spec is None:
            self.spec = Spec(prov)
        why = self.out_of_domain(cache, prov, op)
        if why:
            self.clean = False
            self.left_why = why
            return None
        b = dict()
        k = op[0]
        if k == "delete":
            node = cache._get_node(oid=op[1], path=op[2]) if (op[1] is not None or op[2] is not None) else None
            if node is not None:
                p = node.full_path()
                b["gone"] = subtree_ids(cache, prov, p)
                if node.is_root:
                    b["gone"].pop(ROOT_ID, None)
        elif k in ("create", "mkdir"):
            b["gone"] = subtree_ids(cache, prov, op[1])
            b["gone"].pop(op[2], None)
        elif k == "rename":
            b["moved"] = subtree_ids(cache, prov, op[1])
            b["gone"] = {o: r for o, r in subtree_ids(cache, prov, op[2]).items() if o not in b["moved"]}
        return b

    def after(self, cache, prov, op, res, b, i, ob):
        if not self.clean:
            if self.left_at is None:
                self.left_at = i
            return
        self.checked += 1
        legal_err = {("rename", EXC["ValueError"]), ("set_oid", EXC["AssertionError"]), ("create", EXC["ValueError"]),
                     ("mkdir", EXC["ValueError"]), ("update", EXC["ValueError"]), ("set_md", EXC["ValueError"]),
                     ("delete", EXC["ValueError"])}
        if res != 0:
            if (op[0], res) not in legal_err:
                self.fail.append((i, "no_internal_error", "exception code %s from %s" % (res, op)))
        for pred, det in state_predicates(cache, prov, self.uos):
            self.fail.append((i, pred, det))
        if res == 0:
            for o in (b or {}).get("gone", {}):
                if cache.get_path(o) is not None or cache.get_type(oid=o) is not None:
                    # the id may legitimately have been re-inserted by this very op (create/mkdir with that id)
                    self.fail.append((i, "forgets_subtree", "id %s of a deleted/replaced subtree is still cached" % o))
            for o, rel in (b or {}).get("moved", {}).items():
                want = prov.normalize_path(op[2] + rel)
                got = cache.get_path(o)
                if got is None or prov.normalize_path(got) != want or cache.get_oid(want) != o:
                    self.fail.append((i, "rename_moves_subtree", "id %s should be at %s, is at %s" % (o, want, got)))
            # the plain dictionary
            self.spec.apply(op)
            for p, got in zip(self.ups, ob[0]):
                want = self.spec.d.get(self.npath(prov, p))
                if want is None:
                    w = [[], [], []]
                else:
                    w = [sx_opt(want[1], ID_CODE.get), [sx_type(want[0])], obs_md(want[2])]
                if [got[0], got[1], got[4]] != w:
                    self.fail.append((i, "dict_model", "%s: cache (id,type,md)=%s dictionary %s" % (p, [got[0], got[1], got[4]], w)))
        else:
            # an argument error must leave the cache unchanged; keep the dictionary as it is
            pass


# ------------------------------------------------------------------ generator
def gen_md(rng, bad_ok):
    r = rng.random()
    if r < 0.55:
        return None
    if r < 0.6:
        return []
    keys = ["k", "j"]
    md = [[rng.choice(keys), rng.choice(["x", "y"])]]
    if rng.random() < 0.3:
        md.append([rng.choice(keys), rng.choice(["x", "y"])])
        if md[1][0] == md[0][0]:
            md.pop()
    if bad_ok and rng.random() < 0.04:
        md.append(rng.choice([["z", "x"], ["k", 7]]))
    return md


def gen_seq(rng, cs, ups, cache_factory):
    """generate while executing on a scratch real cache so that most operations apply to existing entries"""
    n = rng.randint(1, 25)
    cache, prov = cache_factory(cs)
    ops = []
    deep = [p for p in ups if p != "/"]
    for _ in range(n):
        existing = [w for w in cache.walk() if w != "/"] or deep

        def path(pe=0.5):
            if rng.random() < 0.012:
                return "/"
            if rng.random() < pe:
                p = rng.choice(existing)
                if not cs and rng.random() < 0.3:          # the other spelling of the same entry
                    p = p.replace("a", "A") if rng.random() < 0.5 else p.upper()
                return p if p in ups else rng.choice(deep)
            if rng.random() < 0.5:
                return rng.choice(deep[:12])
            return rng.choice(deep)

        def oid(none=0.12):
            r = rng.random()
            if r < none:
                return None
            if r < none + 0.015:
                return ROOT_ID
            return rng.choice(IDS)

        r = rng.random()
        if r < 0.19:
            op = ["create", path(0.25), oid(), gen_md(rng, True)]
        elif r < 0.38:
            op = ["mkdir", path(0.25), oid(), gen_md(rng, True)]
        elif r < 0.54:
            op = ["rename", path(0.85), path(0.3)]
        elif r < 0.62:
            op = ["delete", None, path(0.8)]
        elif r < 0.69:
            op = ["delete", oid(0.0), path(0.5) if rng.random() < 0.3 else None]
        elif r < 0.79:
            op = ["set_oid", path(0.7), oid(0.02), rng.choice(["F", "D", "D"]) if rng.random() > 0.02 else None]
        elif r < 0.92:
            op = ["update", path(0.7), rng.choice(["F", "D"]), oid(0.4), gen_md(rng, True), rng.random() < 0.5]
        elif r < 0.985:
            op = ["set_md", gen_md(rng, True), oid(0.0) if rng.random() < 0.5 else None, path(0.8)]
            if op[2] is not None and rng.random() < 0.7:
                op[3] = None
        else:
            op = ["delete", None, None] if rng.random() < 0.5 else ["set_md", None, None, None]
        ops.append(op)
        try:
            apply_op(cache, op)
        except Exception:      # noqa: BLE001
            pass
    return ops


def exhaustive_ops(paths, ids):
    ops = []
    for p in paths:
        for o in ids + [None]:
            ops.append(["create", p, o, None])
            ops.append(["mkdir", p, o, None])
        for q in paths:
            ops.append(["rename", p, q])
        ops.append(["delete", None, p])
        for o in ids:
            for t in ("F", "D"):
                ops.append(["set_oid", p, o, t])
        for t in ("F", "D"):
            for o in ids + [None]:
                ops.append(["update", p, t, o, [["k", "x"]] if o is None else None, True])
    for o in ids:
        ops.append(["delete", o, None])
    return ops


# ------------------------------------------------------------------ comparison
def fast_load(line):
    return json.loads(line.replace("(", "[").replace(")", "]").replace(" ", ","))


class FastModel(fw.ModelProc):
    def batch_raw(self, reqs):
        import threading
        lines = [fw.sx_dump(x) + "\n" for x in reqs]

        def w():
            self.p.stdin.write("".join(lines))
            self.p.stdin.flush()
        t = threading.Thread(target=w)
        t.start()
        out = []
        for x in lines:
            line = self.p.stdout.readline()
            if not line or line.startswith("!"):
                t.join()
                raise RuntimeError("model %s failed: %r on %s" % (self.name, line, x[:300]))
            out.append(fast_load(line))
        t.join()
        self.calls += len(lines)
        return out


def compare(case, impl, model):
    """-> (first differing step or None, steps compared, index of the first RUnmodelled or None)"""
    if model == fw.MALFORMED:
        return (0, "model could not decode the request"), 0, None
    if impl[0] != model[0]:
        return (0, dict(impl=impl[0], model=model[0])), 0, None
    n = 0
    for i in range(1, len(impl)):
        if model[i][0] == UNMODELLED:
            return None, n, i - 1
        n += 1
        if impl[i] != model[i]:
            return (i, first_diff(impl[i], model[i])), n, None
    return None, n, None


def first_diff(a, b):
    if a[0] != b[0]:
        return dict(what="outcome", impl=a[0], model=b[0])
    for side, (x, y) in zip(("by_path", "by_id"), zip(a[1], b[1])):
        for j, (u, v) in enumerate(zip(x, y)):
            if u != v:
                return dict(what=side, index=j, impl=u, model=v)
    return dict(what="shape")


def run_cases(cases, ups, uos, model, want_hook=True):
    """cases: list of dict(cs=, ops=).  -> list of per-case result dicts"""
    res = []
    impls = []
    for c in cases:
        hook = Hook(uos, ups) if want_hook else None
        impl = run_impl(c["cs"], c["ops"], ups, uos, hook)
        impls.append((impl, hook))
    outs = model.batch_raw([request(c["cs"], c["ops"], ups, uos) for c in cases])
    for c, (impl, hook), mo in zip(cases, impls, outs):
        diff, ncmp, unm = compare(c, impl, mo)
        res.append(dict(case=c, diff=diff, compared=ncmp, unmodelled_at=unm,
                        outcomes=[x[0] for x in impl[1:]],
                        pred_fail=hook.fail if hook else [], left_why=hook.left_why if hook else None,
                        left_at=hook.left_at if hook else None, pred_checked=hook.checked if hook else 0))
    return res


class Acc:
    def __init__(self):
        self.s = dict(sequences=0, ops=0, ops_compared=0, getter_comparisons=0, ok_ops=0, err_ops={}, op_kinds={},
                      unmodelled_sequences=0, left_clean_domain={}, predicate_states_checked=0, seq_len_hist={},
                      mismatches=0, predicate_failures=0)
        self.mism = []
        self.pfail = []
        self.samples = []

    def add(self, r, ups, uos):
        s = self.s
        c = r["case"]
        s["sequences"] += 1
        s["ops"] += len(c["ops"])
        s["ops_compared"] += r["compared"]
        s["getter_comparisons"] += (r["compared"] + 1) * 5 * (len(ups) + len(uos))
        ln = str(min(len(c["ops"]), 25))
        s["seq_len_hist"][ln] = s["seq_len_hist"].get(ln, 0) + 1
        for op, oc in zip(c["ops"], r["outcomes"]):
            s["op_kinds"][op[0]] = s["op_kinds"].get(op[0], 0) + 1
            if oc == 0:
                s["ok_ops"] += 1
            else:
                s["err_ops"][str(oc)] = s["err_ops"].get(str(oc), 0) + 1
        if r["unmodelled_at"] is not None:
            s["unmodelled_sequences"] += 1
        if r["left_why"]:
            s["left_clean_domain"][r["left_why"]] = s["left_clean_domain"].get(r["left_why"], 0) + 1
        s["predicate_states_checked"] += r["pred_checked"]
        if r["diff"] is not None:
            s["mismatches"] += 1
            if len(self.mism) < 5:
                self.mism.append(r)
        if r["pred_fail"]:
            s["predicate_failures"] += 1
            if len(self.pfail) < 5:
                self.pfail.append(r)

    def merge(self, o):
        for k, v in o.s.items():
            if isinstance(v, dict):
                for kk, vv in v.items():
                    self.s[k][kk] = self.s[k].get(kk, 0) + vv
            else:
                self.s[k] += v
        self.mism = (self.mism + o.mism)[:5]
        self.pfail = (self.pfail + o.pfail)[:5]
        self.samples = (self.samples + o.samples)[:4]


def _worker(job):
    kind, arg, ups, uos = job
    envfix.install()
    model = FastModel("cache")
    acc = Acc()
    hashes = []
    try:
        if kind == "random":
            label, n = arg
            import random
            rng = random.Random(label)
            todo = []
            for i in range(n):
                cs = rng.random() < 0.5
                ops = gen_seq(rng, cs, ups, make_cache)
                todo.append(dict(cs=cs, ops=ops))
        else:
            todo = arg
        for i in range(0, len(todo), 100):
            for r in run_cases(todo[i:i + 100], ups, uos, model):
                acc.add(r, ups, uos)
                hashes.append(hash(json.dumps(r["case"], sort_keys=True)))
                if len(acc.samples) < 2 and len(r["case"]["ops"]) >= 4:
                    acc.samples.append(dict(case=r["case"], outcomes=r["outcomes"]))
    finally:
        model.close()
    return acc, hashes


def shrink_case(case, ups, uos, model, pred):
    """greedy removal of operations while pred(result) still holds"""
    def fails(ops):
        r = run_cases([dict(cs=case["cs"], ops=ops)], ups, uos, model)[0]
        return pred(r)
    ops = fw.shrink_list(case["ops"], fails)
    return dict(cs=case["cs"], ops=ops)


def run(ctx):
    envfix.install()
    g = ctx.coq_gate("PropC19")
    cov = ctx.coverage
    total = Acc()
    dist = fw.Distinct()
    ups = paths_upto(NAMES, 3)
    uos = IDS + [ROOT_ID]
    small_ups = paths_upto(["a", "A"], 2) + ["/b", "/a/a/a"]
    streams = {}
    if g is not None:
        model = FastModel("cache")
        t0 = time.time()
        # ---- replay of a single file
        if ctx.replay:
            data = json.load(open(ctx.replay))
            case = data.get("case", data)
            if "ops" not in case and isinstance(case.get("case"), dict):
                case = case["case"]
            r = run_cases([case], ups, uos, model)[0]
            print(json.dumps(dict(diff=r["diff"], outcomes=r["outcomes"], pred_fail=r["pred_fail"],
                                  left_clean_domain=r["left_why"], unmodelled_at=r["unmodelled_at"]), indent=1, default=repr))
        # ---- corpus first: witnesses of the known findings and regression cases
        corpus_acc = Acc()
        for f in sorted(glob.glob(os.path.join(fw.VERIF, "corpus", "C19", "*.json"))):
            data = json.load(open(f))
            case = data["case"]
            hook = Hook(uos, ups)
            hook.out_of_domain = lambda *a: None          # evaluate the property on the whole witness
            impl = run_impl(case["cs"], case["ops"], ups, uos, hook)
            mo = model.batch_raw([request(case["cs"], case["ops"], ups, uos)])[0]
            diff, ncmp, unm = compare(case, impl, mo)
            r = dict(case=case, diff=diff, compared=ncmp, unmodelled_at=unm, outcomes=[x[0] for x in impl[1:]],
                     pred_fail=hook.fail, left_why=None, left_at=None, pred_checked=hook.checked)
            corpus_acc.add(r, ups, uos)
            dist.add(("corpus", json.dumps(case, sort_keys=True)))
            if diff is not None:
                ctx.violation("corpus case %s: model and implementation differ at step %s: %s"
                              % (os.path.basename(f), diff[0], diff[1]),
                              dict(kind="correspondence", case=case), no_input=True,
                              theorem="correspondence CacheModel.run vs HierarchicalCache")
            if hook.fail:
                preds = sorted(set(p for _, p, _ in hook.fail))
                ctx.violation("property fails on the real cache (%s): %s; first: %s"
                              % (os.path.basename(f), ",".join(preds), hook.fail[0][2]), case)
            elif data.get("expect_failure"):
                ctx.violation("corpus witness %s no longer fails: known finding fixed? update known_findings.json"
                              % os.path.basename(f), dict(kind="stale-witness", case=case), no_input=True,
                              theorem="known finding replay")
        streams["corpus"] = corpus_acc.s
        total.merge(corpus_acc)
        model.close()
        # ---- exhaustive short sequences + seeded random sequences, in parallel workers
        quick = ctx.quick
        jobs = []
        ex_ops2 = exhaustive_ops(["/a", "/A", "/a/a", "/a/A"], ["i1", "i2"])
        ex2 = [dict(cs=cs, ops=list(t)) for cs in (True, False) for k in (1, 2) for t in itertools.product(ex_ops2, repeat=k)]
        ex3 = []
        if not quick:
            ex_ops3 = exhaustive_ops(["/a", "/a/a", "/A"], ["i1"])
            ex3 = [dict(cs=cs, ops=list(t)) for cs in (True, False) for t in itertools.product(ex_ops3, repeat=3)]
        ex_all = ex2 + ex3
        nchunk = 64 if quick else 256
        for i in range(nchunk):
            part = ex_all[i::nchunk]
            if part:
                jobs.append(("exhaustive", part, small_ups, uos[:2] + [ROOT_ID]))
        NR = 6000 if quick else 100000
        per = 250 if quick else 1000
        for i in range(NR // per):
            jobs.append(("random", ("%s/C19/random/%d" % (ctx.seed, i), per), ups, uos))
        seen = set()
        accs = {"exhaustive": Acc(), "random": Acc()}
        with multiprocessing.get_context("fork").Pool(min(16, os.cpu_count() or 4)) as pool:
            for (kind, _, _, _), (acc, hashes) in zip(jobs, pool.imap(_worker, jobs, chunksize=1)):
                accs[kind].merge(acc)
                for h in hashes:
                    dist.total += 1
                    if h not in seen:
                        seen.add(h)
                        dist.nontrivial += 1
        for kind, acc in accs.items():
            streams[kind] = acc.s
            total.merge(acc)
        streams["exhaustive"]["alphabet"] = dict(len2_ops=len(ex_ops2), len3_ops=(0 if quick else len(exhaustive_ops(["/a", "/a/a", "/A"], ["i1"]))))
        # ---- verdicts for the streams
        model = FastModel("cache")
        for kind, acc in accs.items():
            u = ups if kind == "random" else small_ups
            o = uos if kind == "random" else uos[:2] + [ROOT_ID]
            for r in acc.mism[:3]:
                small = shrink_case(r["case"], u, o, model, lambda x: x["diff"] is not None)
                rr = run_cases([small], u, o, model)[0]
                ctx.violation("model and implementation differ (%s stream) at step %s: %s; ops=%s"
                              % (kind, rr["diff"][0], json.dumps(rr["diff"][1], default=repr)[:300], small["ops"]),
                              dict(kind="correspondence", case=small),
                              no_input=not (rr["pred_fail"] or r["pred_fail"]),
                              theorem="correspondence CacheModel.run vs HierarchicalCache")
            for r in acc.pfail[:3]:
                small = shrink_case(r["case"], u, o, model, lambda x: bool(x["pred_fail"]))
                rr = run_cases([small], u, o, model)[0]
                preds = sorted(set(p for _, p, _ in rr["pred_fail"]))
                ctx.violation("property fails on the real cache inside the clean domain (%s stream): %s; first: %s; ops=%s"
                              % (kind, ",".join(preds), rr["pred_fail"][0][2], small["ops"]), small)
        model.close()
        streams["wall_s"] = round(time.time() - t0, 1)
        total.samples = accs["random"].samples
    s = total.s
    cov["evaluations"] = s["sequences"]
    cov["distinct_nontrivial"] = dist.nontrivial
    cov["rule"] = ("an evaluation = one operation sequence executed on the real HierarchicalCache and on the extracted model "
                   "with outcome and all getters compared after every operation (paths: all of depth <= 3 over names a/A/b, "
                   "ids i1..i4 and the root id); every sequence has >= 1 operation, so all are non-trivial; distinct = "
                   "distinct (case mode, operation list)")
    cov["exhaustive"] = False
    cov["samples"] = total.samples
    cov["streams"] = streams
    cov["totals"] = s
    cov["ok_fraction"] = round(s["ok_ops"] / max(1, s["ops"]), 3)
    cov["traces_validated_against_impl"] = s["sequences"]
    tb = ["Coq 8.16.1 kernel (coqc); vm_compute only in the *_refuted witnesses and Examples; no native_compute",
          "axioms per theorem as printed by Print Assumptions: " + (", ".join(cov.get("axioms_used", [])) or "none (closed under the global context)"),
          "hypothesis of the theorems about the case fold: idempotent (fold (fold n) = fold n) and never yields the empty name; "
          "the executable model instantiates it with Str.fold_std (case-insensitive) or the identity (case-sensitive)",
          "extraction: ExtrOcamlBasic only; OCaml 4.13.1; coq/ocaml/driver.ml",
          "correspondence harness harness/checks/c19.py (generator, canonicalisation of paths to name lists, ids to small numbers, "
          "exception classes to an enum); CPython dict ordering and reference counting",
          "modelled, not verified: path string parsing (split/join/normalize_path; that is C13), names longer than one character, "
          "falsy ids (''), caller-side aliasing of metadata dicts, states after a root-path insertion "
          "(the model answers Unmodelled there), garbage collection of weakly referenced detached nodes"]
    return ctx.finish(tb)
