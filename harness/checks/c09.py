"""C09 — storage back ends behave as a durable, tag-isolated map of rows.

Theorems: coq/theories/PropC09.v about StoreModel.v (models of SqliteStorage and MockStorage, map spec).
Tie: call sequences generated against the real back ends (SqliteStorage on a file with close/reopen,
SqliteStorage(':memory:'), MockStorage with "new instance over the same dict"); every call's result or
exception class is compared with the extracted model's.  The laws of the property (the Python mirror of
StoreModel.sp_ok) are evaluated on the real back ends' answers as well: that is the search for a failing
input.  A threaded stress run checks the consequences of C09_serial_no_lost_write on one SqliteStorage file.

Two statements of the property are false of MockStorage (the second implementation, a fixture of the unedited test
suite) and of its faithful model (PropC09.v `_refuted`): a second instance over the same dict re-issues id 0, and
read of a missing id raises.  Their deterministic witnesses live in corpus/C09 and are listed in known_findings.json;
the seeded stream evaluates the `_partial` statement for MockStorage (laws without a second instance, ValueError on a
missing read taken as None) and counts how often the known deviations occur.  Two defects of SqliteStorage found by
this check were repaired in /repo (`fix:` 9d0a73d read returned the row tuple; 637ed7d rows fetched outside the
mutex): their witnesses stay in the corpus / the race probe as regressions and are plain VIOLATIONs again.
"""
import glob
import hashlib
import json
import os
import shutil
import struct
import tempfile
import threading
import time

from .. import envfix, framework as fw

TAGS = ["ent", "Ent", "_cursor_/local", ""]
BACKENDS = ["sqlite-file", "sqlite-mem", "mock"]
BIG = 1 << 20


# ------------------------------------------------------------------ values
_VAL_CACHE = {}


def val_from_spec(spec):
    """JSON value spec -> the Python object handed to the back end."""
    k, v = spec
    if k == "big":
        key = (v[0], v[1])
        if key not in _VAL_CACHE:
            if len(_VAL_CACHE) > 4000:
                _VAL_CACHE.clear()
            _VAL_CACHE[key] = hashlib.shake_256(("c09/%s" % v[0]).encode()).digest(v[1])
        return _VAL_CACHE[key]
    if k == "b":
        return bytes.fromhex(v)
    if k == "i":
        return int(v)
    if k == "f":
        return float.fromhex(v)
    if k == "big":                       # [seed, length]: deterministic pseudo-random bytes (non-UTF-8)
        return hashlib.shake_256(("c09/%s" % v[0]).encode()).digest(v[1])
    raise ValueError(spec)


def enc_val(v):
    """Python value -> model blob (list of naturals).  Byte strings up to 48 bytes are their bytes; longer
    ones are (256, length, blake2b-16 digest); ints (cursors) are (257, sign, 24-bit limbs of |n|); floats (258, 8 bytes)."""
    if isinstance(v, (bytes, bytearray)):
        if len(v) <= 48:
            return list(v)
        return [256, len(v)] + list(hashlib.blake2b(bytes(v), digest_size=16).digest())
    if isinstance(v, bool):
        return ["?bool"]
    if isinstance(v, int):
        a, limbs = abs(v), []
        while a:                                     # 24-bit limbs: the OCaml driver reads atoms as native ints
            limbs.append(a & 0xFFFFFF)
            a >>= 24
        return [257, 1 if v < 0 else 0] + limbs
    if isinstance(v, float):
        return [258] + list(struct.pack(">d", v))
    return ["?" + type(v).__name__]


def S(s):
    return [ord(c) for c in s]


# ------------------------------------------------------------------ the real back ends
class Backend:
    def __init__(self, kind, tmpdir, serial):
        self.kind = kind
        self.path = None
        self.dict = None
        if kind == "sqlite-file":
            self.path = os.path.join(tmpdir, "s%d.db" % serial)
        elif kind == "mock":
            self.dict = {}
        self.store = self._open()

    def _open(self):
        from cloudsync.sync.sqlite_storage import SqliteStorage
        from cloudsync.tests.fixtures.mock_storage import MockStorage
        if self.kind == "sqlite-file":
            return SqliteStorage(self.path)
        if self.kind == "sqlite-mem":
            return SqliteStorage(":memory:")
        return MockStorage(self.dict)

    def reopen(self):
        self.store.close()
        self.store = self._open()

    def dispose(self):
        try:
            self.store.close()
        except Exception:
            pass
        if self.path:
            for ext in ("", "-wal", "-shm"):
                try:
                    os.remove(self.path + ext)
                except OSError:
                    pass


def call(be, op):
    """execute one op (JSON form) -> raw Python result, or ('exc', class name)"""
    k = op[0]
    try:
        if k == "create":
            return be.store.create(op[1], val_from_spec(op[2]))
        if k == "update":
            return be.store.update(op[1], val_from_spec(op[2]), op[3])
        if k == "delete":
            return be.store.delete(op[1], op[2])
        if k == "read":
            return be.store.read(op[1], op[2])
        if k == "read_all":
            return be.store.read_all(op[1]) if op[1] is not None else be.store.read_all()
        if k == "reopen":
            be.reopen()
            return ("unit",)
    except Exception as e:          # the class is what is compared
        return ("exc", type(e).__name__)
    raise ValueError(op)


def canon(op, r):
    """raw result -> the model's result term (dicts sorted)"""
    k = op[0]
    if isinstance(r, tuple) and len(r) == 2 and r[0] == "exc":
        return [7, 0] if r[1] == "ValueError" else [7, S(r[1])]
    if r == ("unit",) and k == "reopen":
        return [8]
    if r is None:
        return [2]
    if k == "create":
        return [0, r] if isinstance(r, int) and not isinstance(r, bool) and r >= 0 else ["?create", repr(r)]
    if k == "update":
        return [1, r] if isinstance(r, int) and r >= 0 else ["?update", repr(r)]
    if k == "read":
        if isinstance(r, tuple):
            return [4, [enc_val(x) for x in r]]
        return [3, enc_val(r)]
    if k == "read_all":
        if not isinstance(r, dict):
            return ["?read_all", repr(r)]
        if op[1] is not None:
            return [5, sorted([i, enc_val(v)] for i, v in r.items())]
        return [6, sorted([S(t), sorted([i, enc_val(v)] for i, v in d.items())] for t, d in r.items())]
    return ["?", repr(r)]


def canon_model(m):
    if m and m[0] == 5:
        return [5, sorted(m[1])]
    if m and m[0] == 6:
        return [6, sorted([t, sorted(d)] for t, d in m[1])]
    return m


def op_sx(op):
    k = op[0]
    if k == "create":
        return [0, S(op[1]), enc_val(val_from_spec(op[2]))]
    if k == "update":
        return [1, S(op[1]), enc_val(val_from_spec(op[2])), op[3]]
    if k == "delete":
        return [2, S(op[1]), op[2]]
    if k == "read":
        return [3, S(op[1]), op[2]]
    if k == "read_all":
        return [4, [] if op[1] is None else [S(op[1])]]
    if k == "reopen":
        return [5]
    raise ValueError(op)


def model_request(kind, ops):
    return [1 if kind == "mock" else 0, [op_sx(o) for o in ops]]


# ------------------------------------------------------------------ the laws, on the real answers
class Laws:
    """Python mirror of StoreModel.sp_ok over a reference map (tag, id) -> encoded value.
    full=True: the statement of the property as it stands (`*_full` in PropC09.v);
    full=False: the `_partial` statement for MockStorage (ValueError on a missing read taken as None; a create after
    "new instance over the same dict" may re-issue an id); these deviations are counted in self.known.  For
    SqliteStorage both modes are the same."""

    def __init__(self, kind, full):
        self.kind = kind
        self.full = full
        self.ref = {}
        self.bad = []
        self.known = dict(mock_read_raises=0, mock_reissue=0)
        self.reopened = False

    def fail(self, law, idx, op, r):
        self.bad.append((law, idx, repr(r)[:120]))

    def step(self, idx, op, r):
        k = op[0]
        ref = self.ref
        exc = r[1] if (isinstance(r, tuple) and len(r) == 2 and r[0] == "exc") else None
        if k == "create":
            v = enc_val(val_from_spec(op[2]))
            if exc or not isinstance(r, int):
                return self.fail("create_returns_id", idx, op, r)
            if (op[1], r) in ref:
                if self.kind == "mock" and self.reopened and not self.full:
                    self.known["mock_reissue"] += 1
                else:
                    self.fail("create_fresh", idx, op, r)
            ref[(op[1], r)] = v
        elif k == "update":
            v = enc_val(val_from_spec(op[2]))
            if (op[1], op[3]) in ref:
                if exc or r != 1:
                    return self.fail("update_live_returns_1", idx, op, r)
                ref[(op[1], op[3])] = v
            elif exc != "ValueError":
                self.fail("update_missing_err", idx, op, r)
        elif k == "delete":
            if exc or r is not None:
                return self.fail("delete_total", idx, op, r)
            ref.pop((op[1], op[2]), None)
        elif k == "read":
            want = ref.get((op[1], op[2]))
            if want is None:
                if exc == "ValueError" and self.kind == "mock" and not self.full:
                    self.known["mock_read_raises"] += 1
                elif r is not None:
                    self.fail("read_missing_none", idx, op, r)
            else:
                if exc or isinstance(r, tuple) or enc_val(r) != want:
                    self.fail("read_last_write", idx, op, r)
        elif k == "read_all":
            if exc or not isinstance(r, dict):
                return self.fail("read_all_total", idx, op, r)
            if op[1] is not None:
                want = {i: v for (t, i), v in ref.items() if t == op[1]}
                got = {i: enc_val(v) for i, v in r.items()}
            else:
                want = {}
                for (t, i), v in ref.items():
                    want.setdefault(t, {})[i] = v
                got = {t: {i: enc_val(v) for i, v in d.items()} for t, d in r.items() if d}
            if got != want:
                self.fail("read_all_exact", idx, op, r)
        elif k == "reopen":
            self.reopened = True
            if exc:
                self.fail("reopen_total", idx, op, r)


def replay_ops(kind, ops, tmpdir, serial, full):
    """fixed op list on a fresh back end -> (canonical results, Laws)"""
    be = Backend(kind, tmpdir, serial)
    laws = Laws(kind, full)
    out = []
    try:
        for idx, op in enumerate(ops):
            r = call(be, op)
            out.append(canon(op, r))
            laws.step(idx, op, r)
    finally:
        be.dispose()
    return out, laws


# ------------------------------------------------------------------ generator (driven by the back end's answers)
def gen_value(rng, stats):
    x = rng.random()
    if x < 0.10:
        stats["v_empty"] += 1
        return ["b", ""]
    if x < 0.50:
        stats["v_small"] += 1
        n = rng.randint(1, 8)
        return ["b", bytes(rng.choice([0, 1, 0x7f, 0x80, 0xc3, 0xfe, 0xff, rng.randrange(256)]) for _ in range(n)).hex()]
    if x < 0.62:
        stats["v_msgpack_int"] += 1
        import msgpack
        return ["b", msgpack.packb(rng.choice([0, 1, 127, 128, 65535, 2 ** 32, 2 ** 53 + 1, -1, rng.randrange(10 ** 6)])).hex()]
    if x < 0.74:
        stats["v_int_cursor"] += 1
        return ["i", rng.choice([0, 1, -1, 2 ** 31, 2 ** 62, rng.randrange(10 ** 9)])]
    if x < 0.78:
        stats["v_float"] += 1
        return ["f", rng.choice([0.0, 1.5, 1600000000.123456, -2.25]).hex()]
    if x < 0.995:
        stats["v_medium"] += 1
        return ["big", [rng.randrange(1000), rng.randint(49, 3000)]]
    stats["v_1MiB"] += 1
    return ["big", [rng.randrange(50), BIG + rng.randint(-3, 3)]]


def gen_sequence(rng, kind, be, laws, stats, allow_reopen):
    """-> (ops, canonical results); ops chosen by looking at the answers so far"""
    ops, outs = [], []
    live = {}                      # tag -> set of ids believed live (from the answers)
    dead = []                      # (tag, id) deleted earlier
    n = rng.randint(1, 30)
    for idx in range(n + 1):
        if idx == n:
            op = ["read_all", None]                      # final state, all tags
        else:
            x = rng.random()
            tag = TAGS[3] if rng.random() < 0.05 else TAGS[rng.randrange(3)]
            if x < 0.30 or not any(live.values()) and x < 0.6:
                op = ["create", tag, gen_value(rng, stats)]
            elif x < 0.86:
                y = rng.random()
                pairs = sorted((t, i) for t, ids in live.items() for i in ids)
                others = sorted(i for t, ids in live.items() if t != tag for i in ids if i not in live.get(tag, ()))
                if y < 0.72 and pairs:
                    tag, i = rng.choice(pairs)           # a live row
                    stats["id_live"] += 1
                elif y < 0.84 and others:
                    i = rng.choice(others)               # live under another tag only
                    stats["id_other_tag"] += 1
                elif y < 0.92 and dead:
                    tag, i = rng.choice(dead)            # deleted earlier (may have been handed out again)
                    stats["id_deleted"] += 1
                else:
                    i = rng.choice([0, 1, max([0] + [j for ids in live.values() for j in ids]) + 1, 10 ** 6])
                    stats["id_unused"] += 1
                z = (x - 0.30) / 0.56
                if z < 0.36:
                    op = ["update", tag, gen_value(rng, stats), i]
                elif z < 0.58:
                    op = ["delete", tag, i]
                else:
                    op = ["read", tag, i]
            elif x < 0.93 or not allow_reopen:
                op = ["read_all", tag if rng.random() < 0.75 else None]
            else:
                op = ["reopen"]
        r = call(be, op)
        ops.append(op)
        outs.append(canon(op, r))
        laws.step(idx, op, r)
        stats["op_" + op[0]] += 1
        if isinstance(r, tuple) and r and r[0] == "exc":
            stats["exc_" + r[1]] += 1
        if op[0] == "create" and isinstance(r, int):
            live.setdefault(op[1], set()).add(r)
        elif op[0] == "delete":
            if op[2] in live.get(op[1], ()):
                live[op[1]].discard(op[2])
                dead.append((op[1], op[2]))
    return ops, outs


# ------------------------------------------------------------------ threaded stress
def stress(ctx, tmpdir, nthreads, nops, stats):
    """nthreads threads x nops calls on ONE SqliteStorage object over one file.  Every thread creates rows under the
    shared tags and afterwards updates / deletes / reads only rows it owns, so its own view is deterministic:
    a lost or misdirected write shows as a wrong read, a duplicate live id as two owners, and the final table
    (also after close + reopen) must be exactly the union of the surviving writes."""
    from cloudsync.sync.sqlite_storage import SqliteStorage
    path = os.path.join(tmpdir, "stress.db")
    st = SqliteStorage(path)
    problems = []
    read_anomalies = []                              # wrong answers of read / read_all while other threads run
    owned = [dict() for _ in range(nthreads)]        # per thread: (tag, id) -> value
    counts = [0] * nthreads

    def worker(k):
        rng = ctx.sub_rng("stress-thread-%d" % k)
        mine = owned[k]
        try:
            for j in range(nops):
                x = rng.random()
                tag = TAGS[rng.randrange(3)]
                if x < 0.40 or not mine:
                    v = b"%d:%d:" % (k, j) + bytes(rng.randrange(256) for _ in range(rng.randint(0, 40)))
                    i = st.create(tag, v)
                    if (tag, i) in mine:
                        problems.append(("create returned an id this thread still owns", k, j, tag, i))
                    mine[(tag, i)] = v
                elif x < 0.65:
                    (tag, i) = rng.choice(sorted(mine))
                    v = b"%d:%d:u" % (k, j)
                    if st.update(tag, v, i) != 1:
                        problems.append(("update of an owned row did not return 1", k, j, tag, i))
                    mine[(tag, i)] = v
                elif x < 0.80:
                    (tag, i) = rng.choice(sorted(mine))
                    st.delete(tag, i)
                    del mine[(tag, i)]
                elif x < 0.97:
                    (tag, i) = rng.choice(sorted(mine))
                    if rng.random() < 0.8:
                        r = st.read(tag, i)
                        if r != mine[(tag, i)]:
                            read_anomalies.append(("read", k, j, tag, i, repr(r)[:60]))
                    else:
                        try:
                            d = st.read_all(tag)
                            if any(d.get(ii) != v for (tt, ii), v in mine.items() if tt == tag):
                                read_anomalies.append(("read_all", k, j, tag, len(d)))
                        except ValueError as e:      # `eid, row_tag, row_serialization = row` on a short row
                            read_anomalies.append(("read_all", k, j, tag, repr(e)[:60]))
                else:
                    try:
                        st.update(tag, b"x", 10 ** 9 + k)
                        problems.append(("update of a missing row did not raise", k, j))
                    except ValueError:
                        pass
                counts[k] += 1
        except Exception as e:      # any exception in a worker is a failed run
            problems.append(("exception in worker", k, repr(e)))

    ths = [threading.Thread(target=worker, args=(k,)) for k in range(nthreads)]
    for t in ths:
        t.start()
    for t in ths:
        t.join()
    union = {}
    for k, mine in enumerate(owned):
        for key, v in mine.items():
            if key in union:
                problems.append(("two threads own the same surviving row", key))
            union[key] = v
    ids = [i for (_, i) in union]
    if len(ids) != len(set(ids)):
        problems.append(("surviving ids are not pairwise different", len(ids), len(set(ids))))

    def table(s):
        return {(t, i): v for t, d in s.read_all().items() for i, v in d.items()}
    if table(st) != union:
        problems.append(("final read_all() differs from the union of the surviving writes", len(union)))
    st.close()
    st2 = SqliteStorage(path)
    if table(st2) != union:
        problems.append(("after close + reopen read_all() differs from the union of the surviving writes", len(union)))
    st2.close()
    stats["stress_threads"] = nthreads
    stats["stress_calls"] += sum(counts)
    stats["stress_surviving_rows"] += len(union)
    stats["stress_read_anomalies"] += len(read_anomalies)
    return problems, read_anomalies


RACE_CASE = dict(kind="race", law="concurrent_read_of_a_live_row", backend="sqlite-file",
                 scenario="threads sharing one SqliteStorage; a thread reads rows only it writes; "
                          "read/read_all give a wrong answer while another thread is inside read/read_all")


def race_probe(tmpdir, budget_s, stats):
    """two threads, each reading its own never-modified row through one SqliteStorage, for budget_s seconds or until
    5 wrong answers (regression probe for `fix:` 637ed7d: before it ~3 % of such reads were wrong)"""
    from cloudsync.sync.sqlite_storage import SqliteStorage
    st = SqliteStorage(os.path.join(tmpdir, "race.db"))
    ids = [st.create("ent", b"row%d" % k) for k in range(2)]
    seen, n = [], [0, 0]
    stop = time.time() + budget_s

    def worker(k):
        try:
            while time.time() < stop and len(seen) < 5:
                r = st.read("ent", ids[k])
                n[k] += 1
                if r != b"row%d" % k:
                    seen.append(repr(r)[:40])
        except Exception as e:
            seen.append("exception " + repr(e)[:60])
    ths = [threading.Thread(target=worker, args=(k,)) for k in range(2)]
    for t in ths:
        t.start()
    for t in ths:
        t.join()
    st.close()
    stats["race_probe_reads"] += sum(n)
    stats["race_probe_anomalies"] += len(seen)
    return seen


# ------------------------------------------------------------------ the caller-level consequence of the read tuple
def caller_case(tmpdir, kind):
    """SyncState.storage_update_data / storage_get_data over the back end: what was stored comes back"""
    from cloudsync.sync.state import SyncState
    from cloudsync.providers.mock import MockProvider
    be = Backend(kind, tmpdir, 999999)
    try:
        st = SyncState((MockProvider(False, True), MockProvider(False, True)), storage=be.store, tag="ent")
        st.storage_update_data("_cursor_/local", 7)
        return st.storage_get_data("_cursor_/local")
    finally:
        be.dispose()


# ------------------------------------------------------------------ run
def run(ctx):
    envfix.install()
    from collections import Counter
    g = ctx.coq_gate("PropC09")
    dist = fw.Distinct()
    stats = Counter()
    samples = []
    known_counts = Counter()
    tmpdir = tempfile.mkdtemp(prefix="c09-")            # on disk: corpus, every 20th file sequence, the stress runs
    fastdir = tmpdir                                     # tmpfs when there is one: the bulk of the file sequences
    if os.path.isdir("/dev/shm") and os.access("/dev/shm", os.W_OK):
        fastdir = tempfile.mkdtemp(prefix="c09-", dir="/dev/shm")
    try:
        if g is not None:
            model = fw.ModelProc("store")
            mismatches = []
            serial = [0]

            def model_results(kind, ops):
                return [canon_model(m) for m in model.call(model_request(kind, ops))]

            def fixed_case(kind, ops, label, full):
                """replay a fixed op list: laws (violation per failing law) + correspondence"""
                serial[0] += 1
                outs, laws = replay_ops(kind, ops, tmpdir, serial[0], full)
                for (law, idx, got) in laws.bad:
                    ctx.violation("law %s fails on the real %s at call %d of %s: got %s" % (law, kind, idx, json.dumps(ops)[:300], got),
                                  dict(kind="law", law=law, backend=kind, ops=ops))
                mo = model_results(kind, ops)
                if mo != outs:
                    mismatches.append((label, kind, ops, mo, outs))
                known_counts.update(laws.known)
                return outs, laws

            # ---- replay file
            if ctx.replay:
                c = json.load(open(ctx.replay)).get("case", {})
                if "ops" in c and "backend" in c:
                    fixed_case(c["backend"], c["ops"], "replay", True)
                    stats["replayed"] += 1
            # ---- corpus first (deterministic; full-strength laws)
            for f in sorted(glob.glob(os.path.join(fw.VERIF, "corpus", "C09", "*.json"))):
                c = json.load(open(f))
                if c.get("kind") == "caller":
                    got = caller_case(tmpdir, c["backend"])
                    stats["corpus_caller"] += 1
                    if got != 7:
                        ctx.violation("SyncState.storage_get_data over %s returns %r for a stored cursor 7" % (c["backend"], got),
                                      dict(kind="caller", backend=c["backend"], scenario=c["scenario"]))
                    continue
                outs, laws = fixed_case(c["backend"], c["ops"], "corpus", True)
                stats["corpus"] += 1
                dist.add(("corpus", c["backend"], json.dumps(c["ops"])))
                if "expect" in c and c["expect"] != outs:
                    ctx.violation("corpus case %s: recorded results differ from today's" % os.path.basename(f),
                                  dict(kind="corpus-drift", file=os.path.basename(f), got=outs), no_input=True,
                                  theorem="corpus expectation")
            # ---- seeded stream
            NSEQ = 3000 if ctx.quick else 60000
            per = NSEQ // 3
            for kind in BACKENDS:
                t_kind = time.time()
                rng = ctx.sub_rng("seq-" + kind)
                pending = []
                for n in range(per):
                    serial[0] += 1
                    on_disk = n % 20 == 0
                    be = Backend(kind, tmpdir if on_disk else fastdir, serial[0])
                    if kind == "sqlite-file":
                        stats["file_seq_on_disk" if on_disk or fastdir == tmpdir else "file_seq_on_tmpfs"] += 1
                    # MockStorage: laws only where the partial theorem speaks (one instance); with a second instance
                    # over the same dict (2 of 3 sequences) the correspondence is still checked and the re-issue counted
                    allow_reopen = kind == "sqlite-file" or (kind == "mock" and n % 3 != 0)
                    laws = Laws(kind, False)
                    try:
                        ops, outs = gen_sequence(rng, kind, be, laws, stats, allow_reopen)
                    finally:
                        be.dispose()
                    stats["seq_" + kind] += 1
                    stats["calls"] += len(ops)
                    known_counts.update(laws.known)
                    writes = sum(1 for o in ops if o[0] in ("create", "update", "delete"))
                    dist.add((kind, json.dumps(ops)), nontrivial=writes >= 1 and len(ops) >= 3)
                    seen_laws = set()
                    for (law, idx, got) in laws.bad:
                        stats["law_failures"] += 1
                        if law in seen_laws or stats["law_failures_reported"] >= 8:
                            continue                     # one report per law and sequence, at most 8 shrunk reports
                        seen_laws.add(law)
                        stats["law_failures_reported"] += 1
                        small = fw.shrink_list(ops, lambda c: any(b[0] == law for b in replay_ops(kind, c, tmpdir, 0, False)[1].bad))
                        ctx.violation("law %s fails on the real %s (call %d): got %s; shrunk to %s" % (law, kind, idx, got, json.dumps(small)[:300]),
                                      dict(kind="law", law=law, backend=kind, ops=small))
                    pending.append((ops, outs))
                    if len(samples) < 6 and n in (0, 1):
                        samples.append(dict(backend=kind, ops=ops[:8], results=[r if len(repr(r)) < 300 else repr(r)[:300] for r in outs[:8]]))
                    if len(pending) >= 250 or n == per - 1:
                        res = model.batch([model_request(kind, o) for o, _ in pending])
                        for (ops_, outs_), mo in zip(pending, res):
                            mo = [canon_model(m) for m in mo]
                            if mo != outs_:
                                mismatches.append(("seq", kind, ops_, mo, outs_))
                        pending = []
                stats["wall_s_seq_" + kind] = round(time.time() - t_kind, 1)
            # ---- threads
            t_thr = time.time()
            nthreads, nops = (4, 120) if ctx.quick else (8, 500)
            rounds = 1 if ctx.quick else 6
            for rd in range(rounds):
                sub = os.path.join(tmpdir, "stress%d" % rd)
                os.makedirs(sub)
                problems, anomalies = stress(ctx, sub, nthreads, nops, stats)
                for p in problems:
                    ctx.violation("threaded stress on one SqliteStorage file: %r" % (p,),
                                  dict(kind="stress", threads=nthreads, ops=nops, round=rd, problem=[str(x) for x in p]))
                if anomalies:
                    ctx.violation("threaded stress: read/read_all of rows only the reading thread writes gave wrong answers "
                                  "while other threads were reading, e.g. %r" % (anomalies[:3],), RACE_CASE)
                stats["stress_rounds"] += 1
            seen = race_probe(tmpdir, 1.0 if ctx.quick else 3.0, stats)
            if seen:
                ctx.violation("two threads reading their own never-modified rows through one SqliteStorage: read returned %s"
                              % ", ".join(seen[:5]), RACE_CASE)
            stats["wall_s_threads"] = round(time.time() - t_thr, 1)
            stats["model_calls"] = model.calls
            # ---- correspondence verdict
            for (label, kind, ops, mo, io) in mismatches[:5]:
                def differs(c, kind=kind):
                    o, _ = replay_ops(kind, c, tmpdir, 0, False)
                    return model_results(kind, c) != o
                try:
                    small = fw.shrink_list(ops, differs)
                    mo_s, io_s = model_results(kind, small), replay_ops(kind, small, tmpdir, 0, False)[0]
                except Exception:
                    small, mo_s, io_s = ops, mo, io
                ctx.violation("model and implementation differ (%s, %s): ops %s model %s impl %s; no law of the property fails "
                              "on the explored inputs" % (label, kind, json.dumps(small)[:300], mo_s, io_s),
                              dict(kind="correspondence", backend=kind, ops=small, model=mo_s, impl=io_s),
                              no_input=not any(v for v in ctx.violations if not v[2]),
                              theorem="correspondence StoreModel.run vs " + kind)
            stats["mismatches"] = len(mismatches)
            model.close()
    finally:
        shutil.rmtree(tmpdir, ignore_errors=True)
        if fastdir != tmpdir:
            shutil.rmtree(fastdir, ignore_errors=True)
    stats.update({"known_" + k: v for k, v in known_counts.items()})
    cov = ctx.coverage
    cov["evaluations"] = dist.total
    cov["distinct_nontrivial"] = dist.nontrivial
    cov["rule"] = ("call sequences of 1-30 calls (+ a final read_all()) over the tags %r, generated against the real back end's "
                   "answers (ids named by update/delete/read: live rows, ids live under another tag only, deleted ids, never "
                   "used ids - realised shares in streams.id_*); values: empty, 1-8 bytes incl. non-UTF-8, msgpack-ed ints, raw int and float cursors, 49-3000 bytes, "
                   "~1 MiB (digest compared); close/reopen in sqlite-file and in 2 of 3 mock sequences; a sequence is non-trivial "
                   "when it has >= 3 calls and >= 1 write; distinct = distinct (back end, op list)" % (TAGS,))
    cov["exhaustive"] = False
    cov["samples"] = samples
    cov["streams"] = dict(stats)
    cov["traces_validated_against_impl"] = stats.get("seq_sqlite-file", 0) + stats.get("seq_sqlite-mem", 0) + stats.get("seq_mock", 0) + stats.get("corpus", 0)
    tb = ["Coq 8.16.1 kernel (coqc); vm_compute in the three `_refuted` witnesses and the Examples; no native_compute",
          "axioms per theorem as printed by Print Assumptions: " + (", ".join(cov.get("axioms_used", [])) or "none (closed under the global context)"),
          "atomicity of one storage call (the mutex in SqliteStorage.__db_execute, sqlite autocommit, the GIL): an assumption of "
          "C09_serial_no_lost_write, checked only through its consequences by the threaded stress run",
          "SQLite itself: rowid allocation (1 + max rowid, no AUTOINCREMENT), WHERE evaluation, BLOB affinity, WAL durability across "
          "close/reopen are modelled and compared on every run, not verified; power-loss durability is not exercised",
          "values are opaque in the model: blobs > 48 bytes are compared by blake2b-128 digest and length",
          "extraction: ExtrOcamlBasic only; OCaml 4.13.1; coq/ocaml/driver.ml",
          "correspondence harness harness/checks/c09.py (generator, canonicalisation, the Python mirror of sp_ok)",
          "not modelled: use of a closed SqliteStorage (ProgrammingError), ids that are not non-negative ints (None, str), tags that are "
          "not str, values SQLite cannot bind (ints >= 2**63), rowid exhaustion at 2**63-1, several SqliteStorage objects on one file"]
    return ctx.finish(tb)
