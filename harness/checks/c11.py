"""C11 — sync-state index integrity.  Theorems: coq/theories/PropC11.v about StateModel.v.
Tie: random sequences of raw provider events (both id styles), direct field assignments,
split / finished / discard / forget_oid / move-a-side on a real SyncState (no storage); after
EVERY operation the real entries, _oids, _paths, _changeset_storage and _dirtyset are abstracted
and compared with the extracted model's state; exceptions are compared by class.  The property
itself (harness/state_oracle.index_violations) is evaluated on the real state after every op."""
import builtins
import json
import os
import sys
import types

from .. import envfix, framework as fw
from .. import state_oracle

OT = ["dir", "file", "trashed"]                       # OType values in model order
EX = ["unknown", "exists", "trashed", "missing", "likely-trashed"]
IGN = ["none", "discarded", "conflict", "temp rename", "irrelevant"]
ERR = {"RecursionError": 0, "AssertionError": 1, "KeyError": 2}
FIELDS = ["path", "oid", "changed", "hash", "sync_hash", "sync_path", "exists", "otype", "force_sync"]

PATHS = ["/a", "/b", "/a/x", "/a/b", "/b/x", "/a/b/x", "/a/x/y", "/b/a"]
ODD_PATHS = ["\\a\\x", "/a/", "/A", "/a//b", ""]
OIDS = ["o1", "o2", "o3"]

_inst = {}


class Clock:
    def __init__(self):
        self.t = 0

    def time(self):
        self.t += 1
        return self.t


class Rec:
    """what the real run records for the model: creation serials, set orders"""
    def __init__(self):
        self.ents = []
        self.tape = []
        self.mult = 1


REC = Rec()


def instrument():
    """in-process only: virtual clock, entry serials + deterministic hashes, recording of the two
    hash-ordered iterations.  None of this changes what the code computes."""
    if _inst:
        return _inst
    envfix.install()
    import cloudsync.sync.state as st
    clock = Clock()
    st.time = types.SimpleNamespace(time=clock.time)
    orig_init = st.SyncEntry.__init__

    def init(self, *a, **k):
        object.__setattr__(self, "_serial", len(REC.ents))
        object.__setattr__(self, "_hv", (len(REC.ents) * REC.mult) & 0xFFFF)
        REC.ents.append(self)
        orig_init(self, *a, **k)
    st.SyncEntry.__init__ = init
    st.SyncEntry.__hash__ = lambda self: self._hv

    def rec_set(*a):
        s = builtins.set(*a)
        if a and isinstance(a[0], list) and len(a[0]) == 2 and len(s) == 2:
            first = next(iter(s))
            new = a[0][1]
            REC.tape.append([0, 1 if (first is new or (first is not None and first == new)) else 0])
        return s
    st.set = rec_set
    orig_get_all = st.SyncState.get_all

    def get_all(self, discarded=False):
        r = orig_get_all(self, discarded)
        REC.tape.append([1, [e._serial for e in r]])
        return r
    st.SyncState.get_all = get_all
    _inst.update(st=st, clock=clock)
    return _inst


# ------------------------------------------------------------------ encoding helpers
def S(s):
    return [ord(c) for c in s]


def O(x, f=lambda v: v):
    return [] if x is None else [f(x)]


def hbytes(h):
    return None if h is None else b"h%d" % h


def hint(b):
    return None if b is None else int(b[1:])


def enc_chg(v):
    if v is None:
        return [0]
    if v is False:
        return [1]
    return [2, int(round(v * 1000))]


def chg_value(c):
    """case encoding of a changed value -> python"""
    if c == "none":
        return None
    if c == "false":
        return False
    return c


def wire_chg(c):
    if c == "none":
        return [0]
    if c == "false":
        return [1]
    return [2, c * 1000]


def wire_op(op):
    k = op[0]
    if k == "update":
        _, sd, ot, oid, path, h, ex, prior = op
        return [0, sd, O(ot), O(oid, S), O(path, S), O(h), O(ex, int), O(prior, S)]
    if k == "set":
        _, e, sd, f, v = op
        fi = FIELDS.index(f)
        if f in ("path", "oid", "sync_path"):
            w = O(v, S)
        elif f == "changed":
            w = wire_chg(v)
        elif f in ("hash", "sync_hash"):
            w = O(v)
        else:
            w = int(v)
        return [1, e, sd, fi, w]
    if k == "ign":
        return [2, op[1], op[2]]
    if k == "prio":
        return [3, op[1], op[2]]
    if k == "split":
        return [4, op[1]]
    if k == "finished":
        return [5, op[1]]
    if k == "forget":
        return [6, op[1], S(op[2])]
    if k == "mark":
        return [7, op[1], op[2]]
    if k == "move":
        return [8, op[1], op[2], op[3]]
    if k == "updent":
        _, e, sd, oid, path, h, ex, ch, ot = op
        return [9, e, sd, O(oid, S), O(path, S), O(h), O(ex, int), int(ch), O(ot)]
    if k == "discard":
        return [10, op[1]]
    raise ValueError(op)


def wire_cfg(cfg):
    def inf(i):
        return [int(i["self"]), [[S(p), O(o, S)] for p, o in i["table"]]]
    return [int(cfg["oip"][0]), int(cfg["oip"][1]), int(cfg["cs"][0]), int(cfg["cs"][1]), 1000, 1000,
            inf(cfg["info"][0]), inf(cfg["info"][1]), int(bool(cfg.get("legacy", False)))]


# ------------------------------------------------------------------ the real side
class Real:
    def __init__(self, cfg):
        I = instrument()
        st = I["st"]
        from cloudsync.providers.mock import MockProvider
        from cloudsync.types import OInfo, OType, IgnoreReason
        self.st, self.OType, self.Ign = st, OType, IgnoreReason
        REC.ents = []
        REC.tape = []
        REC.mult = cfg.get("mult", 1)
        I["clock"].t = 0
        provs = []
        for sd in (0, 1):
            p = MockProvider(bool(cfg["oip"][sd]), bool(cfg["cs"][sd]))
            p.default_sleep = 10          # _punt_secs = 1.0 exactly
            table = {a: b for a, b in cfg["info"][sd]["table"]}
            dflt = cfg["info"][sd]["self"]

            def info_path(path, use_cache=True, table=table, dflt=dflt):
                if path in table:
                    o = table[path]
                else:
                    o = path if dflt else None
                return None if o is None else OInfo(otype=OType.FILE, oid=o, hash=None, path=path)
            p.info_path = info_path
            provs.append(p)
        self.state = st.SyncState((provs[0], provs[1]))
        self.exv = [st.Exists(x) for x in EX]

    def ent(self, i):
        return REC.ents[i]

    def apply(self, op):
        s = self.state
        k = op[0]
        if k == "update":
            _, sd, ot, oid, path, h, ex, prior = op
            s.update(sd, None if ot is None else self.OType(OT[ot]), oid, path=path, hash=hbytes(h),
                     exists=ex, prior_oid=prior)
        elif k == "set":
            _, e, sd, f, v = op
            side = self.ent(e)[sd]
            if f == "changed":
                v = chg_value(v)
            elif f in ("hash", "sync_hash"):
                v = hbytes(v)
            elif f == "exists":
                v = self.exv[v]
            elif f == "otype":
                v = self.OType(OT[v])
            elif f == "force_sync":
                v = bool(v)
            setattr(side, f, v)
        elif k == "ign":
            self.ent(op[1]).ignored = self.Ign(IGN[op[2]])
        elif k == "prio":
            self.ent(op[1]).priority = op[2]
        elif k == "split":
            s.split(self.ent(op[1]))
        elif k == "finished":
            s.finished(self.ent(op[1]))
        elif k == "forget":
            s.forget_oid(op[1], op[2])
        elif k == "mark":
            s.mark_changed(op[2], self.ent(op[1]))
        elif k == "move":
            self.ent(op[1])[op[3]] = self.ent(op[2])[op[3]]
        elif k == "updent":
            _, e, sd, oid, path, h, ex, ch, ot = op
            s.update_entry(self.ent(e), sd, oid, path=path, file_hash=hbytes(h), exists=ex,
                           changed=bool(ch),
                           otype=None if ot is None else self.OType(OT[ot]))
        elif k == "discard":
            self.ent(op[1]).ignore(self.Ign.DISCARDED)
        else:
            raise ValueError(op)

    def dump(self):
        s = self.state
        ents = []
        for e in REC.ents:
            sides = []
            for sd in (0, 1):
                x = e[sd]
                sides.append([OT.index(x._otype.value), O(x._oid, S), O(x._path, S), O(hint(x._hash)),
                              O(x._sync_path, S), O(hint(x._sync_hash)), EX.index(x._exists.value),
                              enc_chg(x._changed), int(bool(x._force_sync))])
            ents.append([sides[0], sides[1], IGN.index(e._ignored.value), e._priority])
        oids = [[[S(o), e._serial] for o, e in s._oids[sd].items()] for sd in (0, 1)]
        paths = [[[S(p), [[S(o), e._serial] for o, e in d.items()]] for p, d in s._paths[sd].items()] for sd in (0, 1)]
        return [0, ents, oids[0], oids[1], paths[0], paths[1], sorted(e._serial for e in s._changeset_storage),
                sorted(e._serial for e in s._dirtyset), int(round(s._last_changed_time * 1000))]

    def step(self, op):
        """-> (result, tape, violations)"""
        REC.tape = []
        base = len(_stack_depth())
        old = sys.getrecursionlimit()
        sys.setrecursionlimit(base + 700)
        try:
            try:
                self.apply(op)
                res = None
            except (RecursionError, AssertionError, KeyError) as e:
                res = [1, ERR[type(e).__name__]]
        finally:
            sys.setrecursionlimit(old)
        tape = REC.tape
        REC.tape = []
        if res is None:
            res = self.dump()
        return res, tape


def _stack_depth():
    f = sys._getframe()
    out = []
    while f is not None:
        out.append(1)
        f = f.f_back
    return out


# ------------------------------------------------------------------ generator
def gen_cfg(rng):
    oip = [rng.random() < 0.5, rng.random() < 0.5]
    cs = [rng.random() < 0.85, rng.random() < 0.85]
    info = []
    for sd in (0, 1):
        table = []
        if rng.random() < 0.3:
            for p in rng.sample(PATHS, 2):
                table.append([p, rng.choice([None, rng.choice(PATHS), p])])
        info.append(dict(self=rng.random() < 0.7, table=table))
    return dict(oip=oip, cs=cs, info=info, mult=rng.choice([1, 1, 3, 7, 11, 8]))


def gen_oid(rng, cfg, sd, malformed):
    if cfg["oip"][sd]:
        return rng.choice(PATHS[:6])
    if malformed and rng.random() < 0.1:
        return ""
    return rng.choice(OIDS)


def gen_path(rng, malformed):
    if malformed and rng.random() < 0.3:
        return rng.choice(ODD_PATHS)
    return rng.choice(PATHS)


def gen_op(rng, cfg, n_ents, malformed, ents=()):
    """one operation; mostly events; direct writes only when an entry exists; unless the stream is
    the malformed one, operations whose precondition (an assert in the code) fails are re-drawn"""
    if n_ents >= 2 and rng.random() < 0.04:
        # targeted: move a side that has a path but NO id (what ousting by a rename-over event, an id re-used by a
        # direct assignment, or a re-keyed kid leaves behind) onto an entry that OWNS an id on that side
        # (the "path first, then id" order of SyncEntry.__setitem__)
        cands = [(d, s_, sd) for sd in (0, 1) for s_ in range(n_ents) for d in range(n_ents)
                 if d != s_ and ents[s_][sd]._path and not ents[s_][sd]._oid and ents[d][sd]._oid]
        if cands:
            d, s_, sd = cands[rng.randrange(len(cands))]
            return ["move", d, s_, sd]
    for _ in range(20):
        op = gen_op1(rng, cfg, n_ents, malformed)
        if malformed or applicable(op, ents):
            return op
    return op


ALLOWED = None      # optional restriction of the op alphabet (set of op kinds)


def applicable(op, ents):
    k = op[0]
    if ALLOWED is not None and k not in ALLOWED:
        return False
    if k == "set" and op[3] == "path":
        return not op[4] or bool(ents[op[1]][op[2]]._oid)
    if k == "split":
        return bool(ents[op[1]][0]._oid)
    if k == "move":
        # SyncEntry.__setitem__: an incoming side WITH an id is announced id first, then path; one WITHOUT an id
        # path first, then id (None).  _change_path asserts the destination's CURRENT id only in the second order,
        # so the only failing precondition is: incoming path, no incoming id, and no id on the destination either.
        if not (op[1] != op[2] and op[1] < len(ents) and op[2] < len(ents)):
            return False
        src, dst = ents[op[2]][op[3]], ents[op[1]][op[3]]
        return not src._path or bool(src._oid) or bool(dst._oid)
    if k == "updent":
        e = ents[op[1]][op[2]]
        return (op[3] or e._oid) and not (op[8] == 2 and op[6])
    if k == "forget":
        return False
    if k == "update":
        return op[3] is not None and op[2] is not None and not (op[2] == 2 and op[6])
    return True


def gen_op1(rng, cfg, n_ents, malformed):
    r = rng.random()
    sd = rng.randint(0, 1)
    if n_ents == 0 or r < 0.45:
        oid = gen_oid(rng, cfg, sd, malformed)
        if cfg["oip"][sd]:
            path = oid if rng.random() < 0.85 else gen_path(rng, malformed)
            prior = rng.choice(PATHS[:6]) if rng.random() < 0.4 else None
        else:
            path = gen_path(rng, malformed) if rng.random() < 0.8 else None
            prior = rng.choice(OIDS) if (malformed and rng.random() < 0.2) else None
        if malformed and rng.random() < 0.1:
            oid = None
        ex = rng.choice([True, True, True, False, None])
        ot = rng.choice([0, 0, 1, 1, 1, 2]) if not ex else rng.choice([0, 1, 1])
        if malformed and rng.random() < 0.05:
            ot = rng.choice([None, 2])
        h = rng.choice([None, 1, 2, 3])
        return ["update", sd, ot, oid, path, h, ex, prior]
    e = rng.randrange(n_ents)
    if r < 0.53:
        return ["set", e, sd, "path", rng.choice([None, gen_path(rng, malformed), gen_path(rng, malformed)])]
    if r < 0.60:
        return ["set", e, sd, "oid", rng.choice([None, gen_oid(rng, cfg, sd, malformed), gen_oid(rng, cfg, sd, malformed)])]
    if r < 0.67:
        return ["set", e, sd, "changed", rng.choice(["none", 0, 1, 5, 7, "false" if malformed else 0])]
    if r < 0.71:
        f = rng.choice(["hash", "sync_hash", "sync_path", "exists", "otype", "force_sync"])
        if f in ("hash", "sync_hash"):
            v = rng.choice([None, 1, 2])
        elif f == "sync_path":
            v = rng.choice([None] + PATHS)
        elif f == "exists":
            v = rng.randrange(5)
        elif f == "otype":
            v = rng.randrange(2)
        else:
            v = rng.randrange(2)
        return ["set", e, sd, f, v]
    if r < 0.75:
        return ["ign", e, rng.choice([0, 0, 1, 2, 3, 4])]
    if r < 0.80:
        return ["discard", e]
    if r < 0.84:
        return ["prio", e, rng.choice([0, 1, 2])]
    if r < 0.89:
        return ["split", e]
    if r < 0.94:
        return ["finished", e]
    if r < 0.96:
        return ["mark", e, sd]
    if r < 0.975:
        return ["forget", sd, gen_oid(rng, cfg, sd, malformed)]
    if r < 0.99:
        return ["move", e, rng.randrange(n_ents), sd]
    return ["updent", e, sd, rng.choice([None, gen_oid(rng, cfg, sd, malformed)]), rng.choice([None, gen_path(rng, malformed)]),
            rng.choice([None, 1]), rng.choice([True, False, None]), rng.random() < 0.5, rng.choice([None, 0, 1])]


def run_real(cfg, ops=None, rng=None, nops=0, malformed=False):
    """executes ops (or generates them on the fly) on a real SyncState.
    -> (ops, results, tapes, property violations [(step, [text...])])"""
    real = Real(cfg)
    out_ops, results, tapes, viol = [], [], [], []
    i = 0
    while True:
        if ops is not None:
            if i >= len(ops):
                break
            op = ops[i]
        else:
            if i >= nops:
                break
            op = gen_op(rng, cfg, len(REC.ents), malformed, REC.ents)
        if op[0] in ("set", "ign", "prio", "split", "finished", "mark", "updent", "discard") and op[1] >= len(REC.ents):
            break
        if op[0] == "move" and (op[1] >= len(REC.ents) or op[2] >= len(REC.ents) or op[1] == op[2]):
            i += 1
            if ops is None:
                nops += 0
            continue
        if op[0] == "move" and REC.ents[op[2]][op[3]]._path and not REC.ents[op[2]][op[3]]._oid:
            # the "path first, then id" order of SyncEntry.__setitem__ (incoming side has a path and no id)
            REC.move_idless = getattr(REC, "move_idless", 0) + 1
        res, tape = real.step(op)
        out_ops.append(op)
        results.append(res)
        tapes.append(tape)
        if res[0] == 0:
            v = state_oracle.index_violations(real.state)
            if v:
                viol.append((len(out_ops) - 1, v))
        i += 1
        if res[0] == 1:
            break
    return out_ops, results, tapes, viol


def model_request(cfg, ops, tapes):
    return [wire_cfg(cfg), [[wire_op(o), t] for o, t in zip(ops, tapes)]]


# ------------------------------------------------------------------ one case end to end
CLAIMED = ("i-oid", "i-path", "ii-oid", "ii-path", "iii", "iv-missing")     # (i)-(iii): C11_idx_reachable inside the guards; reported everywhere
REFUTED = ("iv-extra", "iv-forgotten")                                       # changeset_exact_refuted


def eval_case(model, cfg, ops=None, rng=None, nops=0, malformed=False):
    """-> dict(ops, mismatch, claimed violations, refuted-clause hits, error kind, stats)"""
    REC.move_idless = 0
    ops, results, tapes, viol = run_real(cfg, ops=ops, rng=rng, nops=nops, malformed=malformed)
    mo = model.call(model_request(cfg, ops, tapes)) if ops else []
    out = dict(ops=ops, mismatch=None, claimed=[], refuted=[], err=None, steps=len(ops), move_idless=REC.move_idless,
               tapes=tapes)
    if mo != results:
        k = 0
        while k < min(len(mo), len(results)) and mo[k] == results[k]:
            k += 1
        out["mismatch"] = dict(step=k, model=mo[k] if k < len(mo) else None, impl=results[k] if k < len(results) else None)
    if results and results[-1][0] == 1:
        out["err"] = results[-1][1]
    forgot = False
    for i, o in enumerate(ops):
        forgot = forgot or o[0] == "forget"
        for st, vs in viol:
            if st != i:
                continue
            for v in vs:
                tag = v.split(":")[0]
                if forgot and tag not in REFUTED:
                    # forget_oid (no caller in the engine, not among the property's operations) detaches an
                    # entry from the indexes while the entry keeps its id: everything after it is outside
                    # the claimed domain; counted, not reported
                    out["refuted"].append((i, "after-forget-" + v))
                elif tag in REFUTED:
                    out["refuted"].append((i, v))
                else:
                    out["claimed"].append((i, v))
    return out


def _worker(args):
    seed_label, n, quick = args
    import random
    rng = random.Random(seed_label)
    model = fw.ModelProc("state")
    gmodel = fw.ModelProc("stateguard")
    dist = fw.Distinct()
    st = dict(sequences=0, steps=0, malformed=0, op_kinds={}, errors={}, refuted_hits={}, lengths={}, flavours={},
              guard=dict(sequences=0, sequences_fully_guarded=0, steps=0, steps_guard_true=0, steps_guard_false={},
                         claimed_violation_inside_guard=0))
    bad = []
    samples = []
    for i in range(n):
        cfg = gen_cfg(rng)
        malformed = rng.random() < 0.15
        r = eval_case(model, cfg, rng=rng, nops=rng.randint(1, 15), malformed=malformed)
        st["sequences"] += 1
        st["steps"] += r["steps"]
        st["malformed"] += int(malformed)
        fl = "%d%d" % (cfg["oip"][0], cfg["oip"][1])
        st["flavours"][fl] = st["flavours"].get(fl, 0) + 1
        st["lengths"][r["steps"]] = st["lengths"].get(r["steps"], 0) + 1
        for o in r["ops"]:
            k = o[0] if o[0] != "set" else "set." + o[3]
            st["op_kinds"][k] = st["op_kinds"].get(k, 0) + 1
        st["op_kinds"]["move.idless_source_with_path"] = st["op_kinds"].get("move.idless_source_with_path", 0) + r["move_idless"]
        ek = {None: "none", 0: "RecursionError", 1: "AssertionError", 2: "KeyError"}[r["err"]]
        st["errors"][ek] = st["errors"].get(ek, 0) + 1
        for _, v in r["refuted"]:
            t = v.split(":")[0]
            st["refuted_hits"][t] = st["refuted_hits"].get(t, 0) + 1
        dist.add((cfg["oip"], cfg["cs"], r["ops"]), nontrivial=r["steps"] >= 2)
        case = dict(kind="sequence", cfg=cfg, ops=r["ops"])
        inside = guard_stats(gmodel, cfg, r, st["guard"])
        if r["mismatch"] or r["claimed"]:
            bad.append(dict(case=case, mismatch=r["mismatch"], claimed=r["claimed"], inside_guard=inside))
        if i < 2:
            samples.append(dict(cfg=cfg, ops=r["ops"], error=ek))
    model.close()
    gmodel.close()
    return dict(stats=st, bad=bad[:10], nbad=len(bad), total=dist.total, seen=list(dist.seen), samples=samples)


def guard_stats(gmodel, cfg, r, g):
    """hypothesis of C11_idx_reachable on this run: StateGuardModel.run prints, for every executed step, whether the
    operation satisfies its guard (op_guardb) in the model state it is applied to (C11_guard_trace_decides).
    -> True when a claimed clause fails at a step up to which every guard bit is 1 (the theorem says: impossible)"""
    if not r["ops"]:
        return False
    bits = gmodel.call(model_request(cfg, r["ops"], r["tapes"]))
    g["sequences"] += 1
    g["steps"] += len(bits)
    ok_prefix = 0
    while ok_prefix < len(bits) and bits[ok_prefix] == 1:
        ok_prefix += 1
    if ok_prefix == len(bits):
        g["sequences_fully_guarded"] += 1
    for j, b in enumerate(bits):
        if b == 1:
            g["steps_guard_true"] += 1
        else:
            o = r["ops"][j]
            k = o[0] if o[0] != "set" else "set." + o[3]
            g["steps_guard_false"][k] = g["steps_guard_false"].get(k, 0) + 1
    inside = any(i < ok_prefix and v.split(":")[0] in ("i-oid", "i-path", "ii-oid", "ii-path", "iii") for i, v in r["claimed"])
    if inside:
        g["claimed_violation_inside_guard"] += 1
    return inside


def _merge(a, b):
    for k, v in b.items():
        if isinstance(v, dict):
            _merge(a.setdefault(k, {}), v)
        else:
            a[k] = a.get(k, 0) + v


def shrink_case(model, case, pred):
    def fails(ops):
        try:
            return pred(eval_case(model, case["cfg"], ops=ops))
        except Exception:
            return False
    return dict(case, ops=fw.shrink_list(case["ops"], fails))


def run(ctx):
    instrument()
    g = ctx.coq_gate("PropC11")
    cov = ctx.coverage
    stats = {}
    total, seen, samples = 0, set(), []
    if g is not None:
        model = fw.ModelProc("state")
        # ---- corpus first (witnesses of the refuted statements = known findings; regressions)
        cdir = os.path.join(fw.VERIF, "corpus", "C11")
        ncorpus = 0
        for fn in sorted(os.listdir(cdir)) if os.path.isdir(cdir) else []:
            if not fn.endswith(".json"):
                continue
            doc = json.load(open(os.path.join(cdir, fn)))
            case = doc["case"]
            r = eval_case(model, case["cfg"], ops=case["ops"])
            ncorpus += 1
            exp = doc.get("expect")
            got = None
            if r["err"] == 0:
                got = "RecursionError"
            elif r["refuted"] and not doc.get("regression"):
                # (regression cases of fixed defects are only about their own failure: exception or a
                # claimed clause; intermediate states may still show the open changeset finding)
                got = r["refuted"][-1][1].split(":")[0]
            elif r["claimed"]:
                got = r["claimed"][-1][1].split(":")[0]
            if got is not None:
                # the real code violates the property on this exact case: known finding or VIOLATION
                ctx.violation("corpus case %s: %s on the real SyncState (%s)" % (fn, got, doc.get("what", "")), case)
            elif r["mismatch"]:
                ctx.violation("corpus case %s: model and implementation differ at step %d" % (fn, r["mismatch"]["step"]),
                              case, no_input=True, theorem="correspondence StateModel.run vs cloudsync.sync.state")
            if exp is not None and exp != got:
                ctx.notes.append("corpus case %s expected %s, observed %s" % (fn, exp, got))
                if exp and got is None:
                    # a listed defect no longer reproduces: say so (fixed upstream?) - not a violation
                    print("# corpus case %s no longer fails (expected %s)" % (fn, exp))
        stats["corpus_cases"] = ncorpus
        # ---- random streams, in parallel workers (each with its own model process and PRNG)
        import multiprocessing as mp
        nseq = 20000 if ctx.quick else 320000
        nw = 16
        per = nseq // nw
        jobs = [("%s/C11/stream/%d" % (ctx.seed, w), per, ctx.quick) for w in range(nw)]
        with mp.get_context("fork").Pool(nw) as pool:
            outs = pool.map(_worker, jobs)
        nbad = 0
        for o in outs:
            _merge(stats, o["stats"])
            total += o["total"]
            seen.update(o["seen"])
            samples += o["samples"][:1]
            nbad += o["nbad"]
            for b in o["bad"][:2]:
                case = b["case"]
                if b["claimed"]:
                    tags = sorted({v.split(":")[0] for _, v in b["claimed"]})
                    small = shrink_case(model, case, lambda r, tags=tags: any(v.split(":")[0] in tags for _, v in r["claimed"]))
                    ctx.violation("index clause(s) %s fail on the real SyncState%s: %s"
                                  % (tags, " INSIDE the guarded domain of C11_idx_reachable" if b.get("inside_guard") else "",
                                     b["claimed"][0][1]), small)
                if b["mismatch"]:
                    small = shrink_case(model, case, lambda r: r["mismatch"] is not None)
                    ctx.violation("model and implementation differ at step %d: model %s impl %s"
                                  % (b["mismatch"]["step"], str(b["mismatch"]["model"])[:150], str(b["mismatch"]["impl"])[:150]),
                                  small, no_input=not b["claimed"], theorem="correspondence StateModel.run vs cloudsync.sync.state")
        stats["cases_with_difference_or_violation"] = nbad
        model.close()
    cov["evaluations"] = total
    cov["distinct_nontrivial"] = len(seen)
    cov["rule"] = ("a case = provider flavours (oid_is_path x case sensitivity per side) + operation sequence of length 1-15 over "
                   "raw events (3 ids / 8 paths nested up to 3 deep, hashes, exists in {True, False, None}, prior_oid, file/dir/"
                   "notknown), direct assignments of path/oid/changed/hash/sync_hash/sync_path/exists/otype/force_sync/ignored/"
                   "priority, split, finished, discard, mark_changed, move-a-side, update_entry, forget_oid (malformed stream "
                   "only); non-trivial = at least 2 executed operations; distinct = distinct (flavour, sequence)")
    cov["exhaustive"] = False
    cov["samples"] = samples[:6]
    cov["streams"] = stats
    cov["traces_validated_against_impl"] = stats.get("steps", 0)
    tb = ["Coq 8.16.1 kernel (coqc); vm_compute used by the _refuted witnesses; no native_compute",
          "axioms per theorem as printed by Print Assumptions: " + (", ".join(cov.get("axioms_used", [])) or "none (closed under the global context)"),
          "extraction: ExtrOcamlBasic only; OCaml 4.13.1; coq/ocaml/driver.ml (coq/bin/state = StateModel.run; coq/bin/stateguard = "
          "StateGuardModel.run, the guard bits of C11_idx_reachable's hypothesis, C11_guard_trace_decides)",
          "PathModel (C13) for normalize_path_separators / is_subpath / join / dirname of the providers",
          "correspondence harness harness/checks/c11.py: generators, canonicalisation, virtual clock patched into "
          "cloudsync.sync.state.time, SyncEntry creation serials and serial-derived __hash__, recording (not altering) of the "
          "iteration order of set([old_oid, new_oid]) and get_all(); provider.info_path replaced by a table (oracle); "
          "envfix.debug_sig replacement",
          "harness/state_oracle.index_violations: Python statement of Idx evaluated on the real state",
          "modelled, not verified: CPython dict/set semantics; not modelled: Exists.CORRUPT/_saved_exists, size, mtime, "
          "temp_file, _last_gotten, storage, prioritize callbacks other than the default, state after an exception"]
    return ctx.finish(tb)
