"""C11 — sync-state index integrity.  Theorems: coq/theories/PropC11.v about StateModel.v.
Tie: random sequences of raw provider events (both id styles), direct field assignments,
split / finished / discard / forget_oid / move-a-side on a real SyncState (no storage); after
EVERY operation the real entries, _oids, _paths, _changeset_storage and _dirtyset are abstracted
and compared with the extracted model's state; exceptions are compared by class.  The property
itself (harness/state_oracle.index_violations) is evaluated on the real state after every op."""
import builtins
import json
import os
import sys
import types

from .. import envfix, framework as fw
from .. import state_oracle

OT = ["dir", "file", "trashed"]                       # OType values in model order
EX = ["unknown", "exists", "trashed", "missing", "likely-trashed"]
IGN = ["none", "discarded", "conflict", "temp rename", "irrelevant"]
ERR = {"RecursionError": 0, "AssertionError": 1, "KeyError": 2}
FIELDS = ["path", "oid", "changed", "hash", "sync_hash", "sync_path", "exists", "otype", "force_sync"]

PATHS = ["/a", "/b", "/a/x", "/a/b", "/b/x", "/a/b/x", "/a/x/y", "/b/a"]
ODD_PATHS = ["\\a\\x", "/a/", "/A", "/a//b", ""]
OIDS = ["o1", "o2", "o3"]

_inst = {}


class Clock:
    def __init__(self):
        self.t = 0

    def time(self):
        self.t += 1
        return self.t


class Rec:
    """what the real run records for the model: creation serials, set orders"""
    def __init__(self):
        self.ents = []
        self.tape = []
        self.mult = 1


REC = Rec()


def instrument():
    """in-process only: virtual clock, entry serials + deterministic hashes, recording of the two
    hash-ordered iterations.  None of this changes what the code computes."""
    if _inst:
        return _inst
    envfix.install()
    import cloudsync.sync.state as st
    clock = Clock()
    st.time = types.SimpleNamespace(time=clock.time)
    orig_init = st.SyncEntry.__init__

    def init(self, *a, **k):
        object.__setattr__(self, "_serial", len(REC.ents))
        object.__setattr__(self, "_hv", (len(REC.ents) * REC.mult) & 0xFFFF)
        REC.ents.append(self)
        orig_init(self, *a, **k)
    st.SyncEntry.__init__ = init
    st.SyncEntry.__hash__ = lambda self: self._hv

    def rec_set(*a):
        s = builtins.set(*a)
        if a and isinstance(a[0], list) and len(a[0]) == 2 and len(s) == 2:
            first = next(iter(s))
            new = a[0][1]
            REC.tape.append([0, 1 if (first is new or (first is not None and first == new)) else 0])
        return s
    st.set = rec_set
    orig_get_all = st.SyncState.get_all

    def get_all(self, discarded=False):
        r = orig_get_all(self, discarded)
        REC.tape.append([1, [e._serial for e in r]])
        return r
    st.SyncState.get_all = get_all
    _inst.update(st=st, clock=clock)
    return _inst


# ------------------------------------------------------------------ encoding helpers
def S(s):
    return [ord(c) for c in s]


def O(x, f=lambda v: v):
    return [] if x is None else [f(x)]


def hbytes(h):
    return None if h is None else b"h%d" % h


def hint(b):
    return None if b is None else int(b[1:])


def enc_chg(v):
    if v is None:
        return [0]
    if v is False:
        return [1]
    return [2, int(round(v * 1000))]


def chg_value(c):
    """case encoding of a changed value -> python"""
    if c == "none":
        return None
    if c == "false":
        return False
    return c


def wire_chg(c):
    if c == "none":
        return [0]
    if c == "false":
        return [1]
    return [2, c * 1000]


def wire_op(op):
    k = op[0]
    if k == "update":
        _, sd, ot, oid, path, h, ex, prior = op
        return [0, sd, O(ot), O(oid, S), O(path, S), O(h), O(ex, int), O(prior, S)]
    if k == "set":
        _, e, sd, f, v = op
        fi = FIELDS.index(f)
        if f in ("path", "oid", "sync_path"):
            w = O(v, S)
        elif f == "changed":
            w = wire_chg(v)
        elif f in ("hash", "sync_hash"):
            w = O(v)
        else:
            w = int(v)
        return [1, e, sd, fi, w]
    if k == "ign":
        return [2, op[1], op[2]]
    if k == "prio":
        return [3, op[1], op[2]]
    if k == "split":
        return [4, op[1]]
    if k == "finished":
        return [5, op[1]]
    if k == "forget":
        return [6, op[1], S(op[2])]
    if k == "mark":
        return [7, op[1], op[2]]
    if k == "move":
        return [8, op[1], op[2], op[3]]
    if k == "updent":
        _, e, sd, oid, path, h, ex, ch, ot = op
        return [9, e, sd, O(oid, S), O(path, S), O(h), O(ex, int), int(ch), O(ot)]
    if k == "discard":
        return [10, op[1]]
    raise ValueError(op)


def wire_cfg(cfg):
    def inf(i):
        return [int(i["self"]), [[S(p), O(o, S)] for p, o in i["table"]]]
    return [int(cfg["oip"][0]), int(cfg["oip"][1]), int(cfg["cs"][0]), int(cfg["cs"][1]), 1000, 1000,
            inf(cfg["info"][0]), inf(cfg["info"][1])]


# ------------------------------------------------------------------ the real side
class Real:
    def __init__(self, cfg):
        I = instrument()
        st = I["st"]
        from cloudsync.providers.mock import MockProvider
        from cloudsync.types import OInfo, OType, IgnoreReason
        self.st, self.OType, self.Ign = st, OType, IgnoreReason
        REC.ents = []
        REC.tape = []
        REC.mult = cfg.get("mult", 1)
        I["clock"].t = 0
        provs = []
        for sd in (0, 1):
            p = MockProvider(bool(cfg["oip"][sd]), bool(cfg["cs"][sd]))
            p.default_sleep = 10          # _punt_secs = 1.0 exactly
            table = {a: b for a, b in cfg["info"][sd]["table"]}
            dflt = cfg["info"][sd]["self"]

            def info_path(path, use_cache=True, table=table, dflt=dflt):
                if path in table:
                    o = table[path]
                else:
                    o = path if dflt else None
                return None if o is None else OInfo(otype=OType.FILE, oid=o, hash=None, path=path)
            p.info_path = info_path
            provs.append(p)
        self.state = st.SyncState((provs[0], provs[1]))
        self.exv = [st.Exists(x) for x in EX]

    def ent(self, i):
        return REC.ents[i]

    def apply(self, op):
        s = self.state
        k = op[0]
        if k == "update":
            _, sd, ot, oid, path, h, ex, prior = op
            s.update(sd, None if ot is None else self.OType(OT[ot]), oid, path=path, hash=hbytes(h),
                     exists=ex, prior_oid=prior)
        elif k == "set":
            _, e, sd, f, v = op
            side = self.ent(e)[sd]
            if f == "changed":
                v = chg_value(v)
            elif f in ("hash", "sync_hash"):
                v = hbytes(v)
            elif f == "exists":
                v = self.exv[v]
            elif f == "otype":
                v = self.OType(OT[v])
            elif f == "force_sync":
                v = bool(v)
            setattr(side, f, v)
        elif k == "ign":
            self.ent(op[1]).ignored = self.Ign(IGN[op[2]])
        elif k == "prio":
            self.ent(op[1]).priority = op[2]
        elif k == "split":
            s.split(self.ent(op[1]))
        elif k == "finished":
            s.finished(self.ent(op[1]))
        elif k == "forget":
            s.forget_oid(op[1], op[2])
        elif k == "mark":
            s.mark_changed(op[2], self.ent(op[1]))
        elif k == "move":
            self.ent(op[1])[op[3]] = self.ent(op[2])[op[3]]
        elif k == "updent":
            _, e, sd, oid, path, h, ex, ch, ot = op
            s.update_entry(self.ent(e), sd, oid, path=path, file_hash=hbytes(h), exists=ex,
                           changed=bool(ch),
                           otype=None if ot is None else self.OType(OT[ot]))
        elif k == "discard":
            self.ent(op[1]).ignore(self.Ign.DISCARDED)
        else:
            raise ValueError(op)

    def dump(self):
        s = self.state
        ents = []
        for e in REC.ents:
            sides = []
            for sd in (0, 1):
                x = e[sd]
                sides.append([OT.index(x._otype.value), O(x._oid, S), O(x._path, S), O(hint(x._hash)),
                              O(x._sync_path, S), O(hint(x._sync_hash)), EX.index(x._exists.value),
                              enc_chg(x._changed), int(bool(x._force_sync))])
            ents.append([sides[0], sides[1], IGN.index(e._ignored.value), e._priority])
        oids = [[[S(o), e._serial] for o, e in s._oids[sd].items()] for sd in (0, 1)]
        paths = [[[S(p), [[S(o), e._serial] for o, e in d.items()]] for p, d in s._paths[sd].items()] for sd in (0, 1)]
        return [0, ents, oids[0], oids[1], paths[0], paths[1], sorted(e._serial for e in s._changeset_storage),
                sorted(e._serial for e in s._dirtyset), int(round(s._last_changed_time * 1000))]

    def step(self, op):
        """-> (result, tape, violations)"""
        REC.tape = []
        base = len(_stack_depth())
        old = sys.getrecursionlimit()
        sys.setrecursionlimit(base + 700)
        try:
            try:
                self.apply(op)
                res = None
            except (RecursionError, AssertionError, KeyError) as e:
                res = [1, ERR[type(e).__name__]]
        finally:
            sys.setrecursionlimit(old)
        tape = REC.tape
        REC.tape = []
        if res is None:
            res = self.dump()
        return res, tape


def _stack_depth():
    f = sys._getframe()
    out = []
    while f is not None:
        out.append(1)
        f = f.f_back
    return out


# ------------------------------------------------------------------ generator
def gen_cfg(rng):
    oip = [rng.random() < 0.5, rng.random() < 0.5]
    cs = [rng.random() < 0.85, rng.random() < 0.85]
    info = []
    for sd in (0, 1):
        table = []
        if rng.random() < 0.3:
            for p in rng.sample(PATHS, 2):
                table.append([p, rng.choice([None, rng.choice(PATHS), p])])
        info.append(dict(self=rng.random() < 0.7, table=table))
    return dict(oip=oip, cs=cs, info=info, mult=rng.choice([1, 1, 3, 7, 11, 8]))


def gen_oid(rng, cfg, sd, malformed):
    if cfg["oip"][sd]:
        return rng.choice(PATHS[:6])
    if malformed and rng.random() < 0.1:
        return ""
    return rng.choice(OIDS)


def gen_path(rng, malformed):
    if malformed and rng.random() < 0.3:
        return rng.choice(ODD_PATHS)
    return rng.choice(PATHS)


def gen_op(rng, cfg, n_ents, malformed, ents=()):
    """one operation; mostly events; direct writes only when an entry exists; unless the stream is
    the malformed one, operations whose precondition (an assert in the code) fails are re-drawn"""
    for _ in range(20):
        op = gen_op1(rng, cfg, n_ents, malformed)
        if malformed or applicable(op, ents):
            return op
    return op


def applicable(op, ents):
    k = op[0]
    if k == "set" and op[3] == "path":
        return not op[4] or bool(ents[op[1]][op[2]]._oid)
    if k == "split":
        return bool(ents[op[1]][0]._oid)
    if k == "move":
        return op[1] != op[2] and op[1] < len(ents) and op[2] < len(ents) and (not ents[op[2]][op[3]]._path or bool(ents[op[2]][op[3]]._oid))
    if k == "updent":
        e = ents[op[1]][op[2]]
        return (op[3] or e._oid) and not (op[8] == 2 and op[6])
    if k == "forget":
        return False
    if k == "update":
        return op[3] is not None and op[2] is not None and not (op[2] == 2 and op[6])
    return True


def gen_op1(rng, cfg, n_ents, malformed):
    r = rng.random()
    sd = rng.randint(0, 1)
    if n_ents == 0 or r < 0.45:
        oid = gen_oid(rng, cfg, sd, malformed)
        if cfg["oip"][sd]:
            path = oid if rng.random() < 0.85 else gen_path(rng, malformed)
            prior = rng.choice(PATHS[:6]) if rng.random() < 0.4 else None
        else:
            path = gen_path(rng, malformed) if rng.random() < 0.8 else None
            prior = rng.choice(OIDS) if (malformed and rng.random() < 0.2) else None
        if malformed and rng.random() < 0.1:
            oid = None
        ex = rng.choice([True, True, True, False, None])
        ot = rng.choice([0, 0, 1, 1, 1, 2]) if not ex else rng.choice([0, 1, 1])
        if malformed and rng.random() < 0.05:
            ot = rng.choice([None, 2])
        h = rng.choice([None, 1, 2, 3])
        return ["update", sd, ot, oid, path, h, ex, prior]
    e = rng.randrange(n_ents)
    if r < 0.53:
        return ["set", e, sd, "path", rng.choice([None, gen_path(rng, malformed), gen_path(rng, malformed)])]
    if r < 0.60:
        return ["set", e, sd, "oid", rng.choice([None, gen_oid(rng, cfg, sd, malformed), gen_oid(rng, cfg, sd, malformed)])]
    if r < 0.67:
        return ["set", e, sd, "changed", rng.choice(["none", 0, 1, 5, 7, "false" if malformed else 0])]
    if r < 0.71:
        f = rng.choice(["hash", "sync_hash", "sync_path", "exists", "otype", "force_sync"])
        if f in ("hash", "sync_hash"):
            v = rng.choice([None, 1, 2])
        elif f == "sync_path":
            v = rng.choice([None] + PATHS)
        elif f == "exists":
            v = rng.randrange(5)
        elif f == "otype":
            v = rng.randrange(2)
        else:
            v = rng.randrange(2)
        return ["set", e, sd, f, v]
    if r < 0.75:
        return ["ign", e, rng.choice([0, 0, 1, 2, 3, 4])]
    if r < 0.80:
        return ["discard", e]
    if r < 0.84:
        return ["prio", e, rng.choice([0, 1, 2])]
    if r < 0.89:
        return ["split", e]
    if r < 0.94:
        return ["finished", e]
    if r < 0.96:
        return ["mark", e, sd]
    if r < 0.975:
        return ["forget", sd, gen_oid(rng, cfg, sd, malformed)]
    if r < 0.99:
        return ["move", e, rng.randrange(n_ents), sd]
    return ["updent", e, sd, rng.choice([None, gen_oid(rng, cfg, sd, malformed)]), rng.choice([None, gen_path(rng, malformed)]),
            rng.choice([None, 1]), rng.choice([True, False, None]), rng.random() < 0.5, rng.choice([None, 0, 1])]


def run_real(cfg, ops=None, rng=None, nops=0, malformed=False):
    """executes ops (or generates them on the fly) on a real SyncState.
    -> (ops, results, tapes, property violations [(step, [text...])])"""
    real = Real(cfg)
    out_ops, results, tapes, viol = [], [], [], []
    i = 0
    while True:
        if ops is not None:
            if i >= len(ops):
                break
            op = ops[i]
        else:
            if i >= nops:
                break
            op = gen_op(rng, cfg, len(REC.ents), malformed, REC.ents)
        if op[0] in ("set", "ign", "prio", "split", "finished", "mark", "updent", "discard") and op[1] >= len(REC.ents):
            break
        if op[0] == "move" and (op[1] >= len(REC.ents) or op[2] >= len(REC.ents) or op[1] == op[2]):
            i += 1
            if ops is None:
                nops += 0
            continue
        res, tape = real.step(op)
        out_ops.append(op)
        results.append(res)
        tapes.append(tape)
        if res[0] == 0:
            v = state_oracle.index_violations(real.state)
            if v:
                viol.append((len(out_ops) - 1, v))
        i += 1
        if res[0] == 1:
            break
    return out_ops, results, tapes, viol


def model_request(cfg, ops, tapes):
    return [wire_cfg(cfg), [[wire_op(o), t] for o, t in zip(ops, tapes)]]
