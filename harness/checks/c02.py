"""C02 — no silent data loss; conflicts keep both versions."""
from ._engine import engine_check


def run(ctx):
    return engine_check(ctx, "PropC02", [("conflicts", 3500, 100000), ("edit_vs_delete", 1500, 40000), ("conflicts_faulty", 1500, 40000, "run_conflicts_faulty"),
                         ("type_change_vs_edit", 1000, 20000, "run_only_guards"),
                         ("disjoint", 1000, 20000)],
                        "run rejected by the monitor (C02: a version written by a user and not destroyed by a user is in no live file)",
                        stream_b="C02")
