"""C10 — transient provider faults: the service loops survive, conditions are reported with the matching kind, a
file that keeps failing is set aside without blocking the others, and after the faults stop the sides converge
with nothing lost.

Proof side (coq/theories/PropC10.v over FaultModel.v, LoopModel.v, SchedModel.v, Monitor.v):
  (a) exception class order + notify_from_exception as an isinstance chain; (b) handler tables of
  SyncManager._sync_one_entry/_validate_provider_roots/EventManager.do as step machines inside LoopModel's loop;
  (c) the scheduler with permanently failing entries (bounded service of the good ones); (d) Monitor acceptance
  => converged / nothing lost at every quiet report, a failed provider call being a stutter.
Tie on every run:
  (i)   harness/c10_translator.py regenerates GenNotify.v (class order, chain, handler tables) from the CURRENT
        source; FaultGenEq.v proves it equal to the model; SyncManager.do and _reconnect_if_needed are compared by ast;
  (ii)  class order + chain: exhaustive over the 15 classes, foreign subclasses of depth 1..3 and non-cloud
        exceptions: real isinstance / real notify_from_exception vs the extracted model;
  (iii) scripted steps on the REAL SyncManager / EventManager (inner calls replaced by a script ranging over all
        classes), each executed through the REAL Runnable.run loop body, vs smgr_step / emgr_step + after_do;
  (iv)  real SyncState.change/punt/finished with failing entries vs sched_run, and the bound of
        C10_good_entry_served evaluated on the real picks;
  (v)   engine runs with injected faults (families_c10): each single call index x kind exhaustively per base run,
        random subsets at 2-20 %, disconnections, expired tokens, out-of-space, permanent per-path failures lifted
        later, faults in listdir/info_oid during a start-up/fallback walk with the cursor at 'latest'; oracles: nothing leaves Runnable.run, a notification of the matching kind in the step of every
        reportable injected fault, healthy files in sync while the failing one is set aside, Monitor acceptance
        (C01 convergence, C02 covered versions, spec outcome) after the faults stop, and the stepwise machine tie.
"""
import glob
import json
import multiprocessing as mp
import os
import random
import time
from fractions import Fraction as Fr

from .. import build, c10_translator, envfix, framework as fw

TRUSTED = [
    "Coq 8.16.1 kernel (coqc); vm_compute only for finite class-table case analyses, _refuted witnesses and Examples; no native_compute",
    "extraction: ExtrOcamlBasic only; OCaml 4.13.1; coq/ocaml/driver.ml",
    "translator harness/c10_translator.py (typed whitelist over the ast of exceptions.py, notify_from_exception, _sync_one_entry, "
    "_validate_provider_roots, EventManager.do; ast equality for SyncManager.do and _reconnect_if_needed); Python's try/except and "
    "isinstance semantics (first matching clause, MRO membership) are built into FaultModel.dispatch / isinst",
    "single inheritance below the known classes (a foreign class deriving from two cloudsync exception classes is not modelled)",
    "the observation harness (harness/engine.py, enginecheck.py, families_c10.py): in-process wrappers around provider, storage and "
    "manager instances, class-level observer on SyncEntry.punt, virtual clock, serial ids, in-process replacement of debug_sig",
    "MockProvider as the provider both users and engine act on, incl. its connection state (disconnect/reconnect/connected, _api)",
    "modelled, not verified: the engine's sync algorithm itself (theorems (d) are about the acceptor; every explored run must be accepted); "
    "BaseException-only errors inside do() (Runnable.run handles them: C18), OS-level timing of the backoff sleeps",
]

WHAT = ("run with provider faults rejected (C10: a loop died, a reportable fault was not notified with the matching kind, healthy files "
        "were blocked by a failing one, or after the faults stopped the sides did not converge / a covered version was lost / the "
        "engine never went quiet)")

_W = {}


def _worker_init():
    from .. import engine as E
    from .. import families_c10 as FC
    E.install()
    FC._FM[0] = None                     # never share the parent's model process across a fork
    _W["monitor"] = fw.ModelProc("monitor")


def _summ(stats, case, res):
    from .. import families_c10 as FC
    inj = res.extra["c10"]
    stats["runs"] += 1
    stats["steps"] += len(inj.steps)
    stats["injected"] += len(inj.injected)
    stats["fault_points"] += sum(inj.calls.values())
    stats["engine_calls"] += res.engine_calls
    stats["user_ops"] += sum(1 for a in case["schedule"] if a[0] == "user")
    for k, v in inj.excluded_calls.items():
        stats["excluded_points"][k] = stats["excluded_points"].get(k, 0) + v
    for f in inj.injected:
        key = f["kind"] + "@" + f["call"]
        stats["injected_by"][key] = stats["injected_by"].get(key, 0) + 1
        if f.get("in_walk"):
            stats["injected_during_walk"] += 1
    stats["walks_forced"] += inj.walks_forced
    for n in inj.notes:
        stats["notifications"][n[1]] = stats["notifications"].get(n[1], 0) + 1
    for st in inj.steps:
        key = st["label"][:4] + ":" + str(st["do"])
        stats["do_outcomes"][key] = stats["do_outcomes"].get(key, 0) + 1
        if st["escaped"]:
            key = st["label"][:4] + ":" + st["escaped"][0] + ":" + (st["reached"][0] if st["reached"] else "?")
            stats["escaped_do"][key] = stats["escaped_do"].get(key, 0) + 1
        if st["label"] == "sync" and st.get("punts"):
            stats["punts"] += 1
        if st["reconnect"] is not None:
            stats["reconnects"] += 1
        if st["reauth"] is not None:
            stats["reauths"] += 1
    for h in inj.healthy_checks:
        stats["healthy_checks"] += 1
        stats["healthy_rounds_max"] = max(stats["healthy_rounds_max"], h.get("rounds", 0))
        if h.get("set_aside"):
            stats["set_aside_seen"] += 1
    fk = json.dumps(case["flavour"][0])
    stats["id_styles"][fk] = stats["id_styles"].get(fk, 0) + 1
    nontrivial = len(inj.injected) >= 1 and res.engine_calls >= 1
    if nontrivial:
        from .. import enginecheck as EC
        stats["distinct"].add(fw.case_id(EC.jsonable_case(dict(f=case["flavour"], s=case["schedule"], b=case.get("base"))))[:16])


def _new_stats():
    return dict(runs=0, steps=0, injected=0, fault_points=0, engine_calls=0, user_ops=0, excluded_points={}, injected_by={},
                notifications={}, do_outcomes={}, escaped_do={}, punts=0, reconnects=0, reauths=0, healthy_checks=0,
                healthy_rounds_max=0, set_aside_seen=0, id_styles={}, distinct=set(), bases=0, samples=[],
                injected_during_walk=0, walks_forced=0)


def _run_chunk(args):
    fam, seed, start, count = args
    if "monitor" not in _W:
        _worker_init()
    from .. import families_c10 as FC
    from .. import enginecheck as EC
    mon = _W["monitor"]
    stats = _new_stats()
    out = []

    def one(case, ident):
        case["_id"] = ident
        res = FC.run_full(case, mon)
        _summ(stats, case, res)
        if len(stats["samples"]) < 1 and res.extra["c10"].injected:
            inj = res.extra["c10"]
            stats["samples"].append(dict(family=case.get("c10"), flavour=case["flavour"],
                                         schedule=[a if a[0] != "user" else ["user", a[1], [x if not isinstance(x, bytes) else "<%d bytes>" % len(x) for x in a[2]]]
                                                   for a in case["schedule"]][:14],
                                         injected=inj.injected[:5], notifications=inj.notes[:5],
                                         verdict="accepted" if res.verdict == [] else EC.describe(res)))
        if res.verdict != []:
            out.append((EC.jsonable_case(case), res.verdict, EC.describe(res), [repr(e)[:200] for e in res.events[-10:]]))

    for i in range(start, start + count):
        rng = random.Random("%s/C10/%s/%d" % (seed, fam, i))
        if fam == "single":
            base = FC.small_base(rng)
            c0 = dict(base)
            c0["schedule"] = [["faults", dict(rules=[])]] + list(base["schedule"])
            r0 = FC.run_c10(FC.finish_case(c0), mon)
            if r0.verdict != []:
                out.append((EC.jsonable_case(c0), r0.verdict, "base run without faults: " + EC.describe(r0), []))
                continue
            n = sum(r0.extra["c10"].calls.values())
            stats["bases"] += 1
            for c in FC.single_fault_cases(base, n):
                one(c, [fam, i, c["c10"]["index"], c["c10"]["kind"]])
        else:
            one(getattr(FC, fam)(rng), [fam, i])
    stats["distinct"] = list(stats["distinct"])
    return stats, out


def _merge(tot, st):
    for k, v in st.items():
        if isinstance(v, int) and k != "healthy_rounds_max":
            tot[k] += v
        elif k == "healthy_rounds_max":
            tot[k] = max(tot[k], v)
        elif isinstance(v, dict):
            for a, b in v.items():
                tot[k][a] = tot[k].get(a, 0) + b
        elif k == "distinct":
            tot[k].update(v)
        elif k == "samples" and len(tot[k]) < 3:
            tot[k] += v


def explore(ctx, fam, n, procs=16):
    chunk = max(1, min(100, n // (procs * 3) or 1)) if fam != "single" else 1
    jobs = [(fam, ctx.seed, s, min(chunk, n - s)) for s in range(0, n, chunk)]
    tot = _new_stats()
    fails = []
    if procs <= 1 or len(jobs) == 1:
        results = [_run_chunk(j) for j in jobs]
    else:
        with mp.get_context("fork").Pool(procs, initializer=_worker_init) as pool:
            results = pool.map(_run_chunk, jobs, chunksize=1)
    for st, out in results:
        _merge(tot, st)
        fails += out
    return tot, fails


# ---------------------------------------------------------------------- pure streams
def stream_classes(ctx, model, stats):
    """(ii) class order and chain, exhaustively"""
    from .. import families_c10 as FC
    import cloudsync.exceptions as ex
    from cloudsync.notification import NotificationManager, SourceEnum
    zoo = FC.exception_zoo()
    known = {n: (getattr(ex, n) if n != "Exception" else Exception) for n in FC.KNOWN_CODE}
    nm = NotificationManager(lambda n: None)
    got = []
    nm.notify = lambda n: got.append(n.ntype.name)
    want_kind = [("CloudDisconnectedError", "DISCONNECTED_ERROR"), ("CloudOutOfSpaceError", "OUT_OF_SPACE_ERROR"),
                 ("CloudFileNameError", "FILE_NAME_ERROR"), ("CloudNamespaceError", "NAMESPACE_ERROR"),
                 ("CloudRootMissingError", "ROOT_MISSING_ERROR")]
    reqs, impl = [], []
    for c in zoo:
        path = FC._class_path(c)
        cs = FC.cls_sx(path)
        del got[:]
        nm.notify_from_exception(SourceEnum.SYNC, c("x"))
        kinds = list(got)
        reqs.append([0, cs])
        impl.append(("notify", c.__name__, path, [FC.NKIND_CODE[k] for k in kinds]))
        stats["notify_checked"] += 1
        # the property itself on the real code (mirror of C10_notify_kind_matches / C10_out_of_space_not_shadowed)
        e = c("x")
        for kn, nk in want_kind:
            if isinstance(e, known[kn]) and kinds != [nk]:
                ctx.violation("an exception of class %s (a %s) is reported as %r instead of %s" % (path, kn, kinds, nk),
                              dict(kind="notify", cls=path, want=nk, got=kinds))
        if isinstance(e, ex.CloudTemporaryError) and not isinstance(e, ex.CloudOutOfSpaceError) and kinds != ["TEMPORARY_ERROR"]:
            ctx.violation("a temporary error of class %s is reported as %r" % (path, kinds), dict(kind="notify", cls=path, want="TEMPORARY_ERROR", got=kinds))
        if len(kinds) > 1:
            ctx.violation("more than one notification for one exception of class %s: %r" % (path, kinds), dict(kind="notify", cls=path, got=kinds))
        for kn, kc in known.items():
            reqs.append([1, cs, FC.KNOWN_CODE[kn]])
            impl.append(("isinstance", c.__name__, (path, kn), 1 if isinstance(e, kc) else 0))
            stats["isinstance_checked"] += 1
    outs = model.batch(reqs)
    bad = []
    for (what, name, arg, real), m in zip(impl, outs):
        if m != real:
            bad.append(dict(what=what, cls=name, arg=arg, model=m, real=real))
    return bad


def stream_scripted(ctx, model, stats, n_seq, seq_len):
    from .. import families_c10 as FC
    zoo = FC.exception_zoo()
    rng = ctx.sub_rng("scripted")
    bad = []
    for i in range(n_seq):
        S = FC.scripted_sequence(rng, zoo, seq_len)
        try:
            d = FC.machine_check(S.inj, model)
            stats["scripted_sequences"] += 1
            stats["scripted_steps"] += len(S.inj.steps)
            for st in S.inj.steps:
                if st["label"] == "sync":
                    k = "sync:%d" % FC.sync_sres(st)[0]
                else:
                    k = "intake:%s" % (st["do"],)
                stats["scripted_kinds"][k] = stats["scripted_kinds"].get(k, 0) + 1
                cp = (st["reached"] or [None, None])[1]
                if cp:
                    stats["scripted_classes"].add(tuple(FC.cls_sx(cp)))
            if S.inj.died:
                ctx.violation("the real service loop let an exception out of run(): %r" % (S.inj.died[:2],),
                              dict(kind="scripted-loop-died", died=S.inj.died[:3]))
            # the property on the real code: every scripted step kept the loop alive and reported per the chain
            for st in S.inj.steps:
                if st.get("loop") != "alive":
                    ctx.violation("scripted step ended the loop: %r" % (st.get("loop"),), dict(kind="scripted-loop", step=repr(st)[:400]))
            if d:
                bad.append(dict(sequence=i, diffs=[repr(x)[:500] for x in d[:3]]))
        finally:
            S.close()
    return bad


def stream_sched(ctx, model, stats, n):
    from .. import families_c10 as FC
    rng = ctx.sub_rng("sched")
    bad = []
    for i in range(n):
        sub = random.Random(rng.random())
        req, picks, left, info = FC.sched_real(sub)
        out = model.call(req)
        stats["sched_tables"] += 1
        stats["sched_steps"] += info["steps"]
        stats["sched_failing_entries"] += info["failing"]
        if out == fw.MALFORMED:
            bad.append(dict(table=i, what="model rejected the request"))
            continue
        mpicks, mleft, budgets = out
        mleft = sorted([a, FC.sx_q(b)] for a, b in mleft)
        if mpicks != picks or mleft != left:
            bad.append(dict(table=i, real=picks[:12], model=mpicks[:12], real_left=[[a, str(b)] for a, b in left], model_left=[[a, str(b)] for a, b in mleft]))
        # C10_good_entry_served on the REAL picks: a good entry (eligible at every step: all stamps are in the past)
        # is picked within budget + 1 calls of change()
        failing = set(req[2])
        for h in range(len(req[3])):
            if h in failing:
                continue
            pos = next((k for k, p in enumerate(picks) if p == [1, h]), None)
            if len(picks) > budgets[h]:
                stats["bound_checked"] += 1
                if pos is None or pos > budgets[h]:
                    ctx.violation("a good pending entry was not picked within budget + 1 = %d calls of change() on the real scheduler "
                                  "(picked at %r)" % (budgets[h] + 1, pos), dict(kind="sched-bound", request=req, picks=picks, entry=h))
                else:
                    stats["bound_slack_min"] = min(stats["bound_slack_min"], budgets[h] - pos)
    return bad


def stream_real_loop(ctx, stats):
    """every class through the REAL Runnable.run loop body once: do() raises it, the loop must call do() again"""
    from .. import families_c10 as FC
    from cloudsync.runnable import _BackoffError
    classes = FC.exception_zoo() + [_BackoffError, KeyboardInterrupt, SystemExit, GeneratorExit, BaseException]
    for c in classes:
        try:
            ok, calls, trace = FC.real_loop_survives(c)
        except BaseException as e:  # noqa
            ok, calls, trace = False, -1, [repr(e)]
        stats["real_loop_classes"] += 1
        if not ok:
            ctx.violation("the real Runnable.run loop did not survive a do() raising %s (calls=%r trace=%r)" % (c.__name__, calls, trace),
                          dict(kind="real-loop", cls=c.__name__, calls=calls, trace=repr(trace)))


# ---------------------------------------------------------------------- corpus
def run_corpus(ctx, stats):
    from .. import engine as E
    from .. import enginecheck as EC
    from .. import families_c10 as FC
    E.install()
    mon = fw.ModelProc("monitor")
    files = sorted(glob.glob(os.path.join(build.VERIF, "corpus", "C10", "*.json")))
    extra = [ctx.replay] if ctx.replay else []
    for path in files + extra:
        with open(path) as f:
            doc = json.load(f)
        case = doc.get("case")
        if isinstance(case, dict) and "case" in case and "schedule" not in case:
            case = case["case"]           # a replay file written by ctx.violation
        if not isinstance(case, dict) or "schedule" not in case:
            continue
        name = doc.get("name") or os.path.basename(path)
        case = EC.unjson_case(case)
        res = FC.run_full(dict(case), mon)
        stats["corpus"] += 1
        inj = res.extra["c10"]
        if doc.get("expect") == "finding":
            # determinism of the witness: same verdict twice
            res2 = FC.run_full(dict(case), mon)
            if res2.verdict != res.verdict:
                ctx.violation("corpus witness %s is not deterministic: %r then %r" % (name, res.verdict, res2.verdict),
                              dict(kind="harness-determinism", corpus=name), no_input=True, theorem="determinism of the harness")
        if res.verdict != [] and res.verdict[1] == 113:
            stats["corpus_rejected"] += 1
            ctx.violation("the step-outcome machine and the real managers differ on corpus case %s: %s" % (name, EC.describe(res)[:300]),
                          dict(kind="correspondence", corpus=name, detail=res.extra.get("oracle_detail")), no_input=True,
                          theorem="correspondence FaultModel.smgr_step/emgr_step vs SyncManager.do/EventManager.do on recorded steps")
        elif res.verdict != []:
            stats["corpus_rejected"] += 1
            ctx.violation("%s: corpus case %s: %s" % (WHAT, name, EC.describe(res)),
                          dict(kind="engine-run", corpus=name, guard=EC.GUARDS.get(res.verdict[1], res.verdict[1]),
                               case=EC.jsonable_case({k: v for k, v in case.items() if k != "_id"})))
        elif doc.get("expect") == "finding":
            stats["corpus_findings_now_passing"].append(name)
        _summ(stats["corpus_stats"], case, res)
    mon.close()
    if FC._FM[0] is not None:
        FC._FM[0].close()
        FC._FM[0] = None


# ---------------------------------------------------------------------- entry point
def run(ctx):
    envfix.install()
    # (i) second tie: regenerate GenNotify.v from the current source
    gen = dict(ok=False, regenerated=False)
    try:
        txt = c10_translator.translate_current()
        gen["ok"] = True
        path = os.path.join(build.THEORIES, "GenNotify.v")
        old = open(path).read() if os.path.exists(path) else None
        if old != txt:
            with open(path, "w") as f:
                f.write(txt)
            gen["regenerated"] = True
    except c10_translator.TranslateError as e:
        ctx.violation("translator rejects the current source: %s" % e,
                      dict(kind="translator", error=str(e)), no_input=True,
                      theorem="translator: exceptions.py / notify_from_exception / _sync_one_entry / EventManager.do -> GenNotify.v")
    g = ctx.coq_gate("PropC10")
    cov = ctx.coverage
    quick = ctx.quick
    stats = dict(translator=gen, notify_checked=0, isinstance_checked=0, scripted_sequences=0, scripted_steps=0, scripted_kinds={},
                 scripted_classes=set(), sched_tables=0, sched_steps=0, sched_failing_entries=0, bound_checked=0, bound_slack_min=10 ** 9,
                 real_loop_classes=0, corpus=0, corpus_rejected=0, corpus_findings_now_passing=[], corpus_stats=_new_stats())
    model = None
    try:
        # when the gate failed the streams still run against the last built model: they are the search for a failing input
        model = fw.ModelProc("fault")
    except Exception:
        model = None
    mismatches = []
    streams = {}
    if model is not None:
        t0 = time.time()
        bad = stream_classes(ctx, model, stats)
        mismatches += [("class order / chain", b) for b in bad]
        bad = stream_scripted(ctx, model, stats, 25 if quick else 400, 80)
        mismatches += [("scripted manager steps", b) for b in bad]
        bad = stream_sched(ctx, model, stats, 400 if quick else 8000)
        mismatches += [("scheduler under failing entries", b) for b in bad]
        stream_real_loop(ctx, stats)
        model.close()
        stats["pure_wall_s"] = round(time.time() - t0, 1)
        for label, b in mismatches[:5]:
            ctx.violation("model and implementation differ (%s): %s; no law of the property fails on the explored inputs" % (label, repr(b)[:300]),
                          dict(kind="correspondence", stream=label, detail=b),
                          no_input=not any(v for v in ctx.violations if not v[2]),
                          theorem="correspondence FaultModel.run vs cloudsync (%s)" % label)
        stats["mismatches"] = len(mismatches)
        # ---- corpus first, then the seeded engine streams
        t0 = time.time()
        run_corpus(ctx, stats)
        stats["corpus_wall_s"] = round(time.time() - t0, 1)
        fams = [("with_rate_faults", 1600, 25000), ("single", 6, 100), ("permanent_path", 600, 8000), ("walk_faults", 500, 6000)]
        from .. import explore as X
        from .. import families_c10 as FC
        from .. import enginecheck as EC
        for fam, nq, nt in fams:
            n = nq if quick else nt
            t0 = time.time()
            st, fails = explore(ctx, fam, n)
            d = st.pop("distinct")
            st["distinct_nontrivial"] = len(d)
            st["rejected"] = len(fails)
            st["wall_s"] = round(time.time() - t0, 1)
            streams[fam] = st
            machine = [f for f in fails if f[1][1] == 113]
            other = [f for f in fails if f[1][1] != 113]
            for case, verdict, descr, tail in machine[:3]:
                ctx.violation("the step-outcome machine (FaultModel.smgr_step / emgr_step) and the real managers differ on an engine run: " + descr[:300],
                              dict(kind="correspondence", family=case.get("_id"), case=case), no_input=not other,
                              theorem="correspondence FaultModel.smgr_step/emgr_step vs SyncManager.do/EventManager.do on recorded steps")
            X.report_failures(ctx, other, runner=FC.run_full, what=WHAT)
    cs = stats.pop("corpus_stats")
    cs.pop("distinct", None)
    stats["scripted_classes"] = len(stats["scripted_classes"])
    if stats["bound_slack_min"] == 10 ** 9:
        stats["bound_slack_min"] = None
    tot_runs = sum(s["runs"] for s in streams.values()) + cs["runs"]
    cov["evaluations"] = tot_runs + stats["scripted_sequences"] + stats["sched_tables"] + stats["notify_checked"]
    cov["distinct_nontrivial"] = sum(s["distinct_nontrivial"] for s in streams.values())
    cov["traces_validated_against_impl"] = tot_runs
    cov["rule"] = ("an engine run is non-trivial when at least one fault was injected into an engine-issued provider call and the engine issued "
                   ">= 1 provider mutation; distinct = distinct (flavour, base, schedule incl. fault plan). Fault points = every engine-issued "
                   "create/upload/rename/delete/mkdir/download/info_oid/info_path/listdir/hash_oid/exists_oid/exists_path/events call and every "
                   "gap between two events; seeded streams exclude the provider calls SyncState makes on its own (change(): path fill-in; "
                   "_update_kids(): child ids on path-style providers) — findings F-1/F-2, witnessed by corpus cases")
    cov["exhaustive"] = False
    cov["streams"] = dict(pure=stats, corpus=cs, **streams)
    cov["samples"] = [s for st in streams.values() for s in st.pop("samples", [])][:4]
    tb = list(TRUSTED) + ["axioms per theorem as printed by Print Assumptions: " +
                          (", ".join(cov.get("axioms_used", [])) or "none (closed under the global context)")]
    return ctx.finish(tb)
