"""Case families of the algorithm-layer tie (harness/checks/c01_algo.py).

A case is a JSON-able dict:
  level     : fragment level the history lies in (1 = F1, 2 = F2, 3 = F3) = level the model is run at
  schedule  : list of actions
                ["user", side, op]   op = ["create", rel, content] | ["write", rel, content] | ["delete", rel]
                                        | ["rename", rel, rel2] | ["mkdir", rel]        (paths relative to the root, '/a/b')
                ["intake", side] | ["sync"] | ["drain"]    (drain = fair rounds until the engine is quiescent)
  hash_mult : odd int permuting SyncEntry set order (which pending entry comes first among equals)
The flavour is fixed by the fragments reached so far: id-stable, case-sensitive, unfiltered providers, roots
/local and /remote.  Every generator stays inside the decidable domain predicate of its level (AlgoModel.in_Fk),
which the check evaluates on the extracted model for every generated case.
"""

NAMES = ["f", "doc", "x y", "N", "été", "a.b", "Z"]


class G:
    def __init__(self, rng, level, sides):
        self.rng = rng
        self.level = level
        self.sides = sides
        self.counter = 0
        self.sched = []
        self.live = {0: [], 1: []}      # files owned (created and not deleted) by the user of that side: rel paths
        self.dirs = {0: [""], 1: [""]}  # folders that side's user may create files in ('' = the root)
        self.used_empty = False

    def fresh(self, ext=True):
        self.counter += 1
        stem = self.rng.choice(NAMES)
        return "%s%d%s" % (stem, self.counter, self.rng.choice(["", ".txt", ".d"]) if ext else "")

    def content(self):
        self.counter += 1
        n = self.rng.choice([0, 3, 8, 40, 1500]) if self.rng.random() < 0.3 else 6
        body = ("c%d-" % self.counter).encode()
        if n == 0 and not self.used_empty and self.rng.random() < 0.5:
            self.used_empty = True          # the empty content once per case: a written content is new for its file
            return b""
        return (body * (n // len(body) + 1))[:max(n, len(body))]

    def noise(self, p=0.55):
        while self.rng.random() < p:
            r = self.rng.random()
            if r < 0.3:
                self.sched.append(["intake", 0])
            elif r < 0.6:
                self.sched.append(["intake", 1])
            else:
                self.sched.append(["sync"])

    def op(self):
        rng = self.rng
        side = rng.choice(self.sides)
        r = rng.random()
        live = self.live[side]
        if self.level >= 3 and r < 0.18:
            parent = rng.choice(self.dirs[side])
            if parent.count("/") >= 3:
                parent = ""
            rel = parent + "/" + self.fresh(ext=False)
            self.dirs[side].append(rel)
            self.sched.append(["user", side, ["mkdir", rel]])
        elif r < 0.45 or not live:
            parent = rng.choice(self.dirs[side]) if self.level >= 3 else ""
            rel = parent + "/" + self.fresh()
            live.append(rel)
            self.sched.append(["user", side, ["create", rel, self.content()]])
        elif r < 0.65:
            self.sched.append(["user", side, ["write", rng.choice(live), self.content()]])
        elif r < 0.8 and self.level >= 2:
            src = rng.choice(live)
            parent = rng.choice(self.dirs[side]) if self.level >= 3 else ""
            dst = parent + "/" + self.fresh()
            live.remove(src)
            live.append(dst)
            self.sched.append(["user", side, ["rename", src, dst]])
        else:
            rel = rng.choice(live)
            live.remove(rel)
            self.sched.append(["user", side, ["delete", rel]])

    def history(self, n):
        for _ in range(n):
            self.op()
            self.noise()
            if self.rng.random() < 0.12:
                self.sched.append(["drain"])
        return self.sched


def _case(rng, level, sides, n):
    g = G(rng, level, sides)
    g.history(n)
    return dict(level=level, schedule=g.sched, hash_mult=rng.choice([1, 3, 7, 11, 2654435761]),
                sides=list(sides))


def f1_one_sided(rng):
    return _case(rng, 1, [rng.choice([0, 1])], rng.randint(1, 10))


def f1_two_sided(rng):
    return _case(rng, 1, [0, 1], rng.randint(2, 12))


def f2_one_sided(rng):
    return _case(rng, 2, [rng.choice([0, 1])], rng.randint(1, 10))


def f2_two_sided(rng):
    return _case(rng, 2, [0, 1], rng.randint(2, 12))


def f3_one_sided(rng):
    return _case(rng, 3, [rng.choice([0, 1])], rng.randint(1, 12))


def f3_two_sided(rng):
    return _case(rng, 3, [0, 1], rng.randint(2, 14))


FAMILIES = {
    1: ["f1_one_sided", "f1_two_sided"],
    2: ["f2_one_sided", "f2_two_sided"],
    3: ["f3_one_sided", "f3_two_sided"],
}
