"""Build-time tool (never run by a check): enumerates Stream B on the CURRENT tree and rewrites the
auto-generated entries of known_findings.json.  Usage: python -m harness.tools_known [C01 C03 ...] [--families a,b]
(--families: only these generator families are enumerated and only their auto entries are rewritten; the auto entries of
the other families of the named properties are kept as they are.)
Run it only on the unchanged /repo: whatever fails there is a genuine engine defect (DESIGN §7)."""
import collections
import json
import os
import sys

from . import enginecheck as EC
from . import framework as fw
from . import streamb


def main():
    args = sys.argv[1:]
    only = None
    if "--families" in args:
        i = args.index("--families")
        only = set(args[i + 1].split(","))
        args = args[:i] + args[i + 2:]
    props = args or [p for p, pl in streamb.PLAN.items() if pl["families"]]
    path = fw.KNOWN
    data = json.load(open(path))

    def entry_family(k):
        return k["id"].split("-SB-", 1)[1].rsplit("-", 1)[0] if "-SB-" in k["id"] else None
    keep = [k for k in data["findings"] if not (k.get("auto") and k["properties"][0] in props
                                                and (only is None or entry_family(k) in only))]
    new = []
    for prop in props:
        plan = streamb.PLAN[prop]
        for fam, nq, nt in plan["families"]:
            if only is not None and fam not in only:
                continue
            runs = []
            for rep in range(2):      # determinism of the real engine under the harness: two identical passes
                st, fails = streamb.run_family(None, prop, fam, nt)
                runs.append(sorted((streamb.case_key(prop, EC.unjson_case(c)), v[1]) for c, v, d, t in fails))
            if runs[0] != runs[1]:
                print("NON-DETERMINISTIC Stream B for", prop, fam, len(runs[0]), len(runs[1]))
                sys.exit(1)
            groups = collections.defaultdict(list)
            quick_groups = collections.Counter()
            for c, v, d, t in fails:
                g = EC.GUARDS.get(v[1], str(v[1]))
                groups[g].append(streamb.case_key(prop, EC.unjson_case(c)))
                if c["_id"][1] < nq:
                    quick_groups[g] += 1
            for g, ids in sorted(groups.items()):
                new.append(dict(id="%s-SB-%s-%s" % (prop, fam, g), properties=[prop], status="open", auto=True,
                                what="Stream B (%s, %s cases 0..%d): %d deterministic cases of %s are rejected "
                                     "with guard %s on the unchanged tree (engine defect classes E-1..E-9 of DESIGN §7); %d of them are in the quick set"
                                     % (streamb.family_version(fam), fam, nt - 1, len(ids), generator_kind(fam), g, quick_groups[g]),
                                case_ids=sorted(ids)))
            print(prop, fam, st["runs"], "runs;", {g: len(i) for g, i in groups.items()})
    data["findings"] = keep + new
    with open(path, "w") as f:
        json.dump(data, f, indent=1)
    print("known_findings.json: %d entries" % len(data["findings"]))


def generator_kind(fam):
    # wording of the auto entries (the v1 wording must stay as committed)
    if fam.startswith("sb_reuse"):
        return "the enumerated path re-use scope"
    return "the enumerated nested-folder scope" if fam.startswith("sb_nest") else "the unrestricted generator"


def streamb_version():
    from . import streamb_gen
    return streamb_gen.VERSION


if __name__ == "__main__":
    main()
